#!/bin/sh
# usage: tools/mutant_wt.sh <mutants/Cxx-name.diff> ...  — evaluates hand-made property-breaking edits in a scratch worktree of /repo
# (VERIF_REPO), never touching /repo. Each must give exit 1.
cd "$(dirname "$0")/.." || exit 2
wt=${VERIF_SCRATCH:-/var/tmp}/verif-mut-wt.$$
git -C /repo worktree add -f "$wt" HEAD >/dev/null 2>&1 || { echo "cannot create worktree"; exit 2; }
trap 'git -C /repo worktree remove --force "$wt" >/dev/null 2>&1; rm -rf "$wt.ev"' EXIT
bad=0
for m in "$@"; do
  b=$(basename "$m"); p=${b%%-*}
  git -C "$wt" checkout -q -- . ; git -C "$wt" clean -fdq
  git -C "$wt" apply "$(pwd)/$m" || { echo "$b: patch does not apply"; bad=1; continue; }
  out=$(VERIF_REPO="$wt" VERIF_EVIDENCE_DIR="$wt.ev" ./check "$p" 2>&1); rc=$?
  echo "$b exit=$rc  $(echo "$out" | grep -m1 "^VIOLATION\|^UNDECIDED\|^OK" | cut -c1-200)"
  [ $rc = 1 ] || { bad=1; echo "   ^^^ NOT REPORTED"; }
done
exit $bad
