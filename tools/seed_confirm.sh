#!/bin/bash
# usage: tools/seed_confirm.sh <worktree> <sN> <tests_dir> <existing test cmd...>   (run inside the seed worktree; nothing touches /repo)
# (a) change applied: existing tests pass  (b) change applied: demo FAILS  (c) change undone: demo PASSES
wt=$1; s=$2; tdir=$3; shift 3
cd "$wt" || exit 2
export CARGO_NET_OFFLINE=true CARGO_TARGET_DIR=$wt/target RUST_BACKTRACE=0
git checkout -q -- . ; rm -f "$tdir"/seed_demo_*.rs
git apply SEED/$s.patch.diff || { echo "PATCH DOES NOT APPLY"; exit 2; }
echo "-- (a) existing tests with the change: $*"
( cd runtime && "$@" 2>&1 | grep -E "^test result|FAILED|^error" | sort | uniq -c | head -8 )
cp SEED/${s}_demo.rs "$tdir/seed_demo_$s.rs"
echo "-- (b) demo with the change (must FAIL)"
( cd runtime && cargo test ${PKG:--p pavex_session} --offline --test seed_demo_$s 2>&1 | grep -E "^test result|^test .*FAILED|^error" | head -8 )
git checkout -q -- .
echo "-- (c) demo without the change (must PASS)"
( cd runtime && cargo test ${PKG:--p pavex_session} --offline --test seed_demo_$s 2>&1 | grep -E "^test result|^test .*FAILED|^error" | head -8 )
rm -f "$tdir/seed_demo_$s.rs"; git status --short | grep -v "^??"
