#!/bin/bash
# usage: tools/seed_confirm2.sh <worktree> <id e.g. C13-s1> <tests|append> <tests dir | source file to append to> <crate> <existing test cmd...>
# (round 4+ naming: SEED/<id>.patch.diff, SEED/<id>_demo.rs). (a) change applied: existing tests pass (b) demo FAILS (c) change undone: demo PASSES
wt=$1; id=$2; mode=$3; tgt=$4; pkg=$5; shift 5
cd "$wt" || exit 2
export CARGO_NET_OFFLINE=true CARGO_TARGET_DIR=$wt/target RUST_BACKTRACE=0
ws=runtime; case "$pkg" in pavexc|persist_if_changed) ws=compiler;; esac
git checkout -q -- .; git apply SEED/$id.patch.diff || { echo "PATCH DOES NOT APPLY"; exit 2; }
echo "-- (a) existing tests with the change"
( cd $ws && "$@" 2>&1 | grep -E "^test result|FAILED|^error" | grep -v " 0 passed; 0 failed" | sort | uniq -c | head -6 )
run_demo() {
  if [ "$mode" = tests ]; then cp SEED/${id}_demo.rs "$tgt/seed_demo_x.rs"; ( cd $ws && cargo test -p $pkg --offline --test seed_demo_x 2>&1 | grep -E "^test result|^test .*FAILED|^error" | head -6 ); rm -f "$tgt/seed_demo_x.rs"
  else cat SEED/${id}_demo.rs >> "$tgt"; ( cd $ws && cargo test -p $pkg --offline --lib seed_demo 2>&1 | grep -E "^test result|^test .*FAILED|^error" | head -6 ); fi
}
echo "-- (b) demo with the change (must FAIL)"; run_demo
git checkout -q -- .
echo "-- (c) demo without the change (must PASS)"; run_demo
git checkout -q -- .; git status --short | grep -v "^??"
