#!/bin/sh
# Runs every kept seeded change against its check: each must be reported (exit 1). /repo is restored after each.
cd "$(dirname "$0")/.." || exit 2
bad=0
for d in seeded/*/; do
  id=$(basename "$d"); prop=${id%%-*}
  out=$(tools/seed_eval.sh "$prop" "$(pwd)/${d}patch.diff" 2>&1)
  rc=$(echo "$out" | sed -n 's/^exit=//p')
  first=$(echo "$out" | grep -m1 "^VIOLATION\|^UNDECIDED\|^OK" | cut -c1-170)
  # a seed that is honestly NOT reported (meta.json: expected_exit 2) must at least never pass as OK
  want=$(python3 -c "import json,sys;print(json.load(open(sys.argv[1])).get('expected_exit',1))" "${d}meta.json" 2>/dev/null || echo 1)
  echo "$id exit=$rc (expected $want)  $first"
  [ "$rc" = "$want" ] || bad=1
done
exit $bad
