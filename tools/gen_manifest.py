#!/usr/bin/env python3
"""Regenerates /verif/MANIFEST.json from the table below (kept here so the file is always schema-valid)."""
import json, os
V = os.path.dirname(os.path.dirname(os.path.abspath(__file__)))
BASELINE = ("cd /repo && cargo nextest run --workspace --no-fail-fast --tool-config-file pb:/w/lib/nextest.toml "
            "--profile pb --test-threads 8 --offline")
TECH = "contract-based deductive verification: Verus (Z3) on functions of /repo extracted mechanically on every run"
CLAIMED = {
 "C02": dict(
   text=("Partial claim — a thin slice: three rule checks never reject a blueprint that abides by their rule. On the real text of "
         "pavexc's cloneables_can_be_cloned, runtime_singletons_are_thread_safe and ConstructibleDb::verify_lifecycle_of_singleton_dependencies "
         "(the same extractions as C08, obligations tagged @C02) Verus discharges the converse of C08's obligations: if NO component is "
         "subject to the rule with a type that lacks the trait / if every runtime singleton is Send and Sync / if no singleton has an input "
         "whose designated constructor is request-scoped ('singletons depend only on singletons' — transient inputs are allowed), the "
         "function adds no diagnostic at all (error count unchanged), for a component database of any size. An over-strict variant (Clone "
         "demanded of every constructor, transients forbidden to singletons) is a refuted obligation."),
   note=("NOT decided — and this is almost all of C02: acceptance by the WHOLE pipeline (constructibility, cycles, route overlap, the "
         "borrow checker's move/borrow analysis over the call graph, codegen) needs every other pass to stay silent too; those are "
         "petgraph / rustdoc analyses outside what Verus accepts (DESIGN §3/C02). The trait oracle, the component database accessors and "
         "the diagnostic builders are assumed stand-ins; the sink is observed through a ghost error count. No native replay."),
   design="§3/C02"),
 "C03": dict(
   text=("Partial claim — a sliver: the table the statement's three sentences start from, 'allowed invocations per lifecycle'. Verus "
         "discharges, on the real text of the two lifecycle2invocations functions (declared inside _request_scoped_call_graph and "
         "application_state_call_graph; hoisted mechanically): in a request-time call graph a singleton is never constructed (it is taken "
         "as an input), a request-scoped component at most once, a transient once per use; in the application-state graph a singleton at "
         "most once, a transient once per use, and the `unreachable!()` for request-scoped is discharged under the precondition that none "
         "reaches that graph (which the C08 singleton rule enforces). A closed match over two enums: the proof is complete, not bounded."),
   note=("NOT decided — and this is almost all of C03: everything about a RUNNING server (which instance an injection sees, sharing "
         "between handler, middlewares, error handlers and observers, clones) is behaviour of the emitted program (DESIGN §1.3); what the "
         "call-graph builder does with these numbers (NodeDeduplicator, request_scoped2built_at_stage_index, bind_next, the generated "
         "ApplicationState::new) is petgraph / IndexSet code over ComponentDb outside what Verus accepts. No native replay."),
   design="§3/C03"),
 "C04": dict(
   text=("Partial claim — a thin slice: the compile-time clause 'the registration in the nearest enclosing (nested) blueprint wins (within "
         "one blueprint, the latest registration), registrations of parents are inherited, registrations of sibling blueprints are "
         "invisible'. Verus discharges, on the real text of pavexc's ConstructibleDb::get (the breadth-first walk over the scope graph, "
         "loop invariant + termination measure, for every graph whose parents have smaller ids than their children), "
         "ConstructiblesInScope::{new, get, insert} (the per-scope table: by value for the type itself, by shared/exclusive borrow for the "
         "referent of a non-'static reference; a later insert overwrites exactly that entry) and ScopeGraphBuilder::{new, root_scope_id, "
         "add_scope} (a fresh scope hangs under exactly the given parent; parents below children is preserved): a result comes from a "
         "scope on an upward path from the requesting scope with no scope fewer steps away offering one; None only if no scope on any "
         "upward path offers one. Four lemmas conclude the statement's sentences from those postconditions. A bounded model-based native "
         "search (labelled bounded) drives the real builder, ScopeGraphBuilder::build, direct_parent_ids and get."),
   note=("NOT decided — and this is most of C04: that the VALUE injected at run time was produced by that constructor, is fully "
         "constructed before use and is never duplicated unless clone-if-necessary are properties of the emitted program (DESIGN §1.3); "
         "template specialisation (get_or_try_bind, is_a_template_for) is the type algebra of C17 (not claimed); ScopeGraphBuilder::build "
         "and ScopeId::direct_parent_ids (petgraph iterator chains) are assumed contracts exercised only by the bounded search; that "
         "process_blueprint hands each nested blueprint a fresh scope under its parent and registers components in it is not under contract."),
   design="§3/C04"),
 "C05": dict(
   text=("Partial claim — the compile-time half of one sentence: WHICH middlewares are attached to WHICH handler, in which order "
         "('middlewares registered before the route, in the same or an enclosing blueprint, in registration order; middlewares registered "
         "after a route, or in a sibling blueprint, never run for it'). Verus discharges, on the real text of "
         "pavexc::compiler::analyses::user_components::blueprint (process_blueprint, _process_blueprint, process_route, process_fallback, "
         "process_middleware, process_pre/post_processing_middleware, process_error_observer, process_constructor, process_error_handler, "
         "process_prebuilt_type, process_config_type, process_component_specific_error_handler) and AuxiliaryData::intern_component: per "
         "blueprint level, every route is recorded with exactly the chain handed in plus the middlewares registered BEFORE it at this level, "
         "in order (loop invariant over any number of components of the 13 kinds); every nested blueprint is queued with exactly the chain "
         "as it stood where it was nested (a copy: later registrations of the parent or of a sibling cannot reach it); the fallback gets the "
         "chain after the last component; the ids in a chain denote those very registrations (kind + annotation coordinates); entries "
         "recorded earlier are never rewritten. The NEXT stage is under contract too (unit c05_translate): "
         "ComponentDb::compute_request2middleware_chain translates each handler's chain of user components to component ids IN ORDER, "
         "dropping only the members that have no component id, behind one synthetic no-op wrapping middleware; no handler's entry is "
         "overwritten by another's. The whole-tree statement is checked by a bounded model-based native search (labelled bounded)."),
   note=("NOT decided — and this is most of C05: the ORDER in which the attached middlewares and the handler RUN, early returns, "
         "post-processors captured by a wrapping scope: stage functions emitted by processing_pipeline/codegen.rs and the stage grouping of "
         "RequestHandlerPipeline::new, i.e. the emitted program (DESIGN §1.3). The induction from 'one level + hand-over through the "
         "work-list' to the whole tree is not mechanised (termination of the work-list loop IS proved); "
         "la_arena/interner/maps/add_scope are assumed stand-ins."),
   design="§3/C05"),
 "C06": dict(
   text=("Partial claim — the compile-time half of one sentence: WHICH error observers are attached to WHICH handler ('every error observer "
         "registered before the route ..., in registration order; observers registered after the route do not run'). Same unit and same "
         "functions as C05 (obligations tagged @C06): per blueprint level every route and the fallback are recorded with exactly the observer "
         "chain handed in plus the observers registered BEFORE them at this level, in order; nested blueprints are queued with a copy of "
         "the chain as it stood; process_error_observer appends exactly the interned observer; no other function touches the observer "
         "table; the next stage, ComponentDb::compute_request2error_observer_chain, translates each handler's observer chain to component "
         "ids in order, dropping only the members without a component id. And 'the error handler registered for that error type' is "
         "designated the same way constructors are (unit c06_handlers): ErrorHandlersDb::get_or_try_bind — the same breadth-first walk "
         "over the scope graph as C04's, here through get_mut — returns what the nearest enclosing scope that has a handler for the "
         "type offers (None only if no enclosing scope has one), equals the functional spec designated(..), terminates, and leaves every "
         "lookup's answer as it was. The whole-tree statement is checked by the same bounded "
         "model-based native search (labelled bounded)."),
   note=("NOT decided — and this is most of C06: that nothing depending on an Ok value runs after an Err, that the right error handler runs "
         "exactly once, that observers run after it and before the response leaves: match-branch injection in core_graph.rs over ComponentDb "
         "and `Err(e) => return` arms of the emitted program (DESIGN §1.3). Same assumptions as C05."),
   design="§3/C06"),
 "C08": dict(
   text=("Partial claim — a thin slice: five of the documented rules, on the five functions that check them (the fifth — 'two routes that can "
         "match the same request', for two handlers registered for the SAME path whose method guards both admit one of the nine well-known "
         "methods: PathRouter::detect_method_conflicts, four nested loops over an IndexMap grouping, returns Err and pushes a diagnostic, for "
         "any number of handlers in any order, ANY-method routes included; the nine methods are pinned in the spec, not read from the "
         "code's constant — the fourth — 'any &mut input on "
         "a constructor', CannotTakeMutReferenceError::check_callable: a callable with a mutable-reference input is refused, naming the FIRST "
         "such input, for any number of inputs — and the third — 'a singleton that depends "
         "on a request-scoped type', ConstructibleDb::verify_lifecycle_of_singleton_dependencies — lives in the C04 unit, obligations tagged @C08, "
         "and is stated over the functional spec `designated(..)` of the scope walk proved there). Verus discharges, on the real "
         "text of pavexc's cloneables_can_be_cloned ('clone-if-necessary on a type that is not Clone'; also: every configuration type must "
         "be Clone) and runtime_singletons_are_thread_safe ('a singleton needed at request time that is not Send + Sync'), with the trait "
         "oracle (assert_trait_is_implemented over rustdoc JSON) as an uninterpreted predicate and the diagnostic sink observed through a "
         "ghost error count: if ANY component of the database is subject to the rule and its type does not implement the trait(s) — any "
         "number of components, any position — at least one error diagnostic reaches the sink (loop invariants over the whole component "
         "list; both Send and Sync are checked for every singleton), and diagnostics are only ever added. Two lemmas turn 'there is an "
         "offender' into the counting form the invariants use."),
   note=("NOT decided — and this is most of C08: every other documented rule (missing constructor, dependency cycle, singleton depending "
         "on request-scoped, ambiguous singletons, &mut injections, observers needing fallible constructors, route conflicts, "
         "path-parameter fields) is a graph / rustdoc analysis over ComponentDb outside what Verus accepts; that an error in the sink makes "
         "App::build fail is the oracle of the C09 unit (whose obligations then give 'never exit 0, no SDK written'); which singletons are "
         "needed at run time and which types implement a trait are oracles; the diagnostic builders are assumed to push one error each. "
         "No native replay (pavexc's databases cannot be built without rustdoc JSON from a nightly that is not installed): refutations "
         "carry no-failing-input-found."),
   design="§3/C08"),
 "C07": dict(
   text=("Partial claim — three thin slices. (0) Compile time, 'invokes the UNIQUE handler whose ... path pattern and method guard match': two "
         "handlers registered for the same path that both admit a well-known method are refused (PathRouter::detect_method_conflicts, "
         "obligation tagged @C07 in the C08 routes unit). (1) Compile time, 'the fallback of the innermost blueprint whose prefix/domain covers the request "
         "runs': on the real text of pavexc's ScopeBasedFallbackTree::find_fallback_id (a labelled descent over the fallback tree, rule "
         "N21) Verus discharges that the fallback chosen for a route is the one of a node whose scope encloses the route's scope and none "
         "of whose children does — the innermost registered fallback enclosing the route, never a sibling's — for every tree of the shape "
         "ScopeBasedFallbackTree::new builds (a precondition: children come after their parent), with termination and index safety. "
         "(2) Run time, the one clause of the statement that is decided by hand-written run-time code. Verus discharges, "
         "on the real text of pavex::router::default_fallback and AllowedMethods::allow_header_value, that the default fallback answers "
         "405 with an Allow header listing exactly the methods registered for the matched path when there is at least one, and 404 "
         "without an Allow header otherwise (no method registered, or AllowedMethods::All). The header text itself "
         "(MethodAllowList::allow_header_value: join over iterator adapters) is an assumed contract checked by a BOUNDED, exhaustive "
         "native stand-in: every ordered list of up to 4 distinct methods out of 11 through the real functions."),
   note=("NOT decided — and this is most of C07: WHICH handler or fallback a request reaches (domain guard, path pattern with nesting "
         "prefixes, method guard, innermost covering blueprint) and that the server starts without panicking are properties of the router "
         "that pavexc GENERATES (matchit tables emitted by codegen/router.rs), i.e. of the emitted program; no contract on pavexc or on the "
         "runtime reaches them (DESIGN §1.3). Response is modelled by status code + Allow header only. For slice (1): the shape of the tree "
         "(ScopeBasedFallbackTree::new, iterator closures) is a precondition, is_descendant_of is an uninterpreted relation, and how the "
         "chosen fallback reaches the emitted router (assign_fallbacks over matchit, codegen) is not decided."),
   design="§3/C07"),
 "C09": dict(
   text=("Partial claim — the 'fails atomically' half, on the one function that decides it. The verbatim text of pavexc_cli::generate "
         "(the compiler proper, App::build and App::codegen, is an opaque oracle whose verdicts are ghost constants of the run) is "
         "under contract: GeneratedApp::persist — the only way the SDK is touched — carries the protocol precondition 'the analysis "
         "accepted the blueprint AND code generation succeeded', which Verus discharges at its call site; a rejected blueprint never "
         "exits 0; exit 0 implies both verdicts were positive. With C10's obligations on the same text (no write primitive is reachable "
         "under --check, every SDK write goes through the writer) this is the statement's second sentence for every blueprint. "
         "Of the first sentence ('terminates'), several loops of the compiler are proved to terminate on the real text, for every input "
         "(obligations tagged @C09 in the C05 and C04 units): the work-list walk over the blueprint tree in process_blueprint (measure: "
         "nested blueprints still to be processed, a recursive function over the schema), the breadth-first scope walks of "
         "ConstructibleDb::get and ErrorHandlersDb::get_or_try_bind (measure: upward paths from the queued scopes, on a graph whose parents "
         "have smaller ids) and the descent of ScopeBasedFallbackTree::find_fallback_id (a child comes after its parent)."),
   note=("NOT decided: termination of everything else, panic-freedom and 'at least one error diagnostic is printed' are properties of the whole 26 kLoC "
         "compiler behind App::build (Verus rejects its text, Kani proves no termination); a failing I/O operation half-way through "
         "GeneratedApp::persist (manifest written, lib.rs not) is outside the quantifier (it ranges over blueprints). No native replay: "
         "pavexc cannot run here (it needs rustdoc JSON from a nightly that is not installed), so a refuted obligation is reported with "
         "no-failing-input-found. Assumed: App::build/codegen return Ok exactly when the run's ghost verdicts say so."),
   design="§3/C09"),
 "C15": dict(
   text=("Partial claim — the glue pavex itself wrote around the third-party decoders. Verus discharges, on the real text of "
         "PathParams::extract (loop invariant, unbounded number of parameters), EncodedParamValue::{new, decode, as_str}, "
         "RawPathParamsIter::next, QueryParams::extract and query_params::parse: every raw path segment is percent-decoded EXACTLY "
         "ONCE (pct_decode applied once, uninterpreted), parameter names and order are kept, the deserializer is built from exactly the "
         "decoded pairs, a segment that is not UTF-8 after decoding yields InvalidUtf8InPathParameter naming the first offending "
         "parameter and its raw segment, the iterator hands the raw segment on untouched, and the query string (empty when absent) is "
         "given to serde_html_form as it is; the Content-Type gates of JsonBody/UrlEncodedBody accept exactly the documented media types "
         "and otherwise return the documented error variant (uninterpreted mime model); the extract functions themselves are in C14's unit. Everything the "
         "statement says about VALUES (by-name matching, numbers/booleans/strings kept, wrong types rejected) lives in PathDeserializer "
         "and third-party serde code that no contract reaches: covered by a BOUNDED native stand-in only (20k/1M pseudo-random "
         "encoded path parameter sets through the real matchit router, 10k/300k query strings + forms + JSON bodies, malformed inputs), "
         "labelled bounded in the evidence and never counted as proved."),
   note=("NOT decided deductively: PathDeserializer (800-line serde Deserializer generic over every Visitor), percent_encoding, "
         "form_urlencoded, serde_html_form, serde_json. Assumed: decode_utf8 = one application of percent-decoding + UTF-8 validation; "
         "RawPathParams::iter yields matchit's pairs in route order; serde deserializers are functions of their input only; "
         "`id.into()` (&str -> String) and `Option<&str>::unwrap_or_default()` retyped to stand-in calls (rule N7, vstd lacks the specs)."),
   design="§3/C15"),
 "C16": dict(
   text=("Partial claim — a thin slice: one of the three mechanisms the statement rests on, 'shutdown messages are polled before "
         "connections'. Verus discharges, on the real text of Worker::poll_inboxes and Acceptor::poll_inboxes (tokio receivers and the "
         "JoinSet as ghost queues; whether a poll yields is an uninterpreted fact of the receiver's state): whenever a shutdown command "
         "is ready it is what comes out, and then no connection leaves the worker's inbox (resp. the accept tasks are not even polled); a "
         "connection is handed on only when no shutdown command is ready; Pending takes nothing. A native test with real tokio channels "
         "and loopback sockets (0..3 connections queued BEFORE the shutdown command) replays it."),
   note=("NOT decided — and this is almost all of C16: that no new connection is accepted after the call, that every request received "
         "before it is answered in full, that the shutdown future resolves once all workers are idle or the timeout elapses, that Forced "
         "resolves promptly, that awaiting the handle resolves: concurrency (acceptor thread, worker threads, tokio channels, sockets) "
         "and liveness; Verus would need its permission/atomic-invariant types in code that does not use them, Kani has no threads, "
         "neither decides liveness (DESIGN §3/C16). What Worker::run / Acceptor::run do with the message is not under contract."),
   design="§3/C16"),
 "C17": dict(
   text=("Partial claim — two slivers. (1) 'substituting b into T ... in particular keeps reference mutability', one level deep: on the real "
         "text of rustdoc_ir's Type::bind_generic_type_parameters (the whole recursive function over the real Type enum and its payload "
         "structs, both closures of the function-pointer arm included) Verus discharges that a reference stays a reference with the same "
         "mutability and lifetime, a raw pointer keeps its mutability, an array its length, every non-generic type its shape, a bound "
         "generic parameter becomes its binding and an unbound one is left alone. (2) The renaming device that 'equivalence up to generic "
         "parameter names' rests on. Verus discharges, on the "
         "real text of rustdoc_ir's UnassignedIdGenerator::{new, id} (generics_equivalence.rs), that names are mapped to ordinals stably "
         "and injectively: a known name keeps its ordinal and nothing changes; a new name gets the next ordinal and every other name "
         "keeps its own; no two names ever share an ordinal — so two names get the same ordinal exactly when they are the same name "
         "(lemma), for any sequence of calls (representation invariant preserved by every call)."),
   note=("NOT decided — and this is almost all of C17: every law the statement lists (template binding keeps reference mutability, "
         "equivalence reflexive / symmetric / transitive and blind to nothing but lifetimes and generic names, canonicalisation idempotent, "
         "render/parse lossless) is about the recursive functions of type_.rs (is_a_template_for, bind_generic_type_parameters, "
         "is_equivalent_to, _canonicalize), which recurse through `.iter().zip().all(|..| self.…)` closures and iterator chains over an "
         "enum recursive through Vec<Type>: Verus rejects that text, Kani did not converge on one concrete shape pair (DESIGN §3/C17). "
         "How is_equivalent_to pairs the two generators' ordinals is not under contract. ahash::HashMap<&str, usize> is a stand-in. For (1): "
         "the DEEP statement (every nested position; agreement with is_a_template_for) is not decided, and termination of the recursion "
         "through Vec elements and closures is assumed (allow-listed attribute, listed in trusted_base)."),
   design="§3/C17"),
 "C20": dict(
   category="exploration",
   technique=("contract-based deductive verification (Verus on the mechanically extracted DomainGuard::new and DomainRouter::detect_domain_conflicts) for the two functions within reach; "
              "a BOUNDED native stand-in (pseudo-random documented-valid guards x near-miss hosts through the real validator, the real pattern "
              "builder and a real matchit router) for validate / matchit_pattern, which the verifier cannot reach — labelled bounded, not proved"),
   text=("Thin partial claim, mostly bounded. Proved (Verus, on the real text of DomainRouter::detect_domain_conflicts, loop invariant, "
         "any number of guards): every guard's pattern is offered, in registration order, to ONE matchit router, and the set is refused "
         "(Err, with at least one diagnostic; Ok adds none) exactly when that router refuses one of them — matchit's verdict being an "
         "uninterpreted function of the router's contents (measured NOT to be a pairwise relation). Proved (Verus, on the real text of "
         "DomainGuard::new): a guard is accepted exactly when "
         "`validate` accepts the string it was given, and the stored domain is that string with its trailing dots removed ('one trailing "
         "dot is ignored' on the guard side) — nothing else is stored, nothing is accepted around the validator. BOUNDED, not proved: "
         "through the real DomainGuard::new + matchit_pattern and a real matchit router, with the normalisation chain spliced from the template of the "
         "generated router, ~1.5k (quick) / 20k (thorough) pseudo-random guards built from the documented grammar (1-4 labels, literal "
         "labels, `{param}` with an optional literal suffix, a leading `{*param}`, optional trailing dot) x 24 near-miss hosts each are "
         "accepted and match exactly the hosts the documented rules give; EVERY string of length <=5 (quick, 19 607) / <=7 (thorough, "
         "960 799) over the 7 symbols a 1 - . { } * gets, from the real DomainGuard::new, the verdict of a 20-line model of the documented "
         "rules; 17 forbidden and 10 permitted guard shapes from the documentation, 13 boundary pairs for the 63-character label and "
         "253-character total limits (plain, templated, with trailing dot) and 14 alphabet cases (digit-initial labels, upper case, "
         "non-ASCII letters and digits) get the documented verdict."),
   note=("NOT decided: `validate` and `matchit_pattern` themselves are outside the verifier (str::split, chars().rev().peekable(), "
         "take_while, IndexSet<char>, syn::parse_str — measured: Verus has no str/iterator reasoning, Kani does not converge at 2-5 "
         "characters); `validate` is an uninterpreted oracle in the contract, trim_end_matches('.') is a retyped stand-in. The bounded "
         "stand-in enumerates only short strings over 7 symbols and samples beyond: a slip that needs a longer string over a richer "
         "alphabet than its pools (parameter names that are Rust keywords, limits other than the listed boundaries) is not seen. The host normalisation chain is spliced on every run from the "
         "quote! template of codegen/router.rs into the stand-in (so a change to it is seen, boundedly); the dispatch around it is emitted code and not decided. The conflict half of the statement "
         "is decided only as far as 'the compiler refuses exactly what matchit refuses, having offered it everything': WHEN matchit "
         "refuses is a dependency's rule and is not judged (it accepts `api.dev` next to `{sub}.dev` — the literal has priority — and its "
         "verdict depends on registration order: DESIGN §3/C20). A host with several trailing dots is outside 'every host name' and not judged."),
   design="§3/C20"),
 "C19": dict(
   text=("Partial claim — the builder-API -> schema half. Verus discharges, on the real text of all 17 registration methods of "
         "Blueprint, of RoutingModifiers (prefix/domain/nest/routes), of every Registered* modifier (error_handler, lifecycle, "
         "cloning, lints, default_if_missing, ...), of the conversion functions and of the schema's own From impls, that each call "
         "appends exactly one component built from its argument and the caller's location at the end, changes nothing else, returns a "
         "handle to exactly that component; that a modifier changes exactly the named field of exactly that component (the "
         "`unreachable!`s in the accessors are discharged from the handle invariant); that nesting stores the child whole with exactly "
         "the last prefix/domain; that conversions are name-preserving. #[track_caller] on every method of the location chain is a "
         "syntactic obligation. persist/load serialise exactly self.schema / wrap exactly what was parsed. Native tests build, persist, "
         "read back (the way the compiler does) and compare. The COMPILER side of the same sentence for blueprint registrations (obligations tagged @C19 in the C05 unit): on the real text of pavexc's process_route / process_fallback / process_middleware / process_pre/post_processing_middleware / process_error_observer / process_constructor, every registered component is interned as a component of the kind it was registered as, with exactly the annotation coordinates (id, created_at) and the registration location of the schema entry (and, for constructors, the scope of its blueprint and the cloning policy that was given)."),
   note=("NOT decided: the attribute channel (proc-macro -> rustdoc JSON -> darling) — second sentence of C19; serde/RON round trip of "
         "the schema types is an assumed axiom (exercised natively); reflection::Sources conversion (sources2sources: into_iter().map().collect()) is extracted and proved.."),
   design="§3/C19"),
 "C10": dict(
   text=("Partial claim — the idempotence and `--check` clauses. The file system is a read-only snapshot and every primitive that "
         "modifies it carries a protocol precondition (`writes_allowed()`, and for byte writes `the bytes differ from the snapshot`). "
         "Verus discharges on the real text: has_changed_file2buffer / has_changed_file2file return false exactly when the bytes are "
         "already there; persist_if_changed and copy_if_changed reach a write primitive only when content differs; AppWriter in check "
         "mode reaches no write primitive and records exactly the outdated paths, verify() is Ok iff update mode or nothing outdated; "
         "AppDiagnostics::persist_flat, GeneratedApp::persist and the verbatim pavexc_cli::generate route every write through the "
         "writer chosen from `check` (so `--check` is pure). Native tests replay mtime/content behaviour on a real directory."),
   note=("NOT decided: the determinism clause (hash seeds, rayon, caches, processes) — a hyper-property of the whole compiler; the "
         "exact exit-code equivalence beyond AppWriter::verify; directory creation; caches/target dir. Assumed: contracts of the "
         "toml-massaging helpers of GeneratedApp, of the compiler proper (App::build, codegen) and of fs_err/sha2 stand-ins; no "
         "transient I/O failure after a successful open; SHA-256 injective."),
   design="§3/C10"),
 "C18": dict(
   text=("Verus discharges, on the real text of ConfigLoader::load, that the value it returns is extract(merge(merge(merge(empty, "
         "yaml(dir/base.yml)), yaml(dir/<profile>.yml)), env(PX_, split __, ignore [PROFILE]))) with dir and profile as documented, and "
         "on the real default method ConfigProfile::load that the profile is parsed from PX_PROFILE and that a missing or unparsable one "
         "is an error; a lemma derives the per-key precedence env > profile > base from figment's single documented law (later merge "
         "wins); the closed term PX_PROFILE.strip_prefix(PX_) == PROFILE is decided by evaluation (rustc). Thorough replays native tests "
         "with real files and environment variables."),
   note=("Modular: figment (Yaml::file, Env::prefixed/split/ignore, merge, extract), PathBuf::join, format!, std::env::var are an "
         "uninterpreted term algebra with assumed contracts (trusted_base). Not decided: figment's own behaviour (e.g. a missing profile "
         "FILE is treated as empty by Yaml::file)."),
   design="§3/C18",
   technique="contract-based deductive verification: Verus (Z3) on mechanically extracted functions + rustc evaluation of one closed term"),
 "C14": dict(
   text=("Verus discharges, on the real text of BufferedBody::_extract_with_limit and ::extract (generic over every body, for every "
         "chunking, every limit and every Content-Length header, unbounded), that Ok is exactly the client's bytes and at most the limit, "
         "that a body over the limit is never accepted, that a size error is reported only when the body or the declared length exceeds "
         "the limit, and that BodySizeLimit::default() is Enabled(2 MB). Modular proof against an assumed contract of "
         "http_body_util::Limited + collect. JsonBody::extract, UrlEncodedBody::extract and url_encoded::parse are under contract too: the "
         "typed value is the deserialisation (serde as an uninterpreted function) of exactly the buffered bytes. Native tests on every "
         "run: bodies chunked 1/3/10/64 bytes, lying headers, and the public extractor fed by a real hyper Incoming (limits 0/1/10)."),
   note=("Assumed (trusted_base): the contract of http_body_util::Limited/collect, http header accessors and str::parse as "
         "uninterpreted functions, ubyte's usize/ByteUnit comparison and megabytes(); serde_json / serde_html_form as functions of "
         "their input only; the Content-Type checks of the typed extractors are stand-ins without contract. async erased (N1)."),
   design="§3/C14"),
 "C13": dict(
   text=("For InMemorySessionStore, Verus discharges on the real text of every trait method (create, update, update_ttl, load, delete, "
         "change_id, delete_expired) and of the helpers get_mut_if_fresh/_delete/is_stale a postcondition over the WHOLE map: load never "
         "returns an expired or absent record and returns exactly the stored state; create never overwrites a live record; update, "
         "update_ttl, delete, change_id answer unknown-id on absent or expired records and otherwise change exactly that record "
         "(change_id moves it atomically, duplicate-id if the new id is live); delete_expired removes only expired records (loop "
         "invariants, unbounded). A syntactic lock-scope check (one critical section per method) lifts the sequential contracts to "
         "linearizability. The SQLite store (SQL strings run by an external engine: outside any Rust verifier) is covered by a BOUNDED "
         "stand-in only, labelled as such in the evidence and never counted as proved: pseudo-random histories of 14 operations over "
         "three ids (TTL 0 / 5 s / 1 h, so no waiting) on the real SqliteSessionStore, compared with the map-with-expiry after every "
         "operation (600 histories quick, 20000 thorough); the same search runs on the in-memory store (6000 / 300000). Two defects of "
         "the SQLite store found this way were repaired (fix: commits 176a896, ad9ee78); one is recorded as a known finding."),
   note=("Proved for the in-memory store; bounded for SQLite. NOT decided: SQLite under concurrent connections, the Postgres/MySQL stores "
         "(need a server), concurrency beyond the lock-scope argument. Assumed: clock constant within one operation; time arithmetic as integers; vstd's "
         "HashMap specs + key model for SessionId + an assumed spec of HashMap::get_mut; tokio Mutex erased (rule N6)."),
   design="§3/C13"),
 "C11": dict(
   text=("Verus discharges, for all inputs and configurations, contracts on the real text of every Session operation: lazy loading "
         "(force_load*), the server-side mutators (insert_raw/remove_raw/clear/delete/invalidate/cycle_id) and the client-side ones, "
         "with functional postconditions over the whole key/value view, a two-state dirty discipline, frames, and the representation "
         "invariant; Session::sync and Session::finalize against the store seen as a map (record under the new id equals the logical "
         "state, nothing left under the old id, every other record untouched, no id-bookkeeping error on a stable store, invariant "
         "re-established so operations and sync can be mixed), and the cookie finalize returns (removal cookie / wire(new id, client "
         "state)). unreachable!/assert! sites are proof obligations. Thorough adds native witness histories against the real crates."),
   note=("Assumed (evidence.trusted_base): stand-in contracts for std HashMap<Cow<str>,_>, OnceCell (exclusive access, rule N6'), "
         "the SessionStore handle obeying the C13 map contract with no record appearing/expiring during a request (stable store), "
         "serde_json wire format as an uninterpreted function, UUID freshness as the explicit hypothesis `fresh`. async erased (N1). "
         "Not decided: concurrent force_load on one Session (type is !Send/!Sync), a failing store, TTL arithmetic (uninterpreted)."),
   design="§3/C11"),
 "C12": dict(
   text=("Verus discharges, for all inputs, the postcondition of the real `finalize_session` (at most one cookie is attached; "
         "only if the processor will sign or encrypt it; encrypted whenever the client-side state is non-empty; nothing is "
         "attached on any Err path), of the cookie-building part of the real `Session::finalize` (configured name, domain, path, "
         "SameSite, Secure, HttpOnly, max-age), and rustc's type checker discharges the reads-frame of `impl Debug for Session` "
         "(the id cannot reach the output). A proof over all inputs is the right level: the property is a per-call postcondition."),
   note=("Assumed: the stand-in contracts of biscotti/pavex cookie types listed in evidence.trusted_base (Processor::will_* are "
         "pure in the cookie name; ResponseCookies::insert appends; setters change only their attribute); async erased (rule N1), "
         "tracing dropped (N2). Not decided: that biscotti really signs/encrypts what will_* promises."),
   design="§3/C12"),
}
NA = {
 "C01": "property of the emitted program under rustc; graph pipeline (petgraph/IndexSet/ahash over ComponentDb) is outside what Verus accepts and Kani converges on (DESIGN §1.3, §3/C01)",
 "C02": "completeness of the same whole-pipeline analyses; follows from no function-level contract (DESIGN §3/C02)",
 "C03": "run-time behaviour of generated servers (two-level obstacle, DESIGN §1.3)",
 "C04": "scope-graph resolution inside ComponentDb/ConstructibleDb plus clone provenance in emitted code (DESIGN §3/C04)",
 "C05": "order fixed by quote! templates and emitted stage functions; contracts cannot speak about emitted code (DESIGN §3/C05)",
 "C06": "graph rewrites over ComponentDb; guarantee is about match arms in emitted code (DESIGN §3/C06)",
 "C07": "emitted router + third-party matchit (DESIGN §3/C07)",
 "C08": "rule checks walk ComponentDb/ComputationDb built from rustdoc JSON; needs whole-repository invariants (DESIGN §3/C08)",
 "C09": "whole-process totality/termination/panic-freedom over 26 kLoC; Verus rejects the loops' text, Kani proves no termination (DESIGN §3/C09)",
 "C15": "decoding lives in serde/percent-encoding/serde_html_form; pavex part is macro-generated serde glue generic over every Deserialize (DESIGN §3/C15)",
 "C16": "concurrency + liveness over threads/tokio/sockets; neither verifier supports it on this code (DESIGN §3/C16)",
 "C17": "measured: Verus rejects the recursive Type algebra's text (iterator adapters, let-chains, derived recursive eq), Kani does not converge on one concrete shape pair (DESIGN §3/C17)",
 "C20": "measured: string iterators (str::split, chars().rev().peekable(), IndexSet<char>, syn) — Kani does not converge at 2–5 chars, Verus has no str/iterator reasoning (DESIGN §3/C20)",
}
def main():
    checks = []
    for pid, c in sorted(CLAIMED.items()):
        checks.append({
            "property_id": pid,
            "quick_cmd": f"./check {pid} --tier quick",
            "thorough_cmd": f"./check {pid} --tier thorough",
            "evidence_file": f"/verif/evidence/{pid}.json",
            "replay_cmd_template": f"./check {pid} --replay {{path}}",
            "engine": "verus-extract",
            "level_claimed": {"category": c.get("category", "proof"), "text": c["text"], "design_ref": c["design"]},
            "level_note": c["note"],
            "technique": c.get("technique", TECH),
        })
    m = {
        "version": 1,
        "setup_cmd": "cd /verif/extractor && CARGO_NET_OFFLINE=true cargo build --release --offline",
        "hooks": {
            "guard": "none — no source hooks: contracts are spliced into per-run extractions of /repo's working tree, /repo is never edited by a check",
            "enable": "n/a (checks read /repo's current working tree; nothing is compiled with a cfg flag)",
            "baseline_off_cmd": BASELINE,
            "source_commits": [],
            "add_only": True,
        },
        "engines": [{
            "name": "verus-extract", "path": "/verif/check (lib/runner.py + extractor/ + contracts/<unit>/)",
            "serves_properties": sorted(CLAIMED),
            "kind_free_text": "mechanical span-based extraction of real functions (syn) + hand-written contracts (clauses.vspec) + assumed stand-in contracts (prelude.rs) -> single-file Verus; vacuity canaries; native witness replay",
        }],
        "checks": checks,
        "not_applicable": [{"property_id": k, "reason": v} for k, v in sorted(NA.items()) if k not in CLAIMED],
        "notes": "exit 0 = all registered obligations discharged; exit 1 = VIOLATION; exit 2 = UNDECIDED (lost anchor, unsupported construct, tool failure, vacuity, assumption allow-list mismatch) — never an alarm. Genuine defects repaired in /repo by unguarded `fix:` commits (recorded as `fixed` in known_findings.json, which suppresses nothing): 90b25f9, e446e6d, 49c30e7, 60035b8 (C11), b76f29c (C10), 176a896, ad9ee78 (C13, SQLite), 711f596 (C17, rustdoc_ir: reference mutability in template matching and equivalence). Known findings, listed in known_findings.json and printed as KNOWN-FINDING lines: C12 (a session cookie name that percent-encoding changes leaves unprotected although a crypto rule names it — biscotti 0.4.3), C13 (SqliteSessionStore::create over a live record answers Ok without writing), C15 (query strings and urlencoded forms decode invalid UTF-8 lossily instead of failing). No hooks: /repo carries no verification-only code.",
    }
    json.dump(m, open(os.path.join(V, "MANIFEST.json"), "w"), indent=1)
    print("claimed:", sorted(CLAIMED), "n/a:", len(m["not_applicable"]))
main()
