#!/bin/sh
# Runs every registered check (quick by default) on /repo as it is, validates MANIFEST and evidence files.
cd "$(dirname "$0")/.." || exit 2
tier=${1:-quick}
rc=0
for p in $(python3 -c "import json;print(' '.join(c['property_id'] for c in json.load(open('MANIFEST.json'))['checks']))"); do
  ./check "$p" --tier "$tier" || rc=1
done
python3-vt - <<'PY' || rc=1
import json, jsonschema, sys
m = json.load(open('MANIFEST.json'))
jsonschema.validate(m, json.load(open('/root/.vp/MANIFEST.schema.json')))
es = json.load(open('/root/.vp/EVIDENCE.schema.json'))
bad = 0
for c in m['checks']:
    e = json.load(open(c['evidence_file']))
    jsonschema.validate(e, es)
    cov = e['coverage']
    if cov['obligations'] != cov['discharged'] or e.get('violations'):
        print('EVIDENCE NOT CLEAN:', c['property_id'], cov['obligations'], cov['discharged'], e.get('violations')); bad = 1
print('manifest+evidence valid' if not bad else 'PROBLEMS')
sys.exit(bad)
PY
exit $rc
