#!/bin/sh
# Behaviour-preserving refactors (neutral/nNN.patch.diff, written by an independent sub-agent): none may be reported.
# exit 0 (still proved) or exit 2 (undecided: an anchor the contracts name was edited) are acceptable; a VIOLATION is a false alarm.
cd "$(dirname "$0")/.." || exit 2
bad=0
for x in n01:C11 n02:C11 n03:C11 n04:C11 n04:C12 n05:C12 n05:C11 n06:C13 n07:C13 n08:C14 n09:C18 n10:C19 n11:C10 n12:C10 n13:C15 n14:C15 n15:C15 n16:C15 n17:C15 n17:C14 n18:C15 n19:C15 n19:C14 n20:C18 n21:C10 n21:C09 n22:C10 n22:C09 n23:C11 n24:C11 n25:C04 n26:C04 n27:C04 n27:C05 n28:C04 n28:C05 n29:C05 n29:C06 n30:C05 n30:C06 n31:C05 n31:C06 n32:C05 n32:C06 n33:C05 n33:C06 n34:C05 n34:C06 n35:C05 n35:C06 n36:C05 n36:C06 n37:C20 n38:C20 n39:C20 n40:C20; do
  n=${x%%:*}; p=${x##*:}
  out=$(tools/seed_eval.sh "$p" "$(pwd)/neutral/$n.patch.diff" 2>&1)
  rc=$(echo "$out" | sed -n 's/^exit=//p')
  first=$(echo "$out" | grep -m1 "^VIOLATION\|^UNDECIDED\|^OK" | cut -c1-200)
  echo "$n $p exit=$rc  $first"
  [ "$rc" = "1" ] && bad=1
done
[ $bad = 0 ] && echo "no false alarm"
exit $bad
