#!/bin/sh
# usage: tools/seed_wt.sh <id> [<id> ...]   — evaluates seeded changes (seeded/<id>/patch.diff) and neutral ones (neutral/<nNN>:<Cxx>)
# in a scratch worktree of /repo (VERIF_REPO), so /repo itself is never touched. A seed must give exit 1, a neutral edit must not.
cd "$(dirname "$0")/.." || exit 2
wt=${VERIF_SCRATCH:-/var/tmp}/verif-seed-wt.$$
git -C /repo worktree add -f "$wt" HEAD >/dev/null 2>&1 || { echo "cannot create worktree"; exit 2; }
trap 'git -C /repo worktree remove --force "$wt" >/dev/null 2>&1; rm -rf "$wt.ev"' EXIT
bad=0
for x in "$@"; do
  case "$x" in
    n*:*) n=${x%%:*}; p=${x##*:}; patch=neutral/$n.patch.diff; want=not1 ;;
    *) p=${x%%-*}; patch=seeded/$x/patch.diff; want=1 ;;
  esac
  git -C "$wt" checkout -q -- . ; git -C "$wt" clean -fdq
  git -C "$wt" apply "$(pwd)/$patch" || { echo "$x: patch does not apply"; bad=1; continue; }
  out=$(VERIF_REPO="$wt" VERIF_EVIDENCE_DIR="$wt.ev" ./check "$p" 2>&1); rc=$?
  first=$(echo "$out" | grep -m1 "^VIOLATION\|^UNDECIDED\|^OK" | cut -c1-160)
  echo "$x exit=$rc  $first"
  if [ "$want" = 1 ] && [ $rc != 1 ]; then bad=1; echo "   ^^^ NOT REPORTED"; fi
  if [ "$want" = not1 ] && [ $rc = 1 ]; then bad=1; echo "   ^^^ FALSE ALARM"; fi
done
exit $bad
