#!/bin/sh
# usage: tools/seed_eval.sh <Cxx> <patch> [tier]   — applies a seeded change to /repo, runs the check, undoes it straight afterwards
cd "$(dirname "$0")/.." || exit 2
p=$1; patch=$2; tier=${3:-quick}
git -C /repo diff --quiet || { echo "/repo not clean"; exit 2; }
git -C /repo apply "$patch" || { echo "patch does not apply"; exit 2; }
mkdir -p "${VERIF_SCRATCH:-/var/tmp}/verif-seed-evidence"
VERIF_EVIDENCE_DIR="${VERIF_SCRATCH:-/var/tmp}/verif-seed-evidence" ./check "$p" --tier "$tier"; rc=$?
git -C /repo checkout -- .
echo "exit=$rc"
