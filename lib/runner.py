#!/usr/bin/env python3
"""Runner for the contract-based checks of /verif (see DESIGN.md §2).

  ./check <Cxx> [--tier quick|thorough] [--replay <file>] [--update-trusted] [--keep]

exit 0  every registered obligation discharged (KNOWN-FINDING lines allowed)
exit 1  VIOLATION property=<id> replay=<path>
exit 2  UNDECIDED (lost anchor, unsupported construct, tool failure, vacuity, allow-list mismatch)
"""
import concurrent.futures as cf
import hashlib
import json
import os
import re
import shutil
import subprocess
import sys
import time

VERIF = os.path.dirname(os.path.dirname(os.path.abspath(__file__)))
REPO = os.environ.get("VERIF_REPO", "/repo")
EXTRACTOR_DIR = os.path.join(VERIF, "extractor")
EXTRACTOR = os.path.join(EXTRACTOR_DIR, "target", "release", "extractor")
CONTRACTS = os.path.join(VERIF, "contracts")
# seeded-change evaluations (tools/seed_eval.sh) point this elsewhere so that a mutant run never overwrites the evidence of /repo
EVIDENCE = os.environ.get("VERIF_EVIDENCE_DIR") or os.path.join(VERIF, "evidence")
REPLAYS = os.path.join(VERIF, "replays")
KNOWN = os.path.join(VERIF, "known_findings.json")

VERUS_FLAGS = ["--edition", "2024", "--output-json", "--time", "--error-format=json",
               "--no-report-long-running"]

# messages of Verus that mean "an obligation was refuted / not proved"
VIOLATION_MSG = re.compile(
    r"(postcondition not satisfied|precondition not satisfied|assertion failed|"
    r"invariant not satisfied|possible arithmetic (underflow|overflow)|possible division by zero|"
    r"decreases not satisfied|could not prove termination|unreachable|"
    r"possible bit shift|constructed value may fail|failed this|cannot show|unable to prove)", re.I)
UNDECIDED_MSG = re.compile(r"(rlimit|resource limit|not supported|unsupported|timed? ?out)", re.I)

TRUST_TOKENS = re.compile(
    r"(external_body|assume_specification|external_type_specification|external_trait_specification|"
    r"external_fn_specification|#\[verifier::external\]|\bassume\s*\(|\badmit\s*\(|"
    r"#\[verifier::(exec_allows_no_decreases_clause|accept_recursive_types|reject_recursive_types|"
    r"truncate|nonlinear|external_derive)|\buninterp\b|broadcast\s+axiom|\baxiom\s+fn)")


class Undecided(Exception):
    pass


def sh(cmd, **kw):
    return subprocess.run(cmd, stdout=subprocess.PIPE, stderr=subprocess.PIPE, text=True, **kw)


def ensure_extractor():
    env = dict(os.environ, CARGO_NET_OFFLINE="true")
    r = sh(["cargo", "build", "--release", "--offline", "--quiet"], cwd=EXTRACTOR_DIR, env=env)
    if r.returncode != 0 or not os.path.exists(EXTRACTOR):
        raise Undecided("extractor does not build: " + r.stderr[-2000:])


def units_for(prop):
    out = []
    for d in sorted(os.listdir(CONTRACTS)):
        uj = os.path.join(CONTRACTS, d, "unit.json")
        if os.path.exists(uj):
            u = json.load(open(uj))
            if u.get("property") == prop or prop in u.get("also_serves", []):
                u["_dir"] = os.path.join(CONTRACTS, d)
                u["_foreign"] = u.get("property") != prop
                out.append(u)
    return out


def load_known():
    if not os.path.exists(KNOWN):
        return []
    return json.load(open(KNOWN)).get("findings", [])


def scan_trusted(path, meta):
    """Every assumption token in the generated file, with the line it is on.
    Tokens inside extracted real code are forbidden (extraction must not smuggle assumptions)."""
    lines = open(path).read().split("\n")
    item_ranges = [(m["from"], m["to"], m["id"]) for m in meta["line_map"] if m["kind"] == "item"]
    trusted, in_items = [], []
    for i, l in enumerate(lines, 1):
        s = l.strip()
        if s.startswith("//"):
            continue
        if TRUST_TOKENS.search(l):
            # describe the assumption by the next signature-ish line
            desc = s
            if s.startswith("#[") and s.endswith("]"):
                for j in range(i, min(i + 6, len(lines))):
                    t = lines[j].strip()
                    if t and not t.startswith("#[") and not t.startswith("//"):
                        desc = s + " " + t
                        break
            desc = re.sub(r"\s+", " ", desc)[:220]
            hit = [iid for (a, b, iid) in item_ranges if a <= i <= b]
            if hit and s.endswith("// @attr of clauses.vspec"):
                # an allow-listed proof attribute requested by the contracts (e.g. termination left unproved): an assumption of
                # the unit, listed in trusted.lock like every other one — not something the extracted code smuggled in
                trusted.append(f"{hit[0]}: {desc}")
                continue
            (in_items if hit else trusted).append(desc if not hit else f"{hit[0]}: {desc}")
    return trusted, in_items


def run_verus(src, workdir, rlimit=None, extra=("--multiple-errors", "8")):
    cmd = ["verus", src] + VERUS_FLAGS + list(extra)
    if rlimit:
        cmd += ["--rlimit", str(rlimit)]
    t0 = time.time()
    r = sh(cmd, cwd=workdir)
    wall = time.time() - t0
    try:
        out = json.loads(r.stdout)
    except Exception:
        raise Undecided(f"verus produced no JSON (exit {r.returncode}): {r.stderr[-1500:]}")
    diags = []
    for l in r.stderr.split("\n"):
        l = l.strip()
        if not l.startswith("{"):
            continue
        try:
            d = json.loads(l)
        except Exception:
            continue
        if d.get("level") in ("error", "error: internal compiler error"):
            diags.append(d)
    return out, diags, wall, " ".join(cmd)


def fn_breakdown(out):
    res = {}
    smt = out.get("times-ms", {}).get("smt", {})
    for m in smt.get("smt-run-module-times", []):
        for f in m.get("function-breakdown", []):
            res[f["function"]] = {"success": f["success"], "ms": f["time"], "mode": f.get("mode:", f.get("mode"))}
    return res


def split_tag(ob_id):
    """'name @C11 @C12' -> ('name', ['C11', 'C12']); untagged -> (name, [])"""
    parts = ob_id.split(" @")
    return parts[0].strip(), [t.strip() for t in parts[1:]]


def classify(diags, meta):
    """-> (failures, undecided_reasons). failure = dict(obligation, item, message, lines)"""
    obs = meta["obligations"]
    items = [m for m in meta["line_map"] if m["kind"] == "item"]
    failures, undecided = [], []
    for d in diags:
        msg = d["message"]
        if msg.startswith("aborting due to"):
            continue
        spans = d.get("spans", [])
        if UNDECIDED_MSG.search(msg) or not VIOLATION_MSG.search(msg):
            undecided.append(msg[:400] + " @" + ",".join(str(s["line_start"]) for s in spans))
            continue
        prim = [s for s in spans if s.get("is_primary")] or spans
        all_lines = [(s["line_start"], s["line_end"], s.get("label") or "") for s in spans]
        ob_id, item_id = None, None
        # 1. a tagged clause containing the primary span (postcondition / invariant / tagged assert)
        for s in prim:
            for o in obs:
                if o["kind"] == "clause" and o["from"] <= s["line_start"] <= o["to"]:
                    ob_id, item_id = o["id"], o["item"]
        # 1b. a loop invariant refuted at a `continue` / `break` / `return`: the primary span is that statement, the tagged
        #     invariant is a secondary span
        if ob_id is None and "invariant" in msg:
            for s in spans:
                for o in obs:
                    if o["kind"] == "clause" and o["from"] <= s["line_start"] <= o["to"] and not o["id"].startswith("req:"):
                        ob_id, item_id = o["id"], o["item"]
        # 2. otherwise the body obligation of the item that contains a non-clause span
        callee_tag = None
        if ob_id is None and "precondition" in msg:
            # which `requires` clause of the callee failed (secondary span labelled "failed precondition")
            for s in spans:
                if not s.get("is_primary"):
                    for o in obs:
                        if o["kind"] == "clause" and o["from"] <= s["line_start"] <= o["to"]:
                            nm, tags = split_tag(o["id"])
                            # a named `requires` owned by other properties hands its ownership to the caller's failure
                            callee_tag = nm.replace("req:", "") + "".join(f" @{t}" for t in tags)
        if ob_id is None:
            cands = []
            for s in spans:
                for it in items:
                    if it["from"] <= s["line_start"] <= it["to"] and it.get("contracted"):
                        in_clause = any(o["kind"] == "clause" and o["item"] == it["id"]
                                        and o["from"] <= s["line_start"] <= o["to"] for o in obs)
                        cands.append((in_clause, it["id"]))
            cands.sort()
            if cands:
                item_id = cands[0][1]
                ob_id = item_id + ".body" + (f"/{callee_tag}" if callee_tag else "")
        if ob_id is None:
            # failure located in prelude/spec (e.g. a lemma of spec.rs) or an uncontracted item
            for it in meta["line_map"]:
                if any(it["from"] <= s["line_start"] <= it["to"] for s in spans):
                    item_id = it.get("id") or it.get("file")
                    ob_id = f"{item_id}.proof"
                    break
        if ob_id is None:
            undecided.append("unlocated failure: " + msg[:300])
            continue
        failures.append({"obligation": ob_id, "item": item_id, "message": msg, "spans": all_lines})
    return failures, undecided


def check_unit(u, scratch, args):
    """check_unit_once, plus: a module-level `const` that extracted code newly refers to (a literal was given a name) is
    pulled in mechanically and the unit is re-run — a constant's value is its whole meaning, so nothing is assumed.
    (A new helper FUNCTION is not pulled in: without a contract its result would be unknown and the caller's obligations
    would fail for want of one, which is not a verdict about the code; that stays undecided.)"""
    res = check_unit_once(u, scratch, args)
    for _ in range(3):
        missing = None
        for m in res.get("undecided", []):
            mm = re.search(r"cannot find value `([A-Z][A-Z0-9_]+)` in this scope", m)
            if mm:
                missing = mm.group(1)
                break
        if not missing:
            break
        found = None
        for f in sorted({it["file"] for it in u.get("items", [])}):
            try:
                txt = open(os.path.join(REPO, f)).read()
            except OSError:
                continue
            if re.search(r"^(pub(\([a-z]+\))?\s+)?const\s+" + re.escape(missing) + r"\s*:", txt, re.M):
                found = f
                break
        if not found:
            break
        dyn = os.path.join(scratch, u["unit"] + ".dyn")
        shutil.rmtree(dyn, ignore_errors=True)
        shutil.copytree(u["_dir"], dyn)
        u = dict(u, _dir=dyn, items=[{"file": found, "kind": "const", "name": missing, "subst_optional": True,
                                        "subst": [[": &str", ": &'static str", "N7"]]}] + list(u.get("items", [])))
        uj = {k: v for k, v in u.items() if not k.startswith("_")}
        json.dump(uj, open(os.path.join(dyn, "unit.json"), "w"), indent=1)
        res = check_unit_once(u, scratch, args)
        res.setdefault("notes", []).append(f"module-level const `{missing}` of {found} pulled into the extraction")
    return res


def check_unit_once(u, scratch, args):
    """Run extractor + verus (+ canary) on one unit. Returns a result dict."""
    name = u["unit"]
    udir = u["_dir"]
    wd = os.path.join(scratch, name)
    os.makedirs(wd, exist_ok=True)
    res = {"unit": name, "undecided": [], "failures": [], "trusted_base": [], "functions": [],
           "obligations": [], "solver_ms": 0, "wall_s": 0.0, "checker_cmd": "", "canary": {}}
    mode = u.get("mode", "verus")
    if mode == "bounded":
        # a bounded stand-in only (no function of this unit is within the verifier's reach): nothing is extracted,
        # nothing is counted as an obligation; the native witness below is the whole unit.
        res["bounded_only"] = True
        return res
    src, metaf = os.path.join(wd, name + ".rs"), os.path.join(wd, name + ".meta.json")
    r = sh([EXTRACTOR, REPO, udir, src, metaf])
    if r.returncode != 0:
        res["undecided"].append(r.stderr.strip()[-800:] or f"extractor exit {r.returncode}")
        return res
    meta = json.load(open(metaf))
    res["meta"] = meta
    trusted, in_items = scan_trusted(src, meta)
    if in_items:
        res["undecided"].append("assumption tokens inside extracted code: " + "; ".join(in_items))
        return res
    res["trusted_base"] = trusted
    lock = os.path.join(udir, "trusted.lock")
    cur = "\n".join(trusted) + "\n"
    if args.update_trusted:
        open(lock, "w").write(cur)
    elif not os.path.exists(lock) or open(lock).read() != cur:
        res["undecided"].append(f"allow-list mismatch: assumptions in {name} differ from {lock} "
                                "(review and re-run with --update-trusted)")
        return res

    if mode == "rustc":
        return check_rustc_unit(u, res, src, wd, meta)

    out, diags, wall, cmd = run_verus(src, wd, rlimit=u.get("rlimit"))
    res["checker_cmd"] = cmd.replace(wd + "/", "<scratch>/")
    res["wall_s"] += wall
    vr = out.get("verification-results", {})
    res["verus"] = {"verified": vr.get("verified"), "errors": vr.get("errors"),
                    "version": out.get("verus", {}).get("version")}
    if vr.get("encountered-vir-error"):
        res["undecided"].append("verus front-end (VIR) error: " + "; ".join(d["message"][:300] for d in diags[:3]))
        return res
    bd = fn_breakdown(out)
    res["solver_ms"] = out.get("times-ms", {}).get("smt", {}).get("smt-run", 0)
    failures, undecided = classify(diags, meta)
    res["failures"] = failures
    res["undecided"] += undecided
    if not vr.get("success") and not failures and not undecided:
        res["undecided"].append("verus failed without a classifiable diagnostic: " + json.dumps(vr))
    # per-function table
    crate = name
    for it in meta["items"]:
        if not it.get("is_fn"):
            continue
        fq = [k for k in bd if k.startswith(crate + "::") and (k.endswith("::" + it["fn_name"]))]
        ms = sum(bd[k]["ms"] for k in fq)
        res["functions"].append({"id": it["id"], "file": it["file"], "lines": it["lines"], "sha256": it["sha256"],
                                 "rules_fired": it["rules_fired"], "contracted": it["contracted"],
                                 "verus_fn": fq, "smt_ms": ms,
                                 "verified": bool(fq) and all(bd[k]["success"] for k in fq)})
    failed_ids = {f["obligation"] for f in failures} | {f["obligation"].split("/")[0] for f in failures}
    failed_items = {f["item"] for f in failures}
    for o in meta["obligations"]:
        if o["id"].startswith("req:"):
            # a named `requires` clause: checked at every call site (part of the callers' body obligations); listed on its
            # own only when it is tagged for a property (e.g. a protocol precondition that IS that property's obligation)
            nm, tags = split_tag(o["id"])
            if not tags:
                continue
            short = nm.replace("req:", "")
            st = "failed" if any(split_tag(f["obligation"])[0].endswith("/" + short) for f in failures) else "discharged"
            res["obligations"].append({"id": f"callers_establish:{short}" + "".join(f" @{t}" for t in tags), "item": o["item"],
                                       "kind": "protocol-precondition", "status": st, "back_end": "verus/z3"})
            continue
        st = "failed" if o["id"] in failed_ids else ("discharged" if o["item"] not in failed_items or True else "?")
        res["obligations"].append({"id": o["id"], "item": o["item"], "kind": o["kind"], "status": st,
                                   "back_end": "verus/z3"})
    # lemma / spec proof functions count as obligations too
    for k, v in bd.items():
        short = k.split("::", 1)[1] if "::" in k else k
        if v.get("mode") == "proof" and not short.endswith("__canary"):
            oid = f"lemma:{short}"
            st = "discharged" if v["success"] else "failed"
            res["obligations"].append({"id": oid, "item": "spec", "kind": "lemma", "status": st, "back_end": "verus/z3"})
    # syntactic obligations: attributes that N2 strips but that carry meaning (e.g. #[track_caller] on a registration
    # method: without it `Location::caller()` reports a line inside pavex instead of the user's call site)
    for attr, ids in u.get("require_attrs", {}).items():
        by_id = {it["id"]: it for it in meta["items"]}
        for iid in ids:
            it = by_id.get(iid)
            if it is None:
                res["undecided"].append(f"anchor lost: require_attrs names `{iid}` which is not extracted")
                continue
            oid = f"{iid}.has_attribute[{attr}]"
            ok = attr in it.get("attrs", [])
            res["obligations"].append({"id": oid, "item": iid, "kind": "syntactic", "status": "discharged" if ok else "failed",
                                       "back_end": "extractor (syntactic)"})
            if not ok:
                res["failures"].append({"obligation": oid, "item": iid, "spans": [],
                                        "message": f"`{iid}` no longer carries #[{attr}]"})
    if not meta["obligations"]:
        res["undecided"].append("vacuity: the unit registers zero obligations")

    # vacuity guard: canary twins must all fail
    if not res["undecided"] and not args.no_canary:
        csrc, cmeta = os.path.join(wd, name + "_canary.rs"), os.path.join(wd, name + "_canary.meta.json")
        r = sh([EXTRACTOR, REPO, udir, csrc, cmeta, "--canary"])
        if r.returncode != 0:
            res["undecided"].append("canary extraction failed: " + r.stderr[-400:])
            return res
        cout, cdiags, cwall, _ = run_verus(csrc, wd, rlimit=u.get("rlimit"), extra=["--multiple-errors", "0"])
        res["wall_s"] += cwall
        cbd = fn_breakdown(cout)
        twins = {k: v for k, v in cbd.items() if k.endswith("__canary")}
        expected = [it["fn_name"] + "__canary" for it in json.load(open(cmeta))["items"]
                    if it.get("is_fn") and it.get("contracted") and not it.get("no_canary")]
        expected.append("prelude_consistency__canary")
        # lemma twins (spec files): every proof fn checked in the main run has a twin with `ensures false`
        for k, v in bd.items():
            short = k.split("::")[-1]
            if v.get("mode") == "proof" and any(t.endswith("::" + short + "__canary") for t in twins):
                expected.append(short + "__canary")
        vac = []
        for e in expected:
            hit = [k for k in twins if k.endswith("::" + e)]
            if not hit:
                vac.append(e + " (twin not checked)")
            elif any(twins[k]["success"] for k in hit):
                vac.append(e + " (proved `false`: contradictory requires or inconsistent prelude)")
        res["canary"] = {"twins": len(expected), "all_failed_as_required": not vac}
        if cout.get("verification-results", {}).get("encountered-vir-error"):
            vac.append("canary file did not pass the verus front end")
        if vac:
            res["undecided"].append("vacuity guard: " + "; ".join(vac))
    return res


def check_rustc_unit(u, res, src, wd, meta):
    """mode=rustc: the generated file must compile (type-level frame proof / closed-term evaluation),
    and, if it defines main() printing lines `OB <id> ok|FAIL ...`, those are the obligations."""
    t0 = time.time()
    exe = os.path.join(wd, u["unit"] + ".bin")
    cmd = ["rustc", "--edition", "2021", "-A", "warnings", "-o", exe, src]
    r = sh(cmd, cwd=wd)
    res["checker_cmd"] = " ".join(cmd).replace(wd + "/", "<scratch>/")
    obs = u.get("rustc_obligations", [])
    compile_ob = u.get("compile_obligation")
    if r.returncode != 0:
        first = "\n".join(r.stderr.split("\n")[:30])
        markers = u.get("frame_markers", ["CurrentSessionId"])
        if compile_ob and any(m in r.stderr for m in markers):
            res["failures"].append({"obligation": compile_ob, "item": compile_ob, "message":
                                    "extracted text does not type-check against the frame: " + first, "spans": []})
            res["obligations"].append({"id": compile_ob, "item": compile_ob, "kind": "frame", "status": "failed",
                                       "back_end": "rustc"})
        else:
            res["undecided"].append("rustc: " + first)
        res["wall_s"] += time.time() - t0
        return res
    if compile_ob:
        res["obligations"].append({"id": compile_ob, "item": compile_ob, "kind": "frame", "status": "discharged",
                                   "back_end": "rustc"})
    rr = sh([exe], cwd=wd)
    seen = {}
    for l in rr.stdout.split("\n"):
        m = re.match(r"OB (\S+) (ok|FAIL)(.*)", l)
        if m:
            seen[m.group(1)] = (m.group(2), m.group(3).strip())
    for o in obs:
        if o not in seen:
            res["undecided"].append(f"rustc unit did not report obligation {o}: {rr.stderr[-300:]}")
            continue
        ok, why = seen[o]
        res["obligations"].append({"id": o, "item": o, "kind": "ground-term", "status": "discharged" if ok == "ok" else "failed",
                                   "back_end": "rustc (evaluation of a closed term)"})
        if ok != "ok":
            res["failures"].append({"obligation": o, "item": o, "message": why, "spans": []})
    for it in meta["items"]:
        res["functions"].append({"id": it["id"], "file": it["file"], "lines": it["lines"], "sha256": it["sha256"],
                                 "rules_fired": it["rules_fired"], "contracted": True, "verus_fn": [], "smt_ms": 0,
                                 "verified": not res["failures"]})
    res["wall_s"] += time.time() - t0
    return res


def run_witness(u, scratch, failed_obligations, tier):
    """Native witness search against the real crates (scratch copy). Returns dict obligation -> witness info."""
    w = u.get("witness")
    if not w:
        return {}
    copy = os.path.join(scratch, "repo-copy")
    if not os.path.exists(copy):
        r = sh(["rsync", "-a", "--exclude", "target/", "--exclude", ".git", REPO + "/", copy + "/"])
        if r.returncode != 0:
            return {"_error": "rsync failed: " + r.stderr[-300:]}
    crate_dir = os.path.join(copy, w["crate_dir"])
    tname = "verif_witness_" + u["unit"]
    env = dict(os.environ, CARGO_NET_OFFLINE="true", CARGO_TARGET_DIR=os.path.join(scratch, "target"), VERIF_TIER=tier, RUST_BACKTRACE="0")
    if w.get("append_to"):
        # in-crate unit tests (private items): the witness modules are appended to source files of the scratch copy
        pairs = [(w["file"], w["append_to"])] + [(a["file"], a["to"]) for a in w.get("also_append", [])]
        for wf, to in pairs:
            tgt = os.path.join(copy, to)
            if not os.path.exists(tgt):
                return {"_error": f"anchor lost: the file the witness is appended to does not exist: {to}"}
            marker = "// ---- appended by /verif: " + tname + " " + wf
            if marker not in open(tgt).read():
                wtext = open(os.path.join(u["_dir"], wf)).read()
                # `splice`: a piece of /repo's own text (e.g. an expression inside a quote! template that cannot be called) is cut out
                # mechanically — everything between the single occurrence of `after` and the next occurrence of `before`, `//` comment
                # lines dropped, nothing else — and pasted over a placeholder of the witness, so the witness runs the text that is there
                for sp in w.get("splice", []):
                    src_path = os.path.join(copy, sp["from"])
                    if not os.path.exists(src_path):
                        return {"_error": f"anchor lost: splice source does not exist: {sp['from']}"}
                    src = open(src_path).read()
                    if src.count(sp["after"]) != 1:
                        return {"_error": f"anchor lost: splice start `{sp['after']}` occurs {src.count(sp['after'])} times in {sp['from']} (need exactly 1)"}
                    a = src.index(sp["after"]) + len(sp["after"])
                    b = src.find(sp["before"], a)
                    if b < 0:
                        return {"_error": f"anchor lost: splice end `{sp['before']}` not found after the start in {sp['from']}"}
                    piece = "\n".join(l for l in src[a:b].split("\n") if not l.strip().startswith("//"))
                    if "#" in piece or sp["placeholder"] not in wtext:
                        return {"_error": f"unsupported: spliced text of {sp['from']} contains a template interpolation, or the witness has no placeholder {sp['placeholder']}"}
                    wtext = wtext.replace(sp["placeholder"], piece)
                open(tgt, "a").write("\n" + marker + "\n" + wtext)
        cmd = ["cargo", "test", "--offline", "--lib"] + w.get("cargo_args", []) + ["verif_witness", "--", "--test-threads", "8", "--show-output"]
    else:
        tdir = os.path.join(crate_dir, "tests")
        os.makedirs(tdir, exist_ok=True)
        shutil.copy(os.path.join(u["_dir"], w["file"]), os.path.join(tdir, tname + ".rs"))
        cmd = ["cargo", "test", "--offline", "--test", tname] + w.get("cargo_args", []) + ["--", "--test-threads", "8", "--show-output"]
    r = sh(cmd, cwd=crate_dir, env=env)
    out = r.stdout + "\n" + r.stderr
    results = {}
    for m in re.finditer(r"^test (\S+) \.\.\. (ok|FAILED)", out, re.M):
        results[m.group(1).split("::")[-1]] = m.group(2)
    if not results:
        return {"_error": "witness crate did not build/run: " + out[-1500:]}
    # bounded stand-ins describe themselves: `VERIF-BOUNDED test=<name> evaluations=<n> bound=<text>` on stdout
    bounded = [{"test": m.group(1), "evaluations": int(m.group(2)), "bound": m.group(3).strip(), "status": results.get(m.group(1), "?")}
               for m in re.finditer(r"^VERIF-BOUNDED test=(\S+) evaluations=(\d+) bound=(.*)$", out, re.M)]
    # a bounded stand-in reports a NAMED deviation from the statement without failing: `VERIF-DEVIATION id=<slug> <what>`;
    # the runner decides: listed as `known` in known_findings.json -> KNOWN-FINDING, otherwise -> VIOLATION.
    deviations = {}
    # optional owners right after the id (`VERIF-DEVIATION id=x @C12 what..`): in a unit shared between properties a
    # deviation is a matter for the properties it names only
    for m in re.finditer(r"^VERIF-DEVIATION id=(\S+)((?: @C\d+)*) (.*)$", out, re.M):
        owners = [t.strip() for t in m.group(2).split("@") if t.strip()]
        deviations.setdefault(m.group(1), (m.group(3).strip(), owners))
    # exploration-level evidence (units with "evidence_level": "exploration"): the stand-in COUNTS its distinct non-trivial cases and
    # shows a few: `VERIF-EXPLORED test=<name> distinct_nontrivial=<n> rule=<text>`, `VERIF-SAMPLE <case>`
    explored = [{"test": m.group(1), "distinct_nontrivial": int(m.group(2)), "rule": m.group(3).strip()}
                for m in re.finditer(r"^VERIF-EXPLORED test=(\S+) distinct_nontrivial=(\d+) rule=(.*)$", out, re.M)]
    samples = [m.group(1).strip() for m in re.finditer(r"^VERIF-SAMPLE (.*)$", out, re.M)][:24]
    shown = r.stdout[-9000:] + "\n--- stderr (tail) ---\n" + r.stderr[-1200:]
    return {"_results": results, "_cmd": " ".join(cmd), "_output": shown, "_map": w.get("map", {}), "_bounded": bounded, "_deviations": deviations,
            "_explored": explored, "_samples": samples}


def main():
    import argparse
    ap = argparse.ArgumentParser()
    ap.add_argument("prop")
    ap.add_argument("--tier", default=os.environ.get("VERIF_TIER", "quick"))
    ap.add_argument("--replay")
    ap.add_argument("--update-trusted", action="store_true")
    ap.add_argument("--no-canary", action="store_true")
    ap.add_argument("--keep", action="store_true")
    args = ap.parse_args()
    prop = args.prop
    seed = int(os.environ.get("VERIF_SEED", "0") or 0)
    t0 = time.time()
    scratch = os.path.join(os.environ.get("VERIF_SCRATCH", "/var/tmp"), f"pavex-verif.{os.getpid()}")
    os.makedirs(scratch, exist_ok=True)
    os.makedirs(EVIDENCE, exist_ok=True)
    os.makedirs(REPLAYS, exist_ok=True)
    code = 2
    try:
        if args.replay:
            code = do_replay(prop, args.replay, scratch)
            return code
        code = do_check(prop, args, scratch, seed, t0)
        return code
    except Undecided as e:
        print(f"UNDECIDED property={prop} reason={e}")
        return 2
    finally:
        if not args.keep:
            shutil.rmtree(scratch, ignore_errors=True)
        else:
            print("scratch kept at", scratch)


def project(res, u, prop):
    """Keep the obligations of `prop` in a unit shared between properties (`//# ob: name @Cxx`).
    A failed obligation that belongs to another property makes this property UNDECIDED (the modular proof
    of our obligations assumed that contract), never a violation of `prop`."""
    home = u.get("property")

    # a function's `.body` obligation (callee preconditions, panics, proof steps) belongs to every property that one of the
    # function's own clauses is tagged for — not only to the unit's home property
    item_tags = {}
    for o in res["obligations"]:
        _, t = split_tag(o["id"])
        item_tags.setdefault(o.get("item"), set()).update(t or [home])

    def owner(ob_id, item=None):
        n, t = split_tag(ob_id)
        if not t and ".body" in n and item in item_tags:
            return n, sorted(item_tags[item] | {home})
        return n, (t or [home])
    obs = []
    for o in res["obligations"]:
        n, own = owner(o["id"], o.get("item"))
        if prop in own:
            obs.append(dict(o, id=n))
    fails = []
    for f in res["failures"]:
        n, own = owner(f["obligation"], f.get("item"))
        if prop in own:
            fails.append(dict(f, obligation=n))
        else:
            res["undecided"].append(f"obligation `{n}` of property {own} failed in the shared unit {res['unit']}; "
                                    f"the proof of {prop}'s obligations is modular over it")
    res["obligations"], res["failures"] = obs, fails
    if not obs and not res["undecided"] and not res.get("bounded_only"):
        res["undecided"].append(f"vacuity: unit {res['unit']} has no obligation tagged for {prop}")
    return res


def do_check(prop, args, scratch, seed, t0):
    ensure_extractor()
    units = units_for(prop)
    if not units:
        raise Undecided("no contract unit registered for this property")
    with cf.ThreadPoolExecutor(max_workers=4) as ex:
        results = list(ex.map(lambda u: check_unit(u, scratch, args), units))

    results = [project(r, u, prop) for r, u in zip(results, units)]
    known = [k for k in load_known() if k.get("property") == prop]
    known_open = {k["obligation"]: k for k in known if k.get("status") == "known"}

    undecided = [(r["unit"], m) for r in results for m in r["undecided"]]
    failures = [(r["unit"], f) for r in results for f in r["failures"]]

    witness = {}
    # Native witnesses run (a) in the thorough tier, (b) to replay a refuted obligation, and (c) when the verifier is
    # UNDECIDED on a unit (changed code outside what Verus / the stand-ins accept): a failing run of the real code
    # against the property statement is still a violation with a failing input — decided by a bounded native check,
    # labelled as such, never counted as proved.
    und_units = {r["unit"] for r in results if r["undecided"]}
    # (d) in the quick tier too for units that ask for it (`witness_in_quick`): parts of a property that live in code no
    # contract reaches (proc-macros, serde attributes, thin delegating wrappers) are at least exercised on every change.
    # experiments only (tools/neutral_all.sh): the deductive part alone; never set by a registered command
    need_witness = not os.environ.get("VERIF_NO_WITNESS")
    if need_witness:
        for u in units:
            # a unit that also serves other properties runs its witness in THEIR quick tier only if it says so (`witness_for`);
            # it still runs whenever the verifier is undecided or refutes something in it (below), and always in the thorough tier
            in_quick = u.get("witness_in_quick") and (not u.get("_foreign") or prop in u.get("witness_for", []))
            if u.get("witness") and (args.tier == "thorough" or in_quick or u.get("mode") == "bounded" or u["unit"] in und_units
                                     or any(n == u["unit"] for n, _ in failures)):
                failed = [f["obligation"] for n, f in failures if n == u["unit"]]
                witness[u["unit"]] = run_witness(u, scratch, failed, args.tier)

    lines, violations, known_hits = [], [], []
    seen_obs = set()
    for unit, f in failures:
        ob = f["obligation"]
        if (unit, ob) in seen_obs:
            continue
        seen_obs.add((unit, ob))
        if ob in known_open:
            k = known_open[ob]
            lines.append(f"KNOWN-FINDING: property={prop} obligation={ob} {k.get('what', '')}")
            known_hits.append(ob)
            continue
        # replay file
        w = witness.get(unit, {})
        failing_tests = []
        if "_results" in w:
            mapped = w["_map"].get(ob, [])
            failing_tests = [t for t, s in w["_results"].items() if s == "FAILED" and (t in mapped or not w["_map"])]
        rp = os.path.join(REPLAYS, f"{prop}-{re.sub(r'[^A-Za-z0-9_.-]', '_', ob)}.json")
        json.dump({"property": prop, "unit": unit, "obligation": ob, "verifier_message": f["message"],
                   "spans_in_generated_file": f["spans"],
                   "witness": {"failing_tests": failing_tests, "cmd": w.get("_cmd"), "output": w.get("_output"),
                               "error": w.get("_error")},
                   "found_failing_input": bool(failing_tests)}, open(rp, "w"), indent=1)
        tail = "" if failing_tests else " no-failing-input-found"
        violations.append(f"VIOLATION property={prop} replay={rp} obligation={ob}{tail}")

    # named deviations reported by bounded stand-ins
    for unit, w in witness.items():
        for slug, (what, owners) in w.get("_deviations", {}).items():
            if owners and prop not in owners:
                continue
            if slug in known_open:
                known_hits.append(slug)
                lines.append(f"KNOWN-FINDING: property={prop} {known_open[slug].get('line', what)}")
                continue
            rp = os.path.join(REPLAYS, f"{prop}-deviation-{re.sub(r'[^A-Za-z0-9_.-]', '_', slug)}.json")
            json.dump({"property": prop, "unit": unit, "obligation": slug, "deviation": what, "witness":
                       {"cmd": w.get("_cmd"), "output": w.get("_output")}, "found_failing_input": True}, open(rp, "w"), indent=1)
            violations.append(f"VIOLATION property={prop} replay={rp} bounded-native-witness-deviation={slug}")

    # thorough: a failing native witness that no obligation explains is still a violation of the property
    for unit, w in witness.items():
        if "_results" in w:
            explained = set()
            for ob, tests in w["_map"].items():
                if ob in known_open or any(ob == f["obligation"] for _, f in failures):
                    explained |= set(tests)
            for t, s in w["_results"].items():
                if s == "FAILED" and t not in explained:
                    rp = os.path.join(REPLAYS, f"{prop}-witness-{t}.json")
                    json.dump({"property": prop, "unit": unit, "obligation": None, "witness":
                               {"failing_tests": [t], "cmd": w.get("_cmd"), "output": w.get("_output")},
                               "found_failing_input": True}, open(rp, "w"), indent=1)
                    how = "verifier-undecided;decided-by=bounded-native-witness" if unit in und_units else "native-witness"
                    violations.append(f"VIOLATION property={prop} replay={rp} {how}={t}")
        elif "_error" in w:
            undecided.append((unit, "witness: " + w["_error"]))

    all_obs = [o for r in results for o in r["obligations"]]
    n_ob = len(all_obs)
    n_dis = sum(1 for o in all_obs if o["status"] == "discharged")
    trusted = sorted({t for r in results for t in r["trusted_base"]})
    notes = {}
    for u in units:
        for k in ("not_decided", "assumptions", "dropped_by_extraction"):
            if u.get(k):
                notes.setdefault(k, []).extend(u[k])
    ev = {
        "property_id": prop, "tier": args.tier if args.tier in ("quick", "thorough") else "quick", "seed": seed,
        "level": "proof",
        "coverage": {
            "obligations": n_ob, "discharged": n_dis if not undecided else 0,
            "checker_cmd": " ; ".join(r["checker_cmd"] for r in results if r["checker_cmd"]),
            "trusted_base": trusted,
            "functions_under_contract": [f for r in results for f in r["functions"]],
            "obligation_table": all_obs,
            "back_ends": sorted({o["back_end"] for o in all_obs}),
            "solver_time_ms": sum(r["solver_ms"] for r in results),
            "vacuity_guard": {r["unit"]: r["canary"] for r in results},
            "verus": {r["unit"]: r.get("verus") for r in results},
            "known_findings_hit": known_hits,
            "undecided": [f"{u}: {m}" for u, m in undecided],
            "not_decided": notes.get("not_decided", []),
            "dropped_by_extraction": notes.get("dropped_by_extraction", []),
            "native_witness_tests": {u: w.get("_results", w.get("_error")) for u, w in witness.items()},
            "samples": [o["id"] for o in all_obs][:12],
            "exhaustive": False,
            "bounded_checks": [dict(b, unit=u, counted_as="bounded stand-in, never counted as proved") for u, w in witness.items() for b in w.get("_bounded", [])],
        },
        "assumptions": notes.get("assumptions", []) + ["every entry of coverage.trusted_base is an assumed contract"],
        "wall_s": round(time.time() - t0, 2),
        "violations": len(violations),
    }
    lvl = sorted({u["evidence_level"] for u in units if u.get("evidence_level") and not u.get("_foreign")})
    if lvl:
        # a claim that rests mostly on bounded stand-ins says so: level = exploration, with the counts the stand-ins measured on this run
        explored = [dict(e, unit=u) for u, w in witness.items() for e in w.get("_explored", [])]
        ev["level"] = lvl[0]
        ev["coverage"]["evaluations"] = sum(b["evaluations"] for b in ev["coverage"]["bounded_checks"])
        ev["coverage"]["distinct_nontrivial"] = sum(e["distinct_nontrivial"] for e in explored)
        ev["coverage"]["rule"] = " | ".join(f"{e['test']}: {e['rule']}" for e in explored)
        ev["coverage"]["samples"] = [x for u, w in witness.items() for x in w.get("_samples", [])] + ev["coverage"]["samples"]
        ev["coverage"]["explored"] = explored
    json.dump(ev, open(os.path.join(EVIDENCE, prop + ".json"), "w"), indent=1)

    for l in lines:
        print(l)
    if violations:
        for v in violations:
            print(v)
        return 1
    if undecided:
        for u, m in undecided:
            print(f"UNDECIDED property={prop} unit={u} reason={m}")
        return 2
    print(f"OK property={prop} obligations={n_ob} discharged={n_dis} units={len(units)} "
          f"wall={ev['wall_s']}s tier={args.tier}")
    return 0


def do_replay(prop, path, scratch):
    rp = json.load(open(path))
    units = [u for u in units_for(prop) if u["unit"] == rp.get("unit")]
    if not units or not units[0].get("witness"):
        print("no native witness registered for this unit; verifier output was:\n", rp.get("verifier_message"))
        return 2
    w = run_witness(units[0], scratch, [rp.get("obligation")], "thorough")
    if "_results" not in w:
        print("replay could not run:", w.get("_error"))
        return 2
    bad = [t for t in rp["witness"]["failing_tests"] if w["_results"].get(t) == "FAILED"]
    print(json.dumps({t: w["_results"].get(t) for t in rp["witness"]["failing_tests"]}, indent=1))
    if bad:
        print(f"VIOLATION property={prop} replay={path} (reproduced: {', '.join(bad)})")
        return 1
    print("not reproduced on the current tree")
    return 0


if __name__ == "__main__":
    sys.exit(main())
