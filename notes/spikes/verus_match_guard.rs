// expected: 2 verified, 2 errors — f and h FAIL SPURIOUSLY (tool limitation: match-arm guard + assignment through a &mut parameter loses final(..)); free verifies.
use vstd::prelude::*;
verus! {
#[derive(Clone, Copy)]
pub enum Id { A(u8), B { old: u8, new: u8 }, C(u8) }
pub struct S { pub id: Id, pub x: u8 }
impl S {
    pub fn f(&mut self, flag: bool, k: Id) -> (r: Result<(), u8>)
        ensures final(self).x == old(self).x
    {
        match k {
            Id::C(c) if flag => { self.id = Id::A(c); }
            _ => {}
        }
        Ok(())
    }
    pub fn h(&mut self, flag: bool, k: Id) -> (r: u8)
        ensures final(self).x == old(self).x
    {
        let id = self.id;
        match id {
            Id::C(c) if flag => { self.id = Id::A(c); }
            _ => {}
        }
        3
    }
}
fn free(s: &mut S, flag: bool) ensures final(s).x == old(s).x {
    match s.id {
        Id::C(c) if flag => { }
        _ => {}
    }
}
}
fn main(){}
