// expected: 6 verified, 0 errors. Bodies = InMemorySessionStore::_delete and the tail of change_id after N6 (MutexGuard<HashMap> typed as HashMap); vstd's own HashMap specs + key-model axiom.
#![feature(allocator_api)]
use vstd::prelude::*;
use std::collections::HashMap;
verus! {
#[derive(Clone, Copy, PartialEq, Eq, Hash)]
pub struct SessionId(pub u128);
pub broadcast proof fn key_model() ensures #[trigger] vstd::std_specs::hash::obeys_key_model::<SessionId>() { admit(); }
#[derive(Clone, Copy)]
pub struct Timestamp(pub i64);
pub struct State(pub u64);
pub struct StoreRecord { pub state: State, pub deadline: Timestamp }
pub struct UnknownIdError { pub id: SessionId }
pub struct DuplicateIdError { pub id: SessionId }
pub enum ChangeIdError { UnknownId(UnknownIdError), DuplicateId(DuplicateIdError) }
#[verifier::external_body] pub fn now() -> (r: Timestamp) { unimplemented!() }
#[verifier::external_body] pub fn ts_le(a: Timestamp, b: Timestamp) -> (r: bool) ensures r == (a.0 <= b.0) { unimplemented!() }
impl StoreRecord { fn is_stale(&self) -> (r: bool) { ts_le(self.deadline, now()) } }
pub type Guard = HashMap<SessionId, StoreRecord>;
fn _delete(guard: &mut Guard, id: &SessionId) -> (r: Result<StoreRecord, UnknownIdError>)
    ensures
        match r {
            Ok(rec) => old(guard)@.contains_key(*id) && old(guard)@[*id] == rec && final(guard)@ == old(guard)@.remove(*id),
            Err(_) => final(guard)@ == old(guard)@.remove(*id),
        }
{
    broadcast use key_model;
    let Some(old_record) = guard.remove(id) else {
        return Err(UnknownIdError { id: *id });
    };
    if old_record.is_stale() {
        return Err(UnknownIdError { id: *id });
    }
    Ok(old_record)
}
fn change_id_tail(guard: &mut Guard, old_id: &SessionId, new_id: &SessionId) -> (r: Result<(), ChangeIdError>)
    ensures
        match r {
            Ok(_) => old(guard)@.contains_key(*old_id) && final(guard)@ == old(guard)@.remove(*old_id).insert(*new_id, old(guard)@[*old_id]),
            Err(_) => final(guard)@ == old(guard)@.remove(*old_id),
        }
{
    broadcast use key_model;
    let record = match _delete(guard, old_id) { Ok(r) => r, Err(e) => return Err(ChangeIdError::UnknownId(e)) };
    guard.insert(*new_id, record);
    Ok(())
}
} // verus!
fn main() {}
