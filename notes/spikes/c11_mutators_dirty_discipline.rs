// expected: 3 verified, 1 errors — insert_raw/force_load_mut/new_cell_with verify; the REAL remove_raw shape (after N3) fails the two-state dirty discipline (DESIGN §4.1).
use vstd::prelude::*;
use std::collections::HashMap;
use std::cell::OnceCell;
verus! {
#[verifier::external_type_specification]
#[verifier::external_body]
#[verifier::reject_recursive_types(T)]
pub struct ExOnceCell<T>(OnceCell<T>);
pub uninterp spec fn cell_view<T>(c: &OnceCell<T>) -> Option<T>;
pub assume_specification<T>[OnceCell::<T>::new]() -> (r: OnceCell<T>) ensures cell_view(&r) == None::<T>;
pub assume_specification<T>[<OnceCell<T> as From<T>>::from](t: T) -> (r: OnceCell<T>) ensures cell_view(&r) == Some(t);
pub assume_specification<T>[OnceCell::<T>::get_mut](c: &mut OnceCell<T>) -> (r: Option<&mut T>)
    ensures match r {
        Some(x) => cell_view(old(c)) == Some(*x) && cell_view(final(c)) == Some(*final(x)),
        None => cell_view(old(c)) == None::<T> && cell_view(final(c)) == None::<T>,
    };
pub assume_specification<T: Default>[std::mem::take::<T>](t: &mut T) -> (r: T) ensures r == *old(t);

pub enum ServerState { Unchanged { state: HashMap<u64, u64>, ttl: u64 }, DoesNotExist, MarkedForDeletion, Changed { state: HashMap<u64, u64> } }
pub struct Session { pub server_state: OnceCell<ServerState>, pub inv: bool }

fn new_cell_with<T>(value: Option<T>) -> (r: OnceCell<T>) ensures cell_view(&r) == value
{
    match value {
        Some(t) => OnceCell::from(t),
        None => OnceCell::new(),
    }
}
pub fn force_load_mut(s: &mut Session) -> (r: &mut ServerState)
    requires cell_view(&old(s).server_state).is_some(),
    ensures cell_view(&old(s).server_state) == Some(*r), cell_view(&final(s).server_state) == Some(*final(r)), final(s).inv == old(s).inv
{
    let Some(state) = s.server_state.get_mut() else {
        vstd::pervasive::unreached()
    };
    state
}
pub open spec fn unchanged_contents_preserved(pre: Option<ServerState>, post: Option<ServerState>) -> bool {
    pre matches Some(ServerState::Unchanged{state: s0, ..}) ==> (post matches Some(ServerState::Unchanged{state: s1, ..}) ==> s0@ == s1@)
}
pub fn insert_raw(s: &mut Session, key: u64, value: u64) -> (r: Option<u64>)
    requires cell_view(&old(s).server_state).is_some(),
    ensures unchanged_contents_preserved(cell_view(&old(s).server_state), cell_view(&final(s).server_state)),
        cell_view(&final(s).server_state) matches Some(st) && (st is Changed || st is MarkedForDeletion)
{
    let mut existing_state;
    match force_load_mut(s) {
        ServerState::MarkedForDeletion => { return None; }
        ServerState::Unchanged { state, .. } => { existing_state = std::mem::take(state); }
        ServerState::Changed { state } => { existing_state = std::mem::take(state); }
        ServerState::DoesNotExist => { existing_state = HashMap::new(); }
    };
    let old_value = existing_state.insert(key, value);
    s.server_state = new_cell_with(Some(ServerState::Changed { state: existing_state }));
    old_value
}
pub fn remove_raw(s: &mut Session, key: u64) -> (r: Option<u64>)
    requires cell_view(&old(s).server_state).is_some(),
    ensures unchanged_contents_preserved(cell_view(&old(s).server_state), cell_view(&final(s).server_state)),
{
    match force_load_mut(s) {
        ServerState::MarkedForDeletion => None,
        ServerState::DoesNotExist => None,
        ServerState::Unchanged { state, .. } => state.remove(&key),
        ServerState::Changed { state } => state.remove(&key),
    }
}
} // verus!
fn main() {}
