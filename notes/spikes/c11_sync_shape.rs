// expected: 2 verified, 0 errors. Shape of Session::sync's Changed+Existing branch with rule N6' (store handle typed &mut):
// the state borrowed out of the cell stays alive across the store call, and the store effect is framed through the handle.
use vstd::prelude::*;
use std::collections::HashMap;
use std::cell::OnceCell;
verus! {
#[verifier::external_type_specification]
#[verifier::external_body]
#[verifier::reject_recursive_types(T)]
pub struct ExOnceCell<T>(OnceCell<T>);
pub uninterp spec fn cell_view<T>(c: &OnceCell<T>) -> Option<T>;
pub assume_specification<T>[OnceCell::<T>::get](c: &OnceCell<T>) -> (r: Option<&T>)
    ensures match r { Some(x) => cell_view(c) == Some(*x), None => cell_view(c) == None::<T> };
pub type State = HashMap<u64, u64>;
pub enum ServerState { Unchanged { state: State, ttl: u64 }, DoesNotExist, MarkedForDeletion, Changed { state: State } }
#[derive(Clone, Copy)]
pub enum CurrentSessionId { Existing(u64), ToBeRenamed { old: u64, new: u64 }, NewlyGenerated(u64) }
#[verifier::external_body] pub struct SessionStore { _p: u8 }
pub uninterp spec fn sv(s: &SessionStore) -> Map<u64, Map<u64,u64>>;
pub struct SessionRecordRef<'a> { pub state: &'a State, pub ttl: u64 }
pub enum UpdateError { UnknownId, Other }
impl SessionStore {
    #[verifier::external_body]
    pub fn update(&mut self, id: &u64, record: SessionRecordRef<'_>) -> (r: Result<(), UpdateError>)
        ensures match r {
            Ok(_) => sv(old(self)).contains_key(*id) && sv(final(self)) == sv(old(self)).insert(*id, record.state@),
            Err(_) => sv(final(self)) == sv(old(self)),
        }
    { unimplemented!() }
}
pub struct Session<'store> { pub id: CurrentSessionId, pub server_state: OnceCell<ServerState>, pub store: &'store mut SessionStore }
impl Session<'_> {
    pub fn sync(&mut self) -> (r: Result<(), UpdateError>)
        ensures
            r is Ok ==> (cell_view(&old(self).server_state) matches Some(ServerState::Changed{state}) ==> (old(self).id matches CurrentSessionId::Existing(id)
              ==> sv(final(self).store) == sv(old(self).store).insert(id, state@))),
    {
        use ServerState::*;
        match self.server_state.get() {
            Some(Changed { state }) => {
                let record = SessionRecordRef { state: state, ttl: 3 };
                match self.id {
                    CurrentSessionId::Existing(id) => {
                        self.store.update(&id, record)?;
                    }
                    _ => {}
                }
            }
            _ => {}
        }
        Ok(())
    }
}
} // verus!
fn main() {}
