// expected: 1 verified, 0 errors. Body ≈ pavex::config::ConfigLoader::load (hand-normalised: unwrap_or_else/map_err/context written as match; see c_idioms.rs for the verbatim idioms).
// figment is an uninterpreted term algebra; the postcondition pins the documented merge order.
use vstd::prelude::*;
verus! {
#[verifier::external_body] pub struct PathBuf { _p: u8 }
#[verifier::external_body] pub struct Figment { _p: u8 }
#[verifier::external_body] pub struct YamlFile { _p: u8 }
#[verifier::external_body] pub struct Env { _p: u8 }
#[verifier::external_body] pub struct AnyhowError { _p: u8 }
pub uninterp spec fn fig_empty() -> Figment;
pub uninterp spec fn fig_merge<P>(f: Figment, p: P) -> Figment;
pub uninterp spec fn yaml_file(p: PathBuf) -> YamlFile;
pub uninterp spec fn env_prefixed(p: Seq<char>) -> Env;
pub uninterp spec fn env_split(e: Env, s: Seq<char>) -> Env;
pub uninterp spec fn env_ignore(e: Env, k: Seq<Seq<char>>) -> Env;
pub uninterp spec fn path_join(p: PathBuf, s: Seq<char>) -> PathBuf;
pub uninterp spec fn path_from(s: Seq<char>) -> PathBuf;
pub uninterp spec fn extract_spec<C>(f: Figment) -> Option<C>;
pub uninterp spec fn fmt1(lit: Seq<char>, a: Seq<char>) -> Seq<char>;
pub uninterp spec fn strip_prefix_spec(s: Seq<char>, p: Seq<char>) -> Option<Seq<char>>;
impl PathBuf {
    #[verifier::external_body] pub fn from(s: &str) -> (r: PathBuf) ensures r == path_from(s@) { unimplemented!() }
    #[verifier::external_body] pub fn join(&self, s: String) -> (r: PathBuf) ensures r == path_join(*self, s@) { unimplemented!() }
    #[verifier::external_body] pub fn join_str(&self, s: &str) -> (r: PathBuf) ensures r == path_join(*self, s@) { unimplemented!() }
}
pub struct Yaml;
impl Yaml { #[verifier::external_body] pub fn file(p: PathBuf) -> (r: YamlFile) ensures r == yaml_file(p) { unimplemented!() } }
impl Env {
    #[verifier::external_body] pub fn prefixed(p: &str) -> (r: Env) ensures r == env_prefixed(p@) { unimplemented!() }
    #[verifier::external_body] pub fn split(self, s: &str) -> (r: Env) ensures r == env_split(self, s@) { unimplemented!() }
    // NB: stating the key list as `seq![keys@[0]@]` under `len == 1` avoids a Seq-extensionality gap.
    #[verifier::external_body] pub fn ignore(self, keys: &[&str]) -> (r: Env) ensures keys@.len() == 1 ==> r == env_ignore(self, seq![keys@[0]@]) { unimplemented!() }
}
impl Figment {
    #[verifier::external_body] pub fn new() -> (r: Figment) ensures r == fig_empty() { unimplemented!() }
    #[verifier::external_body] pub fn merge<P>(self, p: P) -> (r: Figment) ensures r == fig_merge(self, p) { unimplemented!() }
    #[verifier::external_body] pub fn extract<C>(&self) -> (r: Result<C, AnyhowError>) ensures r matches Ok(c) ==> extract_spec::<C>(*self) == Some(c), r is Err ==> extract_spec::<C>(*self) is None { unimplemented!() }
}
#[verifier::external_body] pub fn fmt_1(lit: &str, a: &str) -> (r: String) ensures r@ == fmt1(lit@, a@) { unimplemented!() }
#[verifier::external_body] pub fn str_strip_prefix<'a>(s: &'a str, p: &str) -> (r: Option<&'a str>) ensures match r { Some(x) => strip_prefix_spec(s@, p@) == Some(x@), None => strip_prefix_spec(s@, p@) is None } { unimplemented!() }
pub struct ConfigLoadError(pub AnyhowError);
pub struct ConfigProfileLoadError(pub AnyhowError);
pub trait ConfigProfile: Sized {
    spec fn name(&self) -> Seq<char>;
    fn as_ref(&self) -> (r: &str) ensures r@ == self.name();
    fn load() -> Result<Self, ConfigProfileLoadError>;
}
pub struct ConfigLoader<Profile> { pub configuration_dir: Option<PathBuf>, pub profile: Option<Profile> }
pub open spec fn expected_figment(dir: PathBuf, profile: Seq<char>) -> Figment {
    fig_merge(
        fig_merge(
            fig_merge(fig_empty(), yaml_file(path_join(dir, "base.yml"@))),
            yaml_file(path_join(dir, fmt1("{}.yml"@, profile)))),
        env_ignore(env_split(env_prefixed("PX_"@), "__"@), seq![strip_prefix_spec("PX_PROFILE"@, "PX_"@).unwrap()]))
}
impl<Profile: ConfigProfile> ConfigLoader<Profile> {
    pub fn load<Config>(self) -> (r: Result<Config, ConfigLoadError>)
        requires strip_prefix_spec("PX_PROFILE"@, "PX_"@) is Some,
        ensures
            self.profile matches Some(p) ==> ({
                let dir = match self.configuration_dir { Some(d) => d, None => path_from("configuration"@) };
                match r {
                    Ok(c) => extract_spec::<Config>(expected_figment(dir, p.name())) == Some(c),
                    Err(_) => extract_spec::<Config>(expected_figment(dir, p.name())) is None,
                }
            }),
    {
        let profile = match self.profile {
            Some(profile) => profile,
            None => match Profile::load() { Ok(p) => p, Err(e) => return Err(ConfigLoadError(e.0)) },
        };
        let configuration_dir = match self.configuration_dir { Some(d) => d, None => PathBuf::from("configuration") };
        let base_filepath = configuration_dir.join_str("base.yml");
        let profile_filepath = configuration_dir.join(fmt_1("{}.yml", profile.as_ref()));

        let prefix = "PX_";
        let env_source = Env::prefixed(prefix)
            .split("__")
            .ignore(&[str_strip_prefix("PX_PROFILE", prefix).unwrap()]);
        let figment = Figment::new()
            .merge(Yaml::file(base_filepath))
            .merge(Yaml::file(profile_filepath))
            .merge(env_source);

        let configuration: Config = match figment.extract() { Ok(c) => c, Err(e) => return Err(ConfigLoadError(e)) };
        Ok(configuration)
    }
}
} // verus!
fn main() {}
