// expected: 1 verified, 0 errors. Body = runtime/sessions/pavex_session/src/middleware.rs::finalize_session after N1 (async/await) and N2 (tracing, attrs).
use vstd::prelude::*;
verus! {
#[verifier::external_body] pub struct Response { _p: u8 }
#[verifier::external_body] pub struct ResponseCookies { _p: u8 }
#[verifier::external_body] pub struct Processor { _p: u8 }
#[verifier::external_body] pub struct ResponseCookie { _p: u8 }
#[verifier::external_body] pub struct Session<'store> { _p: &'store u8 }
pub struct ClientSessionState<'a> { pub s: &'a Session<'a> }
pub enum FinalizeError { EncryptionRequired { cookie_name: String }, CryptoRequired { cookie_name: String }, Other }
pub uninterp spec fn cookies_view(c: &ResponseCookies) -> Seq<ResponseCookie>;
pub uninterp spec fn cookie_name(c: &ResponseCookie) -> Seq<char>;
pub uninterp spec fn will_encrypt(p: &Processor, name: Seq<char>) -> bool;
pub uninterp spec fn will_sign(p: &Processor, name: Seq<char>) -> bool;
pub uninterp spec fn client_empty(s: &Session) -> bool;
impl ResponseCookie { #[verifier::external_body] pub fn name(&self) -> (r: &str) ensures r@ == cookie_name(self) { unimplemented!() } }
impl Processor {
    #[verifier::external_body] pub fn will_encrypt(&self, name: &str) -> (r: bool) ensures r == will_encrypt(self, name@) { unimplemented!() }
    #[verifier::external_body] pub fn will_sign(&self, name: &str) -> (r: bool) ensures r == will_sign(self, name@) { unimplemented!() }
}
impl ResponseCookies { #[verifier::external_body] pub fn insert(&mut self, c: ResponseCookie) ensures cookies_view(final(self)) == cookies_view(old(self)).push(c) { unimplemented!() } }
impl<'a> ClientSessionState<'a> { #[verifier::external_body] pub fn is_empty(&self) -> (r: bool) ensures r == client_empty(self.s) { unimplemented!() } }
impl<'store> Session<'store> {
    #[verifier::external_body] pub fn client(&self) -> (r: ClientSessionState<'_>) ensures r.s == self { unimplemented!() }
    #[verifier::external_body] pub fn finalize(&mut self) -> (r: Result<Option<ResponseCookie>, FinalizeError>) { unimplemented!() }
}
pub fn finalize_session<'store>(
    response: Response,
    response_cookies: &mut ResponseCookies,
    processor: &Processor,
    mut session: Session<'store>,
) -> (r: Result<Response, FinalizeError>)
    ensures
        match r {
            Ok(_) => cookies_view(final(response_cookies)) == cookies_view(old(response_cookies))
                || exists |c: ResponseCookie| #![auto] cookies_view(final(response_cookies)) == cookies_view(old(response_cookies)).push(c)
                    && (will_encrypt(processor, cookie_name(&c)) || will_sign(processor, cookie_name(&c)))
                    && (!client_empty(&session) ==> will_encrypt(processor, cookie_name(&c))),
            Err(_) => cookies_view(final(response_cookies)) == cookies_view(old(response_cookies)),
        }
{
    let must_encrypt = !session.client().is_empty();
    let cookie = session.finalize()?;

    if let Some(cookie) = cookie {
        let will_encrypt = processor.will_encrypt(cookie.name());

        if must_encrypt && !will_encrypt {
            return Err(FinalizeError::EncryptionRequired {
                cookie_name: cookie.name().to_string(),
            });
        }
        if !(will_encrypt || processor.will_sign(cookie.name())) {
            return Err(FinalizeError::CryptoRequired {
                cookie_name: cookie.name().to_string(),
            });
        }
        response_cookies.insert(cookie);
    }

    Ok(response)
}
} // verus!
fn main() {}
