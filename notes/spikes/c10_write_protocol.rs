// expected: 2 verified, 0 errors. Bodies = persist_if_changed::persist_if_changed and pavexc::AppWriter::persist_if_changed (verbatim modulo the write primitive being a stand-in).
// File-system effects are specified as PROTOCOL PRECONDITIONS on the write primitive (DESIGN §3/C10).
use vstd::prelude::*;
verus! {
#[verifier::external_body] pub struct Path { _p: u8 }
#[verifier::external_body] pub struct PathBuf { _p: u8 }
pub struct AnyhowError;
pub uninterp spec fn path_id(p: &Path) -> int;
pub uninterp spec fn pathbuf_id(p: &PathBuf) -> int;
impl Path { #[verifier::external_body] pub fn to_path_buf(&self) -> (r: PathBuf) ensures pathbuf_id(&r) == path_id(self) { unimplemented!() } }
pub uninterp spec fn writes_allowed() -> bool;
pub uninterp spec fn fs_readable(p: int) -> bool;
pub uninterp spec fn fs_content(p: int) -> Option<Seq<u8>>;
#[verifier::external_body]
pub fn has_changed_file2buffer(path: &Path, contents: &[u8]) -> (r: Result<bool, AnyhowError>)
    ensures r matches Ok(b) ==> fs_readable(path_id(path)) && (b == (fs_content(path_id(path)) != Some(contents@))), r is Err ==> !fs_readable(path_id(path))
{ unimplemented!() }
#[verifier::external_body]
pub fn raw_write(path: &Path, content: &[u8]) -> (r: Result<(), AnyhowError>)
    requires writes_allowed(), !(fs_readable(path_id(path)) && fs_content(path_id(path)) == Some(content@))
{ unimplemented!() }
#[verifier::external_body] pub struct IndexSet { _p: u8 }
pub uninterp spec fn set_view(s: &IndexSet) -> Set<int>;
impl IndexSet {
    #[verifier::external_body] pub fn insert(&mut self, p: PathBuf) -> (r: bool) ensures set_view(final(self)) == set_view(old(self)).insert(pathbuf_id(&p)) { unimplemented!() }
}
pub assume_specification<T, E>[Result::<T, E>::unwrap_or](r: Result<T, E>, d: T) -> (o: T)
    ensures o == (match r { Ok(t) => t, Err(_) => d });

pub fn persist_if_changed(path: &Path, content: &[u8]) -> (r: Result<(), AnyhowError>)
    requires writes_allowed(),
{
    let has_changed = has_changed_file2buffer(path, content).unwrap_or(true);
    if !has_changed {
        return Ok(());
    }
    raw_write(path, content)?;
    Ok(())
}
pub struct AppWriter { pub mode: WriterMode }
pub enum WriterMode { Update, CheckOnly { outdated: IndexSet } }
impl AppWriter {
    pub fn persist_if_changed(&mut self, path: &Path, content: &[u8]) -> (r: Result<(), AnyhowError>)
        requires old(self).mode is CheckOnly ==> !writes_allowed(), old(self).mode is Update ==> writes_allowed(),
        ensures
            (old(self).mode is Update) == (final(self).mode is Update),
            r is Ok ==> (old(self).mode matches WriterMode::CheckOnly { outdated: o0 } ==> (final(self).mode matches WriterMode::CheckOnly { outdated: o1 } ==> (
                set_view(&o1) == (if fs_content(path_id(path)) != Some(content@) { set_view(&o0).insert(path_id(path)) } else { set_view(&o0) })))),
    {
        match &mut self.mode {
            WriterMode::CheckOnly { outdated } => {
                if has_changed_file2buffer(path, content)? {
                    outdated.insert(path.to_path_buf());
                }
            }
            _ => {
                persist_if_changed(path, content)?;
            }
        }
        Ok(())
    }
}
} // verus!
fn main() {}
