// expected: 6 verified, 1 errors — the `Ok` half of the postcondition verifies (see --expand-errors); the Err(SizeLimitExceeded) clause still needs proof engineering.
// Body ≈ BufferedBody::_extract_with_limit after N1, N4 (header line, `len > max_size`, downcast replaced by stand-in calls in this spike; verbatim header line is in c_idioms.rs).
use vstd::prelude::*;
verus! {
#[derive(Clone, Copy)]
pub struct ByteUnit(pub u64);
impl ByteUnit { pub fn as_u64(self) -> (r: u64) ensures r == self.0 { self.0 } }
#[verifier::external_body] pub fn usize_gt_byteunit(len: usize, max: ByteUnit) -> (r: bool) ensures r == (len as int > max.0 as int) { unimplemented!() }
#[verifier::external_body] pub struct HeaderMap { _p: u8 }
pub struct RequestHead { pub headers: HeaderMap }
pub uninterp spec fn declared_len(h: &RequestHead) -> Option<usize>;
#[verifier::external_body] pub fn content_length_of(h: &RequestHead) -> (r: Option<usize>) ensures r == declared_len(h) { unimplemented!() }
#[verifier::external_body] pub struct Bytes { _p: u8 }
pub uninterp spec fn bytes_view(b: &Bytes) -> Seq<u8>;
#[verifier::external_body] pub struct Collected { _p: u8 }
pub uninterp spec fn collected_view(c: &Collected) -> Seq<u8>;
impl Collected { #[verifier::external_body] pub fn to_bytes(self) -> (r: Bytes) ensures bytes_view(&r) == collected_view(&self) { unimplemented!() } }
pub enum BoxError { LengthLimit, Other }
impl BoxError { pub fn is_length_limit(&self) -> (r: bool) ensures r == (*self is LengthLimit) { matches!(self, BoxError::LengthLimit) } }
pub trait Body: Sized { spec fn content(&self) -> Seq<u8>; }
pub struct Limited<B> { pub inner: B, pub limit: usize }
impl<B: Body> Limited<B> {
    pub fn new(inner: B, limit: usize) -> (r: Self) ensures r.inner == inner, r.limit == limit { Limited { inner, limit } }
    /// ASSUMED contract of http_body_util::Limited + BodyExt::collect.
    #[verifier::external_body]
    pub fn collect(self) -> (r: Result<Collected, BoxError>)
        ensures match r {
            Ok(c) => collected_view(&c) == self.inner.content() && self.inner.content().len() <= self.limit,
            Err(e) => e is LengthLimit ==> self.inner.content().len() > self.limit,
        }
    { unimplemented!() }
}
pub assume_specification<T, E>[Result::<T, E>::unwrap_or](r: Result<T, E>, d: T) -> (o: T)
    ensures o == (match r { Ok(t) => t, Err(_) => d });
pub struct SizeLimitExceeded { pub max_size: ByteUnit, pub content_length: Option<usize> }
pub struct UnexpectedBufferError { pub source: BoxError }
pub enum ExtractBufferedBodyError { SizeLimitExceeded(SizeLimitExceeded), UnexpectedBufferError(UnexpectedBufferError) }
impl From<SizeLimitExceeded> for ExtractBufferedBodyError { fn from(e: SizeLimitExceeded) -> (r: Self) { ExtractBufferedBodyError::SizeLimitExceeded(e) } }
impl vstd::std_specs::convert::FromSpecImpl<SizeLimitExceeded> for ExtractBufferedBodyError {
    open spec fn obeys_from_spec() -> bool { true }
    open spec fn from_spec(e: SizeLimitExceeded) -> Self { ExtractBufferedBodyError::SizeLimitExceeded(e) }
}
impl From<UnexpectedBufferError> for ExtractBufferedBodyError { fn from(e: UnexpectedBufferError) -> (r: Self) { ExtractBufferedBodyError::UnexpectedBufferError(e) } }
impl vstd::std_specs::convert::FromSpecImpl<UnexpectedBufferError> for ExtractBufferedBodyError {
    open spec fn obeys_from_spec() -> bool { true }
    open spec fn from_spec(e: UnexpectedBufferError) -> Self { ExtractBufferedBodyError::UnexpectedBufferError(e) }
}
pub struct BufferedBody { pub bytes: Bytes }
impl BufferedBody {
    fn _extract_with_limit<B>(
        request_head: &RequestHead,
        body: B,
        max_size: ByteUnit,
    ) -> (r: Result<Self, ExtractBufferedBodyError>)
    where
        B: Body,
        ensures
            match r {
                Ok(b) => bytes_view(&b.bytes) == body.content() && bytes_view(&b.bytes).len() <= max_size.0,
                Err(ExtractBufferedBodyError::SizeLimitExceeded(_)) =>
                    body.content().len() > max_size.0 || (declared_len(request_head) matches Some(l) && l > max_size.0),
                Err(_) => true,
            }
    {
        let content_length = content_length_of(request_head);

        let limit_error = || SizeLimitExceeded {
            max_size,
            content_length,
        };

        if let Some(len) = content_length {
            if usize_gt_byteunit(len, max_size) {
                return Err(limit_error().into());
            }
        }

        let max_n_bytes = max_size.as_u64().try_into().unwrap_or(usize::MAX);
        let limited_body = Limited::new(body, max_n_bytes);
        match limited_body.collect() {
            Ok(collected) => Ok(Self {
                bytes: collected.to_bytes(),
            }),
            Err(e) => {
                if e.is_length_limit()
                {
                    Err(limit_error().into())
                } else {
                    Err(UnexpectedBufferError { source: e }.into())
                }
            }
        }
    }
}
} // verus!
fn main() {}
