// expected: 9 verified, 0 errors. Body = session_.rs::force_load after N1, N2 and N6' (OnceCell / InvalidationFlag / store handle with exclusive access).
use vstd::prelude::*;
use std::collections::HashMap;
verus! {
pub struct OnceCell<T> { pub v: Option<T> }
impl<T> OnceCell<T> {
    pub fn new() -> (r: Self) ensures r.v is None { OnceCell { v: None } }
    pub fn get(&self) -> (r: Option<&T>) ensures match r { Some(x) => self.v == Some(*x), None => self.v is None } { self.v.as_ref() }
    pub fn set(&mut self, t: T) -> (r: Result<(), T>)
        ensures old(self).v is None ==> r is Ok && final(self).v == Some(t),
                old(self).v is Some ==> r == Err::<(), T>(t) && final(self).v == old(self).v
    { if self.v.is_none() { self.v = Some(t); Ok(()) } else { Err(t) } }
}
pub struct InvalidationFlag(pub OnceCell<()>);
impl InvalidationFlag {
    fn invalidate(&mut self) ensures final(self).0.v is Some { let _ = self.0.set(()); }
    fn is_invalidated(&self) -> (r: bool) ensures r == self.0.v.is_some() { self.0.get().is_some() }
}
pub type State = HashMap<u64, u64>;
pub enum ServerState { Unchanged { state: State, ttl: u64 }, DoesNotExist, MarkedForDeletion, Changed { state: State } }
#[derive(Clone, Copy)]
pub enum CurrentSessionId { Existing(u64), ToBeRenamed { old: u64, new: u64 }, NewlyGenerated(u64) }
pub open spec fn spec_old_id(id: CurrentSessionId) -> Option<u64> { match id { CurrentSessionId::Existing(i) => Some(i), CurrentSessionId::ToBeRenamed{old, ..} => Some(old), CurrentSessionId::NewlyGenerated(_) => None } }
impl CurrentSessionId {
    fn old_id(&self) -> (r: Option<u64>)
        ensures r == spec_old_id(*self)
    {
        match self {
            Self::Existing(id) => Some(*id),
            Self::ToBeRenamed { old, .. } => Some(*old),
            Self::NewlyGenerated(..) => None,
        }
    }
}
#[derive(PartialEq, Eq, Clone, Copy)]
pub enum MissingServerState { Allow, Reject }
pub struct StateCfg { pub missing_server_state: MissingServerState }
pub struct SessionConfig { pub state: StateCfg }
pub struct SessionRecord { pub state: State, pub ttl: u64 }
pub struct LoadError;
#[verifier::external_body] pub struct SessionStore { _p: u8 }
pub uninterp spec fn sv(s: &SessionStore) -> Map<u64, (Map<u64,u64>, u64)>;
impl SessionStore {
    #[verifier::external_body]
    pub fn load(&mut self, id: &u64) -> (r: Result<Option<SessionRecord>, LoadError>)
        ensures sv(final(self)) == sv(old(self)),
            match r { Ok(Some(rec)) => sv(old(self)).contains_key(*id) && sv(old(self))[*id].0 == rec.state@, Ok(None) => !sv(old(self)).contains_key(*id), Err(_) => true }
    { unimplemented!() }
}
pub struct Session<'store> { pub id: CurrentSessionId, pub server_state: OnceCell<ServerState>, pub invalidated: InvalidationFlag, pub store: &'store mut SessionStore, pub config: &'store SessionConfig }

fn force_load(session: &mut Session<'_>) -> (r: Result<(), LoadError>)
    ensures
        final(session).id == old(session).id,
        old(session).server_state.v is Some || spec_old_id(old(session).id) is None ==> final(session).server_state.v == old(session).server_state.v && r is Ok,
        r is Ok ==> final(session).server_state.v is Some || spec_old_id(old(session).id) is None,
        (r is Ok && old(session).server_state.v is None && spec_old_id(old(session).id) is Some) ==> ({
            let i = spec_old_id(old(session).id)->0;
            match final(session).server_state.v {
                Some(ServerState::Unchanged { state, .. }) => sv(old(session).store).contains_key(i) && sv(old(session).store)[i].0 == state@,
                Some(ServerState::DoesNotExist) => !sv(old(session).store).contains_key(i) && old(session).config.state.missing_server_state == MissingServerState::Allow,
                Some(ServerState::MarkedForDeletion) => !sv(old(session).store).contains_key(i) && final(session).invalidated.0.v is Some,
                _ => false,
            }}),
{
    let Some(session_id) = session.id.old_id() else {
        return Ok(());
    };
    if session.server_state.get().is_some() {
        return Ok(());
    }
    let record = session.store.load(&session_id)?;
    let mut must_invalidate = false;
    let server_state = match record {
        Some(r) => ServerState::Unchanged {
            state: r.state,
            ttl: r.ttl,
        },
        None => {
            match session.config.state.missing_server_state {
                MissingServerState::Allow => ServerState::DoesNotExist,
                MissingServerState::Reject => {
                    must_invalidate = true;
                    ServerState::MarkedForDeletion
                }
            }
        }
    };
    if session.server_state.set(server_state).is_err() {
    } else {
        if must_invalidate {
            session.invalidated.invalidate();
        }
    }
    Ok(())
}
} // verus!
fn main() {}
