// expected: 2 verified, 0 errors. Verbatim idioms that need a prelude spec, rule N9, or a closure header:
//  - `.unwrap_or_else(|| ..)`, `.context(..)`, `.map_err(Ctor)?`  (N9 eta-expands `Ctor`; closures get `-> (r: T) ensures ..` headers)
//  - `.get(..).and_then(|value| value.to_str().ok()?.parse::<usize>().ok())`  (closure with `?` inside; FromStr as external trait)
use vstd::prelude::*;
verus! {
#[verifier::external_body] pub struct PathBuf { _p: u8 }
#[verifier::external_body] pub struct AnyhowError { _p: u8 }
pub uninterp spec fn path_from(s: Seq<char>) -> PathBuf;
impl PathBuf { #[verifier::external_body] pub fn from(s: &str) -> (r: PathBuf) ensures r == path_from(s@) { unimplemented!() } }
pub struct ConfigLoadError(pub AnyhowError);
pub trait Context<T> { fn context(self, msg: &str) -> Result<T, AnyhowError>; }
pub uninterp spec fn ctx(e: AnyhowError, m: Seq<char>) -> AnyhowError;
impl<T> Context<T> for Result<T, AnyhowError> {
    #[verifier::external_body]
    fn context(self, msg: &str) -> (r: Result<T, AnyhowError>)
        ensures match self { Ok(t) => r == Ok::<T, AnyhowError>(t), Err(e) => r == Err::<T, AnyhowError>(ctx(e, msg@)) }
    { unimplemented!() }
}
pub fn t(dir: Option<PathBuf>, x: Result<u8, AnyhowError>) -> (r: Result<(PathBuf, u8), ConfigLoadError>)
    ensures r matches Ok(p) ==> p.0 == (match dir { Some(d) => d, None => path_from("configuration"@) }) && x == Ok::<u8, AnyhowError>(p.1),
{
    let configuration_dir = dir.unwrap_or_else(|| -> (p: PathBuf) ensures p == path_from("configuration"@) { PathBuf::from("configuration") });
    let v: u8 = x
        .context("Failed to load hierarchical configuration")
        .map_err(|e: AnyhowError| -> (c: ConfigLoadError) ensures c.0 == e { ConfigLoadError(e) })?;
    Ok((configuration_dir, v))
}

#[verifier::external_body] pub struct HeaderValue { _p: u8 }
#[verifier::external_body] pub struct HeaderMap { _p: u8 }
#[verifier::external_body] pub struct HeaderName { _p: u8 }
pub struct ToStrError;
pub struct RequestHead { pub headers: HeaderMap }
#[verifier::external_body] pub const fn content_length_name() -> HeaderName { unimplemented!() }
pub uninterp spec fn hv_of(h: &HeaderMap) -> Option<HeaderValue>;
pub uninterp spec fn hv_str(v: &HeaderValue) -> Option<Seq<char>>;
impl HeaderMap {
    #[verifier::external_body]
    pub fn get(&self, n: HeaderName) -> (r: Option<&HeaderValue>)
        ensures match r { Some(v) => hv_of(self) == Some(*v), None => hv_of(self) is None }
    { unimplemented!() }
}
impl HeaderValue {
    #[verifier::external_body]
    pub fn to_str(&self) -> (r: Result<&str, ToStrError>)
        ensures match r { Ok(s) => hv_str(self) == Some(s@), Err(_) => hv_str(self) is None }
    { unimplemented!() }
}
#[verifier::external_trait_specification]
pub trait ExFromStr: Sized { type ExternalTraitSpecificationFor: std::str::FromStr; type Err; }
#[verifier::external_type_specification]
#[verifier::external_body]
pub struct ExParseIntError(std::num::ParseIntError);
pub uninterp spec fn parse_spec<F>(s: Seq<char>) -> Option<F>;
pub assume_specification<F: std::str::FromStr>[str::parse::<F>](s: &str) -> (r: Result<F, <F as std::str::FromStr>::Err>)
    ensures (r is Ok) == (parse_spec::<F>(s@) is Some), r is Ok ==> Some(r->Ok_0) == parse_spec::<F>(s@);
pub fn content_length(request_head: &RequestHead) -> (r: Option<usize>)
{
    let content_length = request_head
        .headers
        .get(content_length_name())
        .and_then(|value| value.to_str().ok()?.parse::<usize>().ok());
    content_length
}
} // verus!
fn main() {}
