//! Parser for contracts/<unit>/clauses.vspec — the contracts attached to extracted functions.
//!
//! Line-oriented.  Sections start with `@fn <item id>`; inside, directives:
//!   @ret <name>                  name of the return value (default r)
//!   @requires / @ensures / @decreases / @opens_invariants   raw clause text (comma separated exprs)
//!   @loop <k>                    raw text placed before the `{` of the k-th loop (source order)
//!   @closure <k>                 raw header replacing `|args| [-> T]` of the k-th closure
//!   @hint after|before "<needle>"  raw proof text next to the unique statement starting with needle
//!   @attr <verifier attribute>   proof-mode attribute placed before the function (allow-list: loop_isolation(false))
//!   @param <from> => <to>        retype a parameter textually inside the signature (logged)
//! `//# ob: <name>` lines inside clause text name the obligation that follows.

use std::collections::BTreeMap;

#[derive(Default, Debug, Clone)]
pub struct FnClauses {
    pub ret: Option<String>,
    pub requires: String,
    pub ensures: String,
    pub decreases: String,
    pub extra: String,
    pub loops: BTreeMap<usize, String>,
    /// ghost name of the iterator of the k-th loop (`for x in NAME: expr`)
    pub loop_iters: BTreeMap<usize, String>,
    pub closures: BTreeMap<usize, String>,
    pub hints: Vec<(bool, String, String)>,
    pub no_canary: bool,
    /// `@attr`: verifier attributes that change how the proof is organised, never what is assumed (allow-listed)
    pub attrs: Vec<String>,
    /// `@loops N`: the function has N loops in all (some verify without a loop contract); default: the number of `@loop` entries
    pub expected_loops: Option<usize>,
}

enum Cur {
    None,
    Requires,
    Ensures,
    Decreases,
    Extra,
    Loop(usize),
    Closure(usize),
    Hint(usize),
}

pub fn parse(text: &str) -> Result<BTreeMap<String, FnClauses>, String> {
    let mut out: BTreeMap<String, FnClauses> = BTreeMap::new();
    let mut cur_fn: Option<String> = None;
    let mut cur = Cur::None;
    for (ln, line) in text.lines().enumerate() {
        let t = line.trim();
        if t.starts_with("@@") || (t.starts_with("//") && !t.starts_with("//#")) && matches!(cur, Cur::None) {
            continue;
        }
        if let Some(rest) = t.strip_prefix("@fn ") {
            let id = rest.trim().to_string();
            if out.contains_key(&id) {
                return Err(format!("line {}: duplicate @fn {id}", ln + 1));
            }
            out.insert(id.clone(), FnClauses::default());
            cur_fn = Some(id);
            cur = Cur::None;
            continue;
        }
        if t.starts_with('@') {
            let f = match &cur_fn {
                Some(f) => out.get_mut(f).unwrap(),
                None => return Err(format!("line {}: directive outside @fn", ln + 1)),
            };
            let mut parts = t.splitn(2, char::is_whitespace);
            let d = parts.next().unwrap();
            let arg = parts.next().unwrap_or("").trim();
            cur = match d {
                "@ret" => {
                    f.ret = Some(arg.to_string());
                    Cur::None
                }
                "@attr" => {
                    // the second one is an ASSUMPTION (termination of the function's loops is not proved): the runner lists it in trusted_base
                    const ALLOWED: [&str; 2] = ["#[verifier::loop_isolation(false)]", "#[verifier::exec_allows_no_decreases_clause]"];
                    if !ALLOWED.contains(&arg) {
                        return Err(format!("line {}: @attr {arg} is not on the allow-list {ALLOWED:?}", ln + 1));
                    }
                    f.attrs.push(arg.to_string());
                    Cur::None
                }
                "@no_canary" => {
                    f.no_canary = true;
                    Cur::None
                }
                "@loops" => {
                    f.expected_loops = Some(arg.parse().map_err(|_| format!("line {}: @loops <count>", ln + 1))?);
                    Cur::None
                }
                "@requires" => Cur::Requires,
                "@ensures" => Cur::Ensures,
                "@decreases" => Cur::Decreases,
                "@extra" => Cur::Extra,
                "@loop" => {
                    let k: usize = arg.parse().map_err(|_| format!("line {}: bad loop ordinal", ln + 1))?;
                    f.loops.insert(k, String::new());
                    Cur::Loop(k)
                }
                "@loop_iter" => {
                    let mut it = arg.split_whitespace();
                    let k: usize = it.next().unwrap_or("").parse().map_err(|_| format!("line {}: bad loop ordinal", ln + 1))?;
                    let name = it.next().ok_or_else(|| format!("line {}: @loop_iter <k> <name>", ln + 1))?;
                    f.loop_iters.insert(k, name.to_string());
                    Cur::None
                }
                "@closure" => {
                    let k: usize = arg.parse().map_err(|_| format!("line {}: bad closure ordinal", ln + 1))?;
                    f.closures.insert(k, String::new());
                    Cur::Closure(k)
                }
                "@hint" => {
                    let (after, rest) = if arg.trim() == "start" {
                        // `@hint start`: at the top of the function body — for facts that do not depend on a statement (broadcast use ..)
                        (true, "\"<START>\"")
                    } else if let Some(r) = arg.strip_prefix("after") {
                        (true, r.trim())
                    } else if let Some(r) = arg.strip_prefix("before") {
                        (false, r.trim())
                    } else {
                        return Err(format!("line {}: @hint after|before \"needle\"", ln + 1));
                    };
                    // `@hint after #2 "needle"`: the 2nd of exactly-as-many-as-today statements starting with needle
                    let (nth, rest) = match rest.strip_prefix('#') {
                        Some(r) => {
                            let mut it = r.splitn(2, char::is_whitespace);
                            let k: usize = it.next().unwrap_or("").parse().map_err(|_| format!("line {}: @hint after #<k> \"needle\"", ln + 1))?;
                            (k, it.next().unwrap_or("").trim())
                        }
                        None => (0, rest),
                    };
                    let needle = rest.trim_matches('"').to_string();
                    f.hints.push((after, if nth > 0 { format!("#{nth}#{needle}") } else { needle }, String::new()));
                    Cur::Hint(f.hints.len() - 1)
                }
                "@end" => Cur::None,
                _ => return Err(format!("line {}: unknown directive {d}", ln + 1)),
            };
            continue;
        }
        let f = match &cur_fn {
            Some(f) => out.get_mut(f).unwrap(),
            None => {
                if t.is_empty() {
                    continue;
                }
                return Err(format!("line {}: text outside @fn", ln + 1));
            }
        };
        let dst = match cur {
            Cur::None => {
                if t.is_empty() {
                    continue;
                }
                return Err(format!("line {}: text outside a directive", ln + 1));
            }
            Cur::Requires => &mut f.requires,
            Cur::Ensures => &mut f.ensures,
            Cur::Decreases => &mut f.decreases,
            Cur::Extra => &mut f.extra,
            Cur::Loop(k) => f.loops.get_mut(&k).unwrap(),
            Cur::Closure(k) => f.closures.get_mut(&k).unwrap(),
            Cur::Hint(i) => &mut f.hints[i].2,
        };
        dst.push_str(line);
        dst.push('\n');
    }
    Ok(out)
}
