//! Normalisation rules N1..N9 (DESIGN.md §2.2) as span-based text edits, and the final splice of
//! Verus clauses.  Each pass re-parses the current text, so edits never go stale.

use crate::vspec::FnClauses;
use crate::{apply_edits, range, Edit, FnFinder, ItemSpec, Lost};
use serde_json::json;
use std::collections::BTreeMap;
use syn::spanned::Spanned;
use syn::visit::{self, Visit};

fn parse(text: &str, what: &str) -> Result<syn::File, Lost> {
    syn::parse_file(text).map_err(|e| {
        Lost(format!(
            "unsupported: text no longer parses after {what}: {e} (line {})",
            e.span().start().line
        ))
    })
}

fn bump(fired: &mut BTreeMap<String, usize>, rule: &str, n: usize) {
    if n > 0 {
        *fired.entry(rule.to_string()).or_insert(0) += n;
    }
}

fn path_starts_with(p: &syn::Path, first: &str) -> bool {
    p.segments.first().map(|s| s.ident == first).unwrap_or(false)
}

// ---------------------------------------------------------------- N2a attributes

struct AttrPass<'k> {
    src: &'k str,
    edits: Vec<Edit>,
    keep_derives: &'k [String],
    err: Option<String>,
}
impl<'ast, 'k> Visit<'ast> for AttrPass<'k> {
    fn visit_attribute(&mut self, a: &'ast syn::Attribute) {
        let p = a.path();
        if p.is_ident("doc") {
            return;
        }
        if p.is_ident("cfg") || p.is_ident("cfg_attr") {
            self.err = Some("unsupported: cfg-conditional code in an extracted item".into());
            return;
        }
        let mut r = range(a.span());
        // swallow the white space that followed the attribute
        let bytes = self.src.as_bytes();
        while r.end < bytes.len() && (bytes[r.end] as char).is_ascii_whitespace() {
            r.end += 1;
        }
        if p.is_ident("derive") && !self.keep_derives.is_empty() {
            let mut kept = Vec::new();
            let _ = a.parse_nested_meta(|m| {
                if let Some(id) = m.path.segments.last() {
                    let s = id.ident.to_string();
                    if self.keep_derives.contains(&s) {
                        kept.push(s);
                    }
                }
                Ok(())
            });
            if !kept.is_empty() {
                self.edits.push(Edit {
                    start: r.start,
                    end: r.end,
                    text: format!("#[derive({})]\n", kept.join(", ")),
                    rule: "N2",
                });
                return;
            }
        }
        self.edits.push(Edit { start: r.start, end: r.end, text: String::new(), rule: "N2" });
    }
}

// ---------------------------------------------------------------- N10 thiserror `#[from]`

/// `enum E { V(#[from] T), .. }` (thiserror) means `impl From<T> for E { fn from(t) -> E::V(t) }`.
/// The derive is dropped by N2, so the conversion it generates is re-created here, mechanically.
fn from_impls(f: &syn::File, src: &str) -> (String, usize) {
    let mut out = String::new();
    let mut n = 0;
    for it in &f.items {
        if let syn::Item::Enum(e) = it {
            if !e.generics.params.is_empty() {
                continue;
            }
            for v in &e.variants {
                if let syn::Fields::Unnamed(u) = &v.fields {
                    if u.unnamed.len() == 1 {
                        let fld = &u.unnamed[0];
                        if fld.attrs.iter().any(|a| a.path().is_ident("from")) {
                            let ty = &src[range(fld.ty.span())];
                            let (en, vn) = (&e.ident, &v.ident);
                            out.push_str(&format!(
                                "\nimpl vstd::std_specs::convert::FromSpecImpl<{ty}> for {en} {{\n    open spec fn obeys_from_spec() -> bool {{ true }}\n    open spec fn from_spec(t: {ty}) -> Self {{ {en}::{vn}(t) }}\n}}\nimpl From<{ty}> for {en} {{ fn from(t: {ty}) -> (r: Self) {{ {en}::{vn}(t) }} }}\n"
                            ));
                            n += 1;
                        }
                    }
                }
            }
        }
    }
    (out, n)
}

// ---------------------------------------------------------------- N2b tracing

fn is_tracing_macro(m: &syn::Macro) -> bool {
    path_starts_with(&m.path, "tracing")
}

/// root of a method-call / field chain
fn chain_root(e: &syn::Expr) -> &syn::Expr {
    match e {
        syn::Expr::MethodCall(m) => chain_root(&m.receiver),
        syn::Expr::Field(f) => chain_root(&f.base),
        syn::Expr::Paren(p) => chain_root(&p.expr),
        syn::Expr::Reference(r) => chain_root(&r.expr),
        _ => e,
    }
}

fn is_span_current(e: &syn::Expr) -> bool {
    if let syn::Expr::Call(c) = e {
        if let syn::Expr::Path(p) = &*c.func {
            let segs: Vec<String> = p.path.segments.iter().map(|s| s.ident.to_string()).collect();
            let n = segs.len();
            return n >= 2 && segs[n - 2] == "Span" && segs[n - 1] == "current";
        }
    }
    false
}

fn is_log_expr(e: &syn::Expr) -> bool {
    let root = chain_root(e);
    match root {
        syn::Expr::Macro(m) => is_tracing_macro(&m.mac),
        _ => is_span_current(root) && !std::ptr::eq(root, e),
    }
}

struct TracingPass {
    edits: Vec<Edit>,
    /// locals bound to a tracing span (`let span = tracing::info_span!(..)`): statements that only use them go too
    span_vars: Vec<String>,
}
fn root_is_var(e: &syn::Expr, vars: &[String]) -> bool {
    let root = chain_root(e);
    if std::ptr::eq(root, e) {
        return false;
    }
    if let syn::Expr::Path(p) = root {
        if let Some(id) = p.path.get_ident() {
            return vars.iter().any(|v| id == v);
        }
    }
    false
}
impl<'ast> Visit<'ast> for TracingPass {
    fn visit_stmt(&mut self, s: &'ast syn::Stmt) {
        let r = range(s.span());
        match s {
            syn::Stmt::Macro(m) if is_tracing_macro(&m.mac) => {
                self.edits.push(Edit { start: r.start, end: r.end, text: String::new(), rule: "N2" });
                return;
            }
            syn::Stmt::Expr(e, semi) if is_log_expr(e) => {
                let end = semi.map(|t| range(t.span()).end).unwrap_or(r.end);
                self.edits.push(Edit { start: r.start, end, text: String::new(), rule: "N2" });
                return;
            }
            syn::Stmt::Expr(e, semi) if root_is_var(e, &self.span_vars) => {
                let end = semi.map(|t| range(t.span()).end).unwrap_or(r.end);
                self.edits.push(Edit { start: r.start, end, text: String::new(), rule: "N2" });
                return;
            }
            syn::Stmt::Local(l) => {
                if let Some(init) = &l.init {
                    let is_macro_init = matches!(chain_root(&init.expr), syn::Expr::Macro(m) if is_tracing_macro(&m.mac));
                    if is_log_expr(&init.expr) || is_macro_init || root_is_var(&init.expr, &self.span_vars) {
                        if is_macro_init {
                            if let syn::Pat::Ident(pi) = &l.pat {
                                self.span_vars.push(pi.ident.to_string());
                            }
                        }
                        self.edits.push(Edit { start: r.start, end: r.end, text: String::new(), rule: "N2" });
                        return;
                    }
                }
            }
            _ => {}
        }
        visit::visit_stmt(self, s);
    }
    fn visit_expr(&mut self, e: &'ast syn::Expr) {
        if let syn::Expr::Macro(m) = e {
            if is_tracing_macro(&m.mac) {
                let r = range(e.span());
                self.edits.push(Edit { start: r.start, end: r.end, text: "()".into(), rule: "N2" });
                return;
            }
        }
        visit::visit_expr(self, e);
    }
}

// ---------------------------------------------------------------- N1 async / await

struct AsyncPass {
    edits: Vec<Edit>,
}
impl<'ast> Visit<'ast> for AsyncPass {
    fn visit_signature(&mut self, s: &'ast syn::Signature) {
        if let Some(a) = &s.asyncness {
            let r = range(a.span());
            self.edits.push(Edit { start: r.start, end: r.end, text: String::new(), rule: "N1" });
        }
        visit::visit_signature(self, s);
    }
    fn visit_expr_await(&mut self, a: &'ast syn::ExprAwait) {
        let s = range(a.dot_token.span()).start;
        let e = range(a.await_token.span()).end;
        self.edits.push(Edit { start: s, end: e, text: String::new(), rule: "N1" });
        visit::visit_expr(self, &a.base);
    }
}

// ---------------------------------------------------------------- N4 let-chains

fn flatten_and<'a>(e: &'a syn::Expr, out: &mut Vec<&'a syn::Expr>) {
    if let syn::Expr::Binary(b) = e {
        if matches!(b.op, syn::BinOp::And(_)) {
            flatten_and(&b.left, out);
            flatten_and(&b.right, out);
            return;
        }
    }
    out.push(e);
}

struct LetChainPass<'s> {
    src: &'s str,
    edits: Vec<Edit>,
}
impl<'ast, 's> Visit<'ast> for LetChainPass<'s> {
    fn visit_expr_if(&mut self, i: &'ast syn::ExprIf) {
        let mut parts = Vec::new();
        flatten_and(&i.cond, &mut parts);
        let has_let = parts.iter().any(|p| matches!(p, syn::Expr::Let(_)));
        if parts.len() >= 2 && has_let {
            let then_txt = &self.src[range(i.then_branch.span())];
            let else_txt = i.else_branch.as_ref().map(|(_, e)| {
                let t = &self.src[range(e.span())];
                // `else if ..` must be wrapped to be duplicated as a block
                if matches!(**e, syn::Expr::Block(_)) { t.to_string() } else { format!("{{ {t} }}") }
            });
            let mut text = then_txt.to_string();
            for (k, p) in parts.iter().enumerate().rev() {
                let c = &self.src[range(p.span())];
                let inner = if k == parts.len() - 1 { text.clone() } else { format!("{{ {text} }}") };
                text = match &else_txt {
                    Some(e) => format!("if {c} {inner} else {e}"),
                    None => format!("if {c} {inner}"),
                };
            }
            let r = range(i.span());
            self.edits.push(Edit { start: r.start, end: r.end, text, rule: "N4" });
            return;
        }
        visit::visit_expr_if(self, i);
    }
}

// ---------------------------------------------------------------- N3 or-patterns

struct BindFinder {
    binds: bool,
}
impl<'ast> Visit<'ast> for BindFinder {
    fn visit_pat_ident(&mut self, p: &'ast syn::PatIdent) {
        // an uppercase identifier pattern is a unit variant / constant in this code base
        let s = p.ident.to_string();
        if s.chars().next().map(|c| c.is_lowercase() || c == '_').unwrap_or(false) {
            self.binds = true;
        }
        visit::visit_pat_ident(self, p);
    }
}

struct OrPatPass<'s> {
    src: &'s str,
    edits: Vec<Edit>,
}
impl<'ast, 's> Visit<'ast> for OrPatPass<'s> {
    fn visit_arm(&mut self, a: &'ast syn::Arm) {
        if let syn::Pat::Or(or) = &a.pat {
            let mut bf = BindFinder { binds: false };
            bf.visit_pat(&a.pat);
            if bf.binds && or.cases.len() >= 2 {
                let guard = a
                    .guard
                    .as_ref()
                    .map(|(if_tok, g)| {
                        let s = range(if_tok.span()).start;
                        let e = range(g.span()).end;
                        format!(" {}", &self.src[s..e])
                    })
                    .unwrap_or_default();
                let body = &self.src[range(a.body.span())];
                let mut text = String::new();
                for (k, c) in or.cases.iter().enumerate() {
                    let p = &self.src[range(c.span())];
                    if k > 0 {
                        text.push_str("\n            ");
                    }
                    text.push_str(&format!("{p}{guard} => {body},"));
                }
                let r = range(a.span());
                let start = a.attrs.first().map(|x| range(x.span()).start).unwrap_or(range(a.pat.span()).start);
                let start = or.leading_vert.map(|v| range(v.span()).start).unwrap_or(start).min(start);
                let end = a.comma.map(|c| range(c.span()).end).unwrap_or(r.end.max(range(a.body.span()).end));
                self.edits.push(Edit { start, end, text, rule: "N3" });
                return;
            }
        }
        visit::visit_arm(self, a);
    }
}

// ---------------------------------------------------------------- N11 inner immutable statics

/// `static NAME: T = <expr>;` declared *inside* a function body (Verus: "internal item statements" unsupported)
/// is hoisted in front of the item as `const NAME: T = <expr>;` — an immutable static read by value is a constant.
struct InnerStaticPass<'s> {
    src: &'s str,
    edits: Vec<Edit>,
    hoisted: String,
}
impl<'ast, 's> Visit<'ast> for InnerStaticPass<'s> {
    fn visit_stmt(&mut self, st: &'ast syn::Stmt) {
        if let syn::Stmt::Item(syn::Item::Static(it)) = st {
            if matches!(it.mutability, syn::StaticMutability::None) {
                let r = range(st.span());
                let ty = &self.src[range(it.ty.span())];
                let ex = &self.src[range(it.expr.span())];
                self.hoisted.push_str(&format!("pub const {}: {ty} = {ex};\n", it.ident));
                self.edits.push(Edit { start: r.start, end: r.end, text: String::new(), rule: "N11" });
                return;
            }
        }
        visit::visit_stmt(self, st);
    }
}

// ---------------------------------------------------------------- N12 break-with-value

/// `let PAT = loop { .. break V; .. };`  ->  `let tmp; loop { .. { tmp = V; break; } .. }; let PAT = tmp;`
/// (Verus: "complex break expressions" unsupported).  Deferred initialisation; same control flow.
struct BreakFinder {
    breaks: Vec<(std::ops::Range<usize>, std::ops::Range<usize>)>, // (whole break expr, value expr)
}
impl<'ast> Visit<'ast> for BreakFinder {
    fn visit_expr_break(&mut self, b: &'ast syn::ExprBreak) {
        if let (None, Some(v)) = (&b.label, &b.expr) {
            self.breaks.push((range(b.span()), range(v.span())));
        }
    }
    fn visit_expr_loop(&mut self, _: &'ast syn::ExprLoop) {}
    fn visit_expr_while(&mut self, _: &'ast syn::ExprWhile) {}
    fn visit_expr_for_loop(&mut self, _: &'ast syn::ExprForLoop) {}
    fn visit_expr_closure(&mut self, _: &'ast syn::ExprClosure) {}
}
struct BreakValuePass<'s> {
    src: &'s str,
    edits: Vec<Edit>,
    n: usize,
}
impl<'ast, 's> Visit<'ast> for BreakValuePass<'s> {
    fn visit_local(&mut self, l: &'ast syn::Local) {
        if let Some(init) = &l.init {
            if let syn::Expr::Loop(lp) = &*init.expr {
                if lp.label.is_none() && init.diverge.is_none() {
                    let mut bf = BreakFinder { breaks: vec![] };
                    visit::visit_block(&mut bf, &lp.body);
                    if !bf.breaks.is_empty() {
                        let tmp = format!("verif_loop_value_{}", self.n);
                        self.n += 1;
                        let pat = &self.src[range(l.pat.span())];
                        let ls = range(l.span());
                        let loop_s = range(lp.span()).start;
                        // `let PAT = ` -> `let tmp; `
                        self.edits.push(Edit { start: ls.start, end: loop_s, text: format!("let {tmp};\n        "), rule: "N12" });
                        for (whole, val) in &bf.breaks {
                            let v = &self.src[val.clone()];
                            self.edits.push(Edit { start: whole.start, end: whole.end, text: format!("{{ {tmp} = {v}; break; }}"), rule: "N12" });
                        }
                        // after the statement's `;`
                        self.edits.push(Edit { start: ls.end, end: ls.end, text: format!("\n        let {pat} = {tmp};"), rule: "N12" });
                        return;
                    }
                }
            }
        }
        visit::visit_local(self, l);
    }
}

// ---------------------------------------------------------------- N13 visibility

/// Every extracted item, field and inherent method is made `pub`.  Visibility has no run-time meaning; in the
/// single-file crate it only restricts which spec functions a contract may mention.
struct VisPass {
    edits: Vec<Edit>,
}
impl VisPass {
    fn fix(&mut self, vis: &syn::Visibility, insert_at: usize) {
        match vis {
            syn::Visibility::Public(_) => {}
            syn::Visibility::Restricted(r) => {
                let rg = range(r.span());
                self.edits.push(Edit { start: rg.start, end: rg.end, text: "pub".into(), rule: "N13" });
            }
            syn::Visibility::Inherited => {
                self.edits.push(Edit { start: insert_at, end: insert_at, text: "pub ".into(), rule: "N13" });
            }
        }
    }
}
impl<'ast> Visit<'ast> for VisPass {
    fn visit_item_struct(&mut self, i: &'ast syn::ItemStruct) {
        self.fix(&i.vis, range(i.struct_token.span()).start);
        for f in i.fields.iter() {
            let at = match &f.ident { Some(id) => range(id.span()).start, None => range(f.ty.span()).start };
            self.fix(&f.vis, at);
        }
    }
    fn visit_item_enum(&mut self, i: &'ast syn::ItemEnum) {
        self.fix(&i.vis, range(i.enum_token.span()).start);
    }
    fn visit_item_type(&mut self, i: &'ast syn::ItemType) {
        self.fix(&i.vis, range(i.type_token.span()).start);
    }
    fn visit_item_const(&mut self, i: &'ast syn::ItemConst) {
        self.fix(&i.vis, range(i.const_token.span()).start);
    }
    fn visit_item_static(&mut self, i: &'ast syn::ItemStatic) {
        self.fix(&i.vis, range(i.static_token.span()).start);
    }
    fn visit_item_fn(&mut self, i: &'ast syn::ItemFn) {
        self.fix(&i.vis, range(i.sig.span()).start);
    }
    fn visit_item_impl(&mut self, i: &'ast syn::ItemImpl) {
        if i.trait_.is_some() {
            return;
        }
        for it in &i.items {
            if let syn::ImplItem::Fn(f) = it {
                self.fix(&f.vis, range(f.sig.span()).start);
            }
        }
    }
}

// ---------------------------------------------------------------- N14 deliberate aborts

/// Opt-in per item (`"abort_on_panic": true`): an explicit `panic!(..)` is a deliberate abort, replaced by the
/// prelude's `verif_abort() -> !` (ensures false).  Exact for partial correctness; what is dropped is the
/// obligation that the abort is unreachable.  `assert!`, `unreachable!`, `unwrap`, `expect` stay obligations.
struct AbortPass {
    edits: Vec<Edit>,
}
impl<'ast> Visit<'ast> for AbortPass {
    fn visit_stmt(&mut self, s: &'ast syn::Stmt) {
        if let syn::Stmt::Macro(m) = s {
            if m.mac.path.is_ident("panic") {
                let r = range(m.mac.span());
                self.edits.push(Edit { start: r.start, end: r.end, text: "verif_abort()".into(), rule: "N14" });
                return;
            }
        }
        visit::visit_stmt(self, s);
    }
    fn visit_expr(&mut self, e: &'ast syn::Expr) {
        if let syn::Expr::Macro(m) = e {
            if m.mac.path.is_ident("panic") {
                let r = range(e.span());
                self.edits.push(Edit { start: r.start, end: r.end, text: "verif_abort()".into(), rule: "N14" });
                return;
            }
        }
        visit::visit_expr(self, e);
    }
}

// ---------------------------------------------------------------- N15 `?` on Result

/// Opt-in per item (`"desugar_try": true`): `E?`  ->  `match E { Ok(v) => v, Err(e) => return Err(From::from(e)) }`,
/// the language-defined meaning of `?` on a `Result` (vstd's spec of `from_residual` loses the converted error
/// value when the error types differ).  Applied to an `Option`, the result does not type-check (exit 2).
struct TryPass<'s> {
    src: &'s str,
    edits: Vec<Edit>,
}
impl<'ast, 's> Visit<'ast> for TryPass<'s> {
    fn visit_expr_try(&mut self, t: &'ast syn::ExprTry) {
        let inner = &self.src[range(t.expr.span())];
        let r = range(t.span());
        self.edits.push(Edit {
            start: r.start,
            end: r.end,
            text: format!("(match {inner} {{ Ok(verif_ok) => verif_ok, Err(verif_err) => return Err(From::from(verif_err)) }})"),
            rule: "N15",
        });
    }
}

// ---------------------------------------------------------------- N18 `mut self`

/// `fn f(mut self, ..) { body }`  ->  `fn f(self, ..) { let mut verif_self = self; body[self := verif_self] }`
/// (Verus: "mut self" unsupported).  A by-value receiver rebound to a mutable local: same moves, same drops.
struct MutSelfPass {
    edits: Vec<Edit>,
}
struct SelfIdents {
    hits: Vec<std::ops::Range<usize>>,
}
impl<'ast> Visit<'ast> for SelfIdents {
    fn visit_ident(&mut self, i: &'ast proc_macro2::Ident) {
        if i == "self" {
            self.hits.push(range(i.span()));
        }
    }
}
impl MutSelfPass {
    fn handle(&mut self, sig: &syn::Signature, block: &syn::Block) {
        if let Some(syn::FnArg::Receiver(r)) = sig.inputs.first() {
            if r.reference.is_none() && r.mutability.is_some() {
                let m = range(r.mutability.unwrap().span());
                let s = range(r.self_token.span());
                self.edits.push(Edit { start: m.start, end: s.start, text: String::new(), rule: "N18" });
                let b = range(block.brace_token.span.open()).end;
                self.edits.push(Edit { start: b, end: b, text: "\n        let mut verif_self = self;".into(), rule: "N18" });
                let mut si = SelfIdents { hits: vec![] };
                si.visit_block(block);
                for h in si.hits {
                    self.edits.push(Edit { start: h.start, end: h.end, text: "verif_self".into(), rule: "N18" });
                }
            }
        }
    }
}
impl<'ast> Visit<'ast> for MutSelfPass {
    fn visit_item_fn(&mut self, f: &'ast syn::ItemFn) { self.handle(&f.sig, &f.block); }
    fn visit_impl_item_fn(&mut self, f: &'ast syn::ImplItemFn) { self.handle(&f.sig, &f.block); }
}

// ---------------------------------------------------------------- N9 (automatic) constructor values

/// `.map_err(Ctor)` / `.map(Ctor)` ... where the argument is a path to a tuple-struct or enum-variant constructor
/// (last segment capitalised)  ->  `|verif_e| Ctor(verif_e)`.  Pure eta-expansion (Verus: "using a datatype constructor
/// as a function value" is unsupported).  The closure is recognised at splice time by its parameter name and gets the
/// contract `ensures equal(verif_r, Ctor(verif_e))`; it does not take part in the `@closure k` numbering.
struct CtorValuePass {
    edits: Vec<Edit>,
}
const CTOR_VALUE_METHODS: [&str; 6] = ["map", "map_err", "and_then", "or_else", "unwrap_or_else", "map_or_else"];
impl<'ast> Visit<'ast> for CtorValuePass {
    fn visit_expr_method_call(&mut self, m: &'ast syn::ExprMethodCall) {
        if CTOR_VALUE_METHODS.contains(&m.method.to_string().as_str()) && m.args.len() == 1 {
            if let syn::Expr::Path(p) = &m.args[0] {
                if p.qself.is_none() {
                    let last = p.path.segments.last().map(|s| s.ident.to_string()).unwrap_or_default();
                    let generic = p.path.segments.iter().any(|s| !matches!(s.arguments, syn::PathArguments::None));
                    if last.chars().next().is_some_and(|c| c.is_uppercase()) && !generic && last.chars().any(|c| c.is_lowercase()) {
                        let r = range(p.span());
                        self.edits.push(Edit { start: r.start, end: r.start, text: "|verif_e| ".into(), rule: "N9.auto" });
                        self.edits.push(Edit { start: r.end, end: r.end, text: "(verif_e)".into(), rule: "N9.auto" });
                    }
                }
            }
        }
        visit::visit_expr_method_call(self, m);
    }
}

// ---------------------------------------------------------------- N19 `|_|`

/// `|_| e`  ->  `|_verif_unused_k| e`  (Verus: closure parameters must be variables).  A named, unused binding:
/// the value is dropped at the end of the closure body instead of at once, which only differs for `Drop` types
/// with observable effects — closure parameters ignored with `_` in the code under contract are references or `Copy`.
struct WildClosureParamPass {
    edits: Vec<Edit>,
}
impl<'ast> Visit<'ast> for WildClosureParamPass {
    fn visit_expr_closure(&mut self, c: &'ast syn::ExprClosure) {
        for inp in c.inputs.iter() {
            let pat = match inp { syn::Pat::Type(t) => &*t.pat, other => other };
            if let syn::Pat::Wild(w) = pat {
                let r = range(w.underscore_token.span());
                let k = self.edits.len();
                self.edits.push(Edit { start: r.start, end: r.end, text: format!("_verif_unused_{k}"), rule: "N19" });
            }
        }
        visit::visit_expr_closure(self, c);
    }
}

// ---------------------------------------------------------------- N20 `|(a, b)| body`

/// `|(a, b), c| body`  ->  `|verif_p0, c| { let (a, b) = verif_p0; body }`  (Verus: closure parameters must be variables).
/// The irrefutable pattern is bound by a `let` at the top of the closure body: same bindings, same moves.
struct PatClosureParamPass<'s> {
    src: &'s str,
    edits: Vec<Edit>,
}
impl<'ast, 's> Visit<'ast> for PatClosureParamPass<'s> {
    fn visit_expr_closure(&mut self, c: &'ast syn::ExprClosure) {
        let mut lets = String::new();
        for (k, inp) in c.inputs.iter().enumerate() {
            let (pat, ty) = match inp { syn::Pat::Type(t) => (&*t.pat, Some(&*t.ty)), other => (other, None) };
            if matches!(pat, syn::Pat::Tuple(_) | syn::Pat::TupleStruct(_) | syn::Pat::Struct(_) | syn::Pat::Reference(_)) {
                let r = range(inp.span());
                let name = format!("verif_p{k}");
                let pat_text = &self.src[range(pat.span())];
                let new_param = match ty { Some(t) => format!("{name}: {}", &self.src[range(t.span())]), None => name.clone() };
                self.edits.push(Edit { start: r.start, end: r.end, text: new_param, rule: "N20" });
                lets.push_str(&format!("let {pat_text} = {name}; "));
            }
        }
        if !lets.is_empty() {
            let br = range(c.body.span());
            if let syn::Expr::Block(b) = &*c.body {
                let o = range(b.block.brace_token.span.open()).end;
                self.edits.push(Edit { start: o, end: o, text: format!(" {lets}"), rule: "N20" });
            } else {
                self.edits.push(Edit { start: br.start, end: br.start, text: format!("{{ {lets}"), rule: "N20" });
                self.edits.push(Edit { start: br.end, end: br.end, text: " }".into(), rule: "N20" });
            }
        } else {
            visit::visit_expr_closure(self, c);
        }
    }
}

// ---------------------------------------------------------------- N8 format!

struct FormatPass<'s> {
    src: &'s str,
    edits: Vec<Edit>,
}
impl<'s> FormatPass<'s> {
    fn handle(&mut self, m: &syn::Macro, whole: std::ops::Range<usize>) -> bool {
        if !m.path.is_ident("format") {
            return false;
        }
        let mut n = 0usize;
        let mut depth_tokens = 0usize;
        for t in m.tokens.clone() {
            depth_tokens += 1;
            if let proc_macro2::TokenTree::Punct(p) = &t {
                if p.as_char() == ',' {
                    n += 1;
                }
            }
        }
        // trailing comma does not add an argument
        if let Some(proc_macro2::TokenTree::Punct(p)) = m.tokens.clone().into_iter().last() {
            if p.as_char() == ',' {
                n -= 1;
            }
        }
        let _ = depth_tokens;
        let inner = range(m.delimiter.span().join());
        let args = &self.src[inner.start + 1..inner.end - 1];
        self.edits.push(Edit {
            start: whole.start,
            end: whole.end,
            text: format!("verif_format_{n}({args})"),
            rule: "N8",
        });
        true
    }
}
impl<'ast, 's> Visit<'ast> for FormatPass<'s> {
    fn visit_expr(&mut self, e: &'ast syn::Expr) {
        if let syn::Expr::Macro(m) = e {
            if self.handle(&m.mac, range(e.span())) {
                return;
            }
        }
        visit::visit_expr(self, e);
    }
}

// ---------------------------------------------------------------- N21 for -> while let
struct ForToWhilePass<'s> {
    src: &'s str,
    edits: Vec<Edit>,
    k: usize,
}
impl<'ast, 's> Visit<'ast> for ForToWhilePass<'s> {
    fn visit_expr_for_loop(&mut self, l: &'ast syn::ExprForLoop) {
        let start = match &l.label { Some(lb) => range(lb.span()).start, None => range(l.for_token.span()).start };
        let body_open = range(l.body.brace_token.span.open()).start;
        let body_close = range(l.body.brace_token.span.close()).end;
        let pat = &self.src[range(l.pat.span())];
        // `for &x in ..` (Verus has no reference patterns): bind the reference, copy out of it at the top of the body
        let mut deref_bind = String::new();
        let pat_owned;
        let pat = if let syn::Pat::Reference(rp) = &*l.pat {
            if let syn::Pat::Ident(pi) = &*rp.pat {
                pat_owned = format!("verif_ref_{}", self.k);
                deref_bind = format!(" let {} = *{};", pi.ident, pat_owned);
                pat_owned.as_str()
            } else { pat }
        } else { pat };
        let it = &self.src[range(l.expr.span())];
        // an array literal iterated by value (no vstd spec for core::array::IntoIter): its elements, in order, through a stand-in
        let arr;
        let it: String = if let syn::Expr::Array(a) = &*l.expr {
            arr = format!("verif_into_iter(vec![{}])", a.elems.iter().map(|e| &self.src[range(e.span())]).collect::<Vec<_>>().join(", "));
            arr
        } else {
            // `for` calls IntoIterator::into_iter on whatever it is given: the stand-in trait `VerifIntoIter` of the prelude says
            // what that yields for the collection types in use (identity on an iterator)
            format!("verif_into_iter({it})")
        };
        let it = it.as_str();
        let label = match &l.label { Some(lb) => format!("{} ", &self.src[range(lb.span())]), None => String::new() };
        let k = self.k;
        self.k += 1;
        self.edits.push(Edit { start, end: body_open, text: format!("{{ let mut verif_it_{k} = {it}; {label}while let Some({pat}) = verif_it_{k}.next() "), rule: "N21" });
        self.edits.push(Edit { start: body_close, end: body_close, text: " }".into(), rule: "N21" });
        if !deref_bind.is_empty() {
            let after_open = range(l.body.brace_token.span.open()).end;
            self.edits.push(Edit { start: after_open, end: after_open, text: deref_bind, rule: "N21" });
        }
        visit::visit_expr_for_loop(self, l);
    }
}

// ---------------------------------------------------------------- driver

pub fn normalize(
    text0: &str,
    spec: &ItemSpec,
    global_subst: &[(String, String, String)],
    keep_derives: &[String],
    fired: &mut BTreeMap<String, usize>,
) -> Result<(String, String, String), Lost> {
    let skip = |r: &str| spec.skip_rules.iter().any(|s| s == r);
    let mut text = text0.to_string();
    let mut suffix = String::new();
    if spec.lock_scope {
        // N6 side condition (syntactic): one critical section per method
        let f = parse(&text, "extraction")?;
        let mut ff = FnFinder { fns: vec![] };
        ff.visit_file(&f);
        let Some(fr) = ff.fns.first() else { return Err(Lost("lock-scope: not a function".into())) };
        // items (`const`, `use`, nested fn …) declare, they do not execute: the first EXECUTED statement must take the lock
        let first = fr.block.stmts.iter().find(|s| !matches!(s, syn::Stmt::Item(_))).map(|s| text[range(s.span())].split_whitespace().collect::<Vec<_>>().join(" "));
        if first.as_deref() != Some("let mut guard = self.0.lock().await;") {
            return Err(Lost("anchor lost: lock-scope shape — the method no longer begins with `let mut guard = self.0.lock().await;`".into()));
        }
        struct AwaitCount(usize);
        impl<'ast> Visit<'ast> for AwaitCount {
            fn visit_expr_await(&mut self, a: &'ast syn::ExprAwait) { self.0 += 1; visit::visit_expr_await(self, a); }
        }
        let mut ac = AwaitCount(0);
        ac.visit_block(fr.block);
        if ac.0 != 1 {
            return Err(Lost(format!("anchor lost: lock-scope shape — {} `.await` points in a method that must be one critical section", ac.0)));
        }
        // the guard must not be dropped or re-assigned early
        if text.contains("drop(guard)") {
            return Err(Lost("anchor lost: lock-scope shape — the guard is dropped before the end of the method".into()));
        }
        bump(fired, "N6.lock-scope-checked", 1);
    }
    let mut prefix = String::new();

    // N2a
    {
        let f = parse(&text, "extraction")?;
        let (mut froms, nfrom) = if skip("N10") { (String::new(), 0) } else { from_impls(&f, &text) };
        // N17: a kept `derive(PartialEq)` is structural equality; say so to Verus
        if !skip("N17") && keep_derives.iter().any(|d| d == "PartialEq") {
            for it in &f.items {
                let (ident, generics, attrs) = match it {
                    syn::Item::Struct(x) => (&x.ident, &x.generics, &x.attrs),
                    syn::Item::Enum(x) => (&x.ident, &x.generics, &x.attrs),
                    _ => continue,
                };
                let derives_eq = attrs.iter().any(|a| {
                    let mut hit = false;
                    if a.path().is_ident("derive") {
                        let _ = a.parse_nested_meta(|m| {
                            if m.path.is_ident("PartialEq") {
                                hit = true;
                            }
                            Ok(())
                        });
                    }
                    hit
                });
                if derives_eq && generics.params.is_empty() {
                    froms.push_str(&format!(
                        "\nimpl vstd::std_specs::cmp::PartialEqSpecImpl for {ident} {{\n    open spec fn obeys_eq_spec() -> bool {{ true }}\n    open spec fn eq_spec(&self, other: &{ident}) -> bool {{ *self == *other }}\n}}\n"
                    ));
                    bump(fired, "N17.derived-eq-is-structural", 1);
                }
            }
        }
        let mut p = AttrPass { src: &text, edits: vec![], keep_derives, err: None };
        p.visit_file(&f);
        if let Some(e) = p.err {
            return Err(Lost(e));
        }
        bump(fired, "N2.attrs", p.edits.len());
        text = apply_edits(&text, p.edits);
        bump(fired, "N10.from-impls", nfrom);
        suffix = froms;
    }
    // N2b
    if !skip("N2") {
        let f = parse(&text, "N2a")?;
        let mut p = TracingPass { edits: vec![], span_vars: vec![] };
        p.visit_file(&f);
        bump(fired, "N2.tracing", p.edits.len());
        text = apply_edits(&text, p.edits);
    }
    // N1
    if !skip("N1") {
        let f = parse(&text, "N2")?;
        let mut p = AsyncPass { edits: vec![] };
        p.visit_file(&f);
        bump(fired, "N1", p.edits.len());
        text = apply_edits(&text, p.edits);
    }
    // N4
    if !skip("N4") {
        for _ in 0..32 {
            let f = parse(&text, "N1")?;
            let mut p = LetChainPass { src: &text, edits: vec![] };
            p.visit_file(&f);
            if p.edits.is_empty() {
                break;
            }
            bump(fired, "N4", p.edits.len());
            text = apply_edits(&text, p.edits);
        }
    }
    // N3
    if !skip("N3") {
        for _ in 0..32 {
            let f = parse(&text, "N4")?;
            let mut p = OrPatPass { src: &text, edits: vec![] };
            p.visit_file(&f);
            if p.edits.is_empty() {
                break;
            }
            bump(fired, "N3", p.edits.len());
            text = apply_edits(&text, p.edits);
        }
    }
    // N11
    if !skip("N11") {
        let f = parse(&text, "N3")?;
        let mut p = InnerStaticPass { src: &text, edits: vec![], hoisted: String::new() };
        p.visit_file(&f);
        if !p.edits.is_empty() {
            bump(fired, "N11", p.edits.len());
            prefix = p.hoisted.clone();
            text = apply_edits(&text, p.edits);
        }
    }
    // N12
    if !skip("N12") {
        let f = parse(&text, "N11")?;
        let mut p = BreakValuePass { src: &text, edits: vec![], n: 0 };
        p.visit_file(&f);
        if !p.edits.is_empty() {
            bump(fired, "N12", 1);
            text = apply_edits_all(&text, p.edits);
        }
    }
    // N13
    if !skip("N13") {
        let f = parse(&text, "N12")?;
        let mut p = VisPass { edits: vec![] };
        p.visit_file(&f);
        bump(fired, "N13", p.edits.len());
        text = apply_edits_all(&text, p.edits);
    }
    // N18
    if !skip("N18") {
        let f = parse(&text, "N13")?;
        let mut p = MutSelfPass { edits: vec![] };
        p.visit_file(&f);
        if !p.edits.is_empty() {
            bump(fired, "N18", 1);
            text = apply_edits_all(&text, p.edits);
        }
    }
    // N20 (outermost closures first; nested ones on the next round)
    if !skip("N20") {
        for _ in 0..8 {
            let f = parse(&text, "N18")?;
            let mut p = PatClosureParamPass { src: &text, edits: vec![] };
            p.visit_file(&f);
            if p.edits.is_empty() { break; }
            bump(fired, "N20", 1);
            text = apply_zero_width_safe(&text, p.edits);
        }
    }
    // N9 (automatic)
    if !skip("N9.auto") {
        let f = parse(&text, "N18")?;
        let mut p = CtorValuePass { edits: vec![] };
        p.visit_file(&f);
        if !p.edits.is_empty() {
            bump(fired, "N9.auto", p.edits.len() / 2);
            text = apply_zero_width_safe(&text, p.edits);
        }
    }
    // N19
    if !skip("N19") {
        let f = parse(&text, "N18")?;
        let mut p = WildClosureParamPass { edits: vec![] };
        p.visit_file(&f);
        if !p.edits.is_empty() {
            bump(fired, "N19", p.edits.len());
            text = apply_edits_all(&text, p.edits);
        }
    }
    // N15
    if spec.desugar_try {
        for _ in 0..16 {
            let f = parse(&text, "N13")?;
            let mut p = TryPass { src: &text, edits: vec![] };
            p.visit_file(&f);
            if p.edits.is_empty() {
                break;
            }
            bump(fired, "N15", p.edits.len());
            text = apply_edits(&text, p.edits);
        }
    }
    // N21
    if spec.for_to_while {
        let f = parse(&text, "N15")?;
        let mut p = ForToWhilePass { src: &text, edits: vec![], k: 0 };
        p.visit_file(&f);
        bump(fired, "N21", p.edits.len() / 2);
        text = apply_zero_width_safe(&text, p.edits);
    }
    // N14
    if spec.abort_on_panic {
        let f = parse(&text, "N13")?;
        let mut p = AbortPass { edits: vec![] };
        p.visit_file(&f);
        bump(fired, "N14", p.edits.len());
        text = apply_edits(&text, p.edits);
    }
    // N8
    if !skip("N8") {
        for _ in 0..8 {
            let f = parse(&text, "N3")?;
            let mut p = FormatPass { src: &text, edits: vec![] };
            p.visit_file(&f);
            if p.edits.is_empty() {
                break;
            }
            bump(fired, "N8", p.edits.len());
            text = apply_edits(&text, p.edits);
        }
    }
    // explicit substitutions (N6, N6', N7, N9 ...), logged under their rule name
    for (from, to, rule) in &spec.subst {
        let n = text.matches(from.as_str()).count();
        if n == 0 {
            if spec.subst_optional { continue; }
            return Err(Lost(format!("anchor lost: substitution text `{from}` ({rule}) not found")));
        }
        text = text.replace(from.as_str(), to);
        suffix = suffix.replace(from.as_str(), to);
        bump(fired, &format!("{rule}.subst"), n);
    }
    for (from, to, rule) in global_subst {
        let n = text.matches(from.as_str()).count();
        if n > 0 {
            text = text.replace(from.as_str(), to);
            suffix = suffix.replace(from.as_str(), to);
            bump(fired, &format!("{rule}.subst"), n);
        }
    }
    parse(&text, "substitutions")?;
    Ok((text, prefix, suffix))
}

// ---------------------------------------------------------------- splice

pub struct Spliced {
    pub text: String,
    pub obligations: Vec<serde_json::Value>,
    pub fn_name: Option<String>,
    pub is_fn: bool,
}

struct BodyScan<'ast> {
    guards: usize,
    for_exprs: Vec<Option<usize>>,            // byte offset of the iterable of a `for` loop (None for while/loop)
    loops: Vec<usize>,                       // byte offset of the body's `{`
    closures: Vec<&'ast syn::ExprClosure>,
    auto_closures: Vec<&'ast syn::ExprClosure>,   // eta-expanded constructors (rule N9.auto): contract generated here
    stmts: Vec<std::ops::Range<usize>>,
}
impl<'ast> Visit<'ast> for BodyScan<'ast> {
    fn visit_expr_for_loop(&mut self, l: &'ast syn::ExprForLoop) {
        self.for_exprs.push(Some(range(l.expr.span()).start));
        self.loops.push(range(l.body.brace_token.span.open()).start);
        visit::visit_expr_for_loop(self, l);
    }
    fn visit_expr_while(&mut self, l: &'ast syn::ExprWhile) {
        self.for_exprs.push(None);
        self.loops.push(range(l.body.brace_token.span.open()).start);
        visit::visit_expr_while(self, l);
    }
    fn visit_expr_loop(&mut self, l: &'ast syn::ExprLoop) {
        self.for_exprs.push(None);
        self.loops.push(range(l.body.brace_token.span.open()).start);
        visit::visit_expr_loop(self, l);
    }
    fn visit_expr_closure(&mut self, c: &'ast syn::ExprClosure) {
        let auto = c.inputs.len() == 1 && matches!(&c.inputs[0], syn::Pat::Ident(i) if i.ident == "verif_e");
        if auto { self.auto_closures.push(c); } else { self.closures.push(c); }
        visit::visit_expr_closure(self, c);
    }
    fn visit_stmt(&mut self, s: &'ast syn::Stmt) {
        self.stmts.push(range(s.span()));
        visit::visit_stmt(self, s);
    }
    fn visit_arm(&mut self, a: &'ast syn::Arm) {
        if a.guard.is_some() {
            self.guards += 1;
        }
        visit::visit_arm(self, a);
    }
}

fn has_mut_ref_param(sig: &syn::Signature) -> bool {
    sig.inputs.iter().any(|a| match a {
        syn::FnArg::Receiver(r) => r.mutability.is_some() && r.reference.is_some(),
        syn::FnArg::Typed(t) => matches!(&*t.ty, syn::Type::Reference(r) if r.mutability.is_some()),
    })
}

fn indent(s: &str, n: usize) -> String {
    let pad = " ".repeat(n);
    s.lines().map(|l| format!("{pad}{}\n", l.trim_end())).collect()
}

pub fn splice(
    text: &str,
    spec: &ItemSpec,
    id: &str,
    cl: Option<&FnClauses>,
    canary: bool,
    base_line: usize,
    prologue: &str,
) -> Result<Spliced, Lost> {
    let f = parse(text, "normalisation")?;
    let mut ff = FnFinder { fns: vec![] };
    ff.visit_file(&f);
    let is_fn = matches!(spec.kind.as_str(), "fn" | "method" | "trait_fn" | "inner_fn");
    if !is_fn || ff.fns.is_empty() {
        return Ok(Spliced { text: text.to_string(), obligations: vec![], fn_name: None, is_fn: false });
    }
    let fr = &ff.fns[0];
    let mut edits = Vec::new();
    let mut fn_name = spec.rename.clone().unwrap_or_else(|| fr.sig.ident.to_string());
    if canary {
        fn_name.push_str("__canary");
    }
    if fn_name != fr.sig.ident.to_string() {
        let r = range(fr.sig.ident.span());
        edits.push(Edit { start: r.start, end: r.end, text: fn_name.clone(), rule: "rename" });
    }
    if !prologue.trim().is_empty() {
        let b = range(fr.block.brace_token.span.open()).end;
        edits.push(Edit { start: b, end: b, text: format!("\n        {}", prologue.trim()), rule: "proof-prologue" });
    }
    {
        // contracts of the eta-expanded constructors (rule N9.auto): the closure returns exactly `Ctor(argument)`
        let mut scan0 = BodyScan { guards: 0, for_exprs: vec![], loops: vec![], closures: vec![], auto_closures: vec![], stmts: vec![] };
        scan0.visit_block(fr.block);
        for c in &scan0.auto_closures {
            let he = range(c.or2_token.span()).end;
            let br = range(c.body.span());
            let body = text[br.clone()].to_string();
            edits.push(Edit { start: he, end: he, text: format!(" -> (verif_r: _) ensures equal(verif_r, {body})"), rule: "N9.auto" });
            edits.push(Edit { start: br.start, end: br.start, text: "{ ".into(), rule: "N9.auto" });
            edits.push(Edit { start: br.end, end: br.end, text: " }".into(), rule: "N9.auto" });
        }
    }
    if let Some(cl) = cl {
        let ret = cl.ret.clone().unwrap_or_else(|| "r".to_string());
        if let syn::ReturnType::Type(_, ty) = &fr.sig.output {
            let r = range(ty.span());
            edits.push(Edit {
                start: r.start,
                end: r.end,
                text: format!("({ret}: {})", &text[r.clone()]),
                rule: "N7",
            });
        }
        for a in &cl.attrs {
            edits.push(Edit { start: fr.item_start, end: fr.item_start, text: format!("{a} // @attr of clauses.vspec\n    "), rule: "proof-attr" });
        }
        let mut c = String::from("\n");
        if !cl.requires.trim().is_empty() {
            c.push_str("    requires\n");
            c.push_str(&indent(&cl.requires, 4));
        }
        if !cl.ensures.trim().is_empty() || canary {
            c.push_str("    ensures\n");
            if canary {
                c.push_str("        //# ob: __canary\n        false,\n");
            }
            c.push_str(&indent(&cl.ensures, 4));
        }
        if !cl.decreases.trim().is_empty() {
            c.push_str("    decreases\n");
            c.push_str(&indent(&cl.decreases, 4));
        }
        if !cl.extra.trim().is_empty() {
            c.push_str(&indent(&cl.extra, 4));
        }
        c.push_str("    //# end\n");
        let b = range(fr.block.brace_token.span.open()).start;
        edits.push(Edit { start: b, end: b, text: c, rule: "clauses" });

        let mut scan = BodyScan { guards: 0, for_exprs: vec![], loops: vec![], closures: vec![], auto_closures: vec![], stmts: vec![] };
        scan.visit_block(fr.block);
        if scan.guards > 0 && has_mut_ref_param(fr.sig) {
            // measured (notes/spikes/verus_match_guard.rs): Verus 0.2026.09.13 loses `final(p)` of a `&mut` parameter when
            // an arm with an `if` guard assigns through it -> every postcondition fails spuriously.  Undecided, never an alarm.
            return Err(Lost("unsupported: match-arm `if` guard in a function with `&mut` parameters (Verus mis-resolves final(..) there)".into()));
        }
        // a loop the contracts say nothing about (the function was rewritten, or a loop was added) cannot be decided:
        // Verus would fail the postconditions for want of an invariant, which is not a verdict about the code
        let expected_loops = cl.expected_loops.unwrap_or(cl.loops.len());
        if scan.loops.len() > expected_loops {
            return Err(Lost(format!("anchor lost: the function has {} loop(s) but the contracts were written for {} — a loop nobody gave an invariant for is undecided, not refuted", scan.loops.len(), expected_loops)));
        }
        for (k, t) in &cl.loops {
            let Some(pos) = scan.loops.get(*k) else {
                return Err(Lost(format!("anchor lost: @loop {k} but the function has {} loops", scan.loops.len())));
            };
            edits.push(Edit { start: *pos, end: *pos, text: format!("\n{}        //# end\n        ", indent(t, 8)), rule: "loop-clauses" });
        }
        for (k, name) in &cl.loop_iters {
            let Some(Some(pos)) = scan.for_exprs.get(*k) else {
                return Err(Lost(format!("anchor lost: @loop_iter {k}: not a `for` loop")));
            };
            edits.push(Edit { start: *pos, end: *pos, text: format!("{name}: "), rule: "loop-clauses" });
        }
        for (k, t) in &cl.closures {
            let Some(c) = scan.closures.get(*k) else {
                // the closure is gone (e.g. `.map_err(|e| ..)?` rewritten as a `match`): its contract was a proof OBLIGATION of
                // that closure, not an assumption — without the closure there is nothing to attach it to and nothing is lost
                if scan.closures.is_empty() { continue; }
                return Err(Lost(format!("anchor lost: @closure {k} but the function has {} closures", scan.closures.len())));
            };
            // the header must name the parameters the closure in the source names: an ordinal that now points at another
            // closure (one was inserted or removed before it) is a lost anchor, not a contract for that other closure
            let src_params: Vec<String> = c.inputs.iter().map(|p| {
                let p = match p { syn::Pat::Type(t) => &*t.pat, other => other };
                match p { syn::Pat::Ident(i) => i.ident.to_string(), syn::Pat::Wild(_) => "_".into(), other => text[range(other.span())].split_whitespace().collect::<String>() }
            }).collect();
            let hdr = t.trim();
            let hdr_params: Vec<String> = match (hdr.find('|'), hdr.find('|').and_then(|a| hdr[a + 1..].find('|').map(|b| (a, a + 1 + b)))) {
                (Some(_), Some((a, b))) => {
                    // split at top-level commas only (a parameter type may be a tuple or a generic)
                    let (mut depth, mut cur, mut parts) = (0i32, String::new(), Vec::new());
                    for ch in hdr[a + 1..b].chars() {
                        match ch { '(' | '<' | '[' => depth += 1, ')' | '>' | ']' => depth -= 1, _ => {} }
                        if ch == ',' && depth == 0 { parts.push(std::mem::take(&mut cur)); } else { cur.push(ch); }
                    }
                    parts.push(cur);
                    parts.iter().map(|x| x.split(':').next().unwrap_or("").trim().trim_start_matches("mut ").to_string()).filter(|x| !x.is_empty()).collect()
                }
                _ => vec![],
            };
            let same = src_params.len() == hdr_params.len()
                && src_params.iter().zip(&hdr_params).all(|(a, b)| a == b || a == "_" || a.starts_with("_verif_unused") || a.starts_with("verif_p"));
            if !same {
                return Err(Lost(format!("anchor lost: @closure {k} is written for parameters ({}) but the {k}-th closure of the function takes ({})", hdr_params.join(", "), src_params.join(", "))));
            }
            let hs = range(c.or1_token.span()).start;
            let he = match &c.output {
                syn::ReturnType::Type(_, ty) => range(ty.span()).end,
                syn::ReturnType::Default => range(c.or2_token.span()).end,
            };
            edits.push(Edit { start: hs, end: he, text: format!("{}\n        ", t.trim()), rule: "closure-header" });
            if !matches!(*c.body, syn::Expr::Block(_)) {
                let br = range(c.body.span());
                edits.push(Edit { start: br.start, end: br.start, text: "{ ".into(), rule: "closure-header" });
                edits.push(Edit { start: br.end, end: br.end, text: " }".into(), rule: "closure-header" });
            }
        }
        for (after, needle, t) in &cl.hints {
            if needle == "<START>" {
                let b = range(fr.block.brace_token.span.open()).end;
                edits.push(Edit { start: b, end: b, text: format!("\n{}", indent(t, 8)), rule: "hint" });
                continue;
            }
            let (nth, needle) = match needle.strip_prefix('#').and_then(|r| r.split_once('#')) {
                Some((k, n)) => (k.parse::<usize>().unwrap_or(0), n.to_string()),
                None => (0, needle.clone()),
            };
            let needle = &needle;
            let mut hits: Vec<_> = scan
                .stmts
                .iter()
                .filter(|r| text[(*r).clone()].trim_start().starts_with(needle.as_str()))
                .collect();
            if nth > 0 {
                // the k-th statement (source order) that starts with the needle
                hits.sort_by_key(|r| r.start);
                hits.dedup_by_key(|r| r.start);
                if hits.len() < nth {
                    return Err(Lost(format!("anchor lost: @hint #{nth} `{needle}` but only {} statements start with it", hits.len())));
                }
                hits = vec![hits[nth - 1]];
            }
            if hits.len() != 1 {
                return Err(Lost(format!(
                    "anchor lost: @hint needle `{needle}` matches {} statements (need exactly 1)",
                    hits.len()
                )));
            }
            let pos = if *after { hits[0].end } else { hits[0].start };
            edits.push(Edit { start: pos, end: pos, text: format!("\n{}", indent(t, 8)), rule: "hint" });
        }
    }
    // zero-width edits at one position must keep their relative order: sort is stable
    let out = apply_zero_width_safe(text, edits);

    // obligations = tagged clause ranges + one `body` obligation per contracted fn
    let mut obligations = Vec::new();
    if cl.is_some() && !canary {
        let lines: Vec<&str> = out.lines().collect();
        let mut open: Option<(String, usize)> = None;
        for (i, l) in lines.iter().enumerate() {
            let t = l.trim();
            if let Some(name) = t.strip_prefix("//# ob:") {
                if let Some((n, from)) = open.take() {
                    obligations.push(json!({"id": n, "from": base_line + from, "to": base_line + i - 1, "kind": "clause"}));
                }
                open = Some((name.trim().to_string(), i));
            } else if t == "//# end" {
                if let Some((n, from)) = open.take() {
                    obligations.push(json!({"id": n, "from": base_line + from, "to": base_line + i - 1, "kind": "clause"}));
                }
            }
        }
        if let Some((n, from)) = open.take() {
            obligations.push(json!({"id": n, "from": base_line + from, "to": base_line + from, "kind": "clause"}));
        }
        obligations.push(json!({"id": format!("{id}.body"), "from": base_line, "to": base_line + lines.len() - 1, "kind": "body"}));
    }
    Ok(Spliced { text: out, obligations, fn_name: Some(fn_name), is_fn: true })
}

fn apply_edits_all(src: &str, edits: Vec<Edit>) -> String {
    apply_zero_width_safe(src, edits)
}

/// like apply_edits, but zero-width insertions never shadow each other
fn apply_zero_width_safe(src: &str, mut edits: Vec<Edit>) -> String {
    edits.sort_by_key(|e| (e.start, e.end));
    let mut out = String::with_capacity(src.len() + 256);
    let mut pos = 0;
    for e in &edits {
        if e.start < pos {
            continue; // nested in a replaced range (e.g. closure body inside a replaced header): ignore
        }
        out.push_str(&src[pos..e.start]);
        out.push_str(&e.text);
        pos = e.end;
    }
    out.push_str(&src[pos..]);
    out
}
