//! Mechanical extractor: real pavex items -> one single-file Verus crate.
//!
//! Every transformation is a *text edit at a syn span* of the original source text
//! (never a re-print), logged per item.  Rules are documented in /verif/DESIGN.md §2.2.
//!
//! usage: extractor <repo_root> <unit_dir> <out.rs> <out_meta.json> [--canary]
//! exit:  0 ok, 2 lost anchor / unparsable input / bad unit description.

use proc_macro2::Span;
use serde::Deserialize;
use serde_json::json;
use sha2::{Digest, Sha256};
use std::collections::BTreeMap;
use std::fmt::Write as _;
use std::path::{Path, PathBuf};
use syn::spanned::Spanned;
use syn::visit::{self, Visit};

mod rules;
mod vspec;

#[derive(Deserialize, Debug, Clone)]
pub struct ItemSpec {
    pub file: String,
    /// fn | method | struct | enum | static | const | type | impl
    pub kind: String,
    pub name: Option<String>,
    #[serde(default)]
    pub module: Vec<String>,
    #[serde(rename = "impl")]
    pub impl_of: Option<String>,
    #[serde(rename = "trait")]
    pub trait_: Option<String>,
    /// emit a trait-impl method as an inherent method (drops dynamic dispatch only)
    #[serde(default)]
    pub as_inherent: bool,
    /// explicit, logged textual substitutions: [from, to, rule]; each must match >= 1 time
    #[serde(default)]
    pub subst: Vec<(String, String, String)>,
    #[serde(default)]
    pub keep_derives: Vec<String>,
    #[serde(default)]
    pub skip_rules: Vec<String>,
    /// N6 side condition: the body starts with `let mut guard = self.0.lock().await;` and has no other `.await`
    #[serde(default)]
    pub lock_scope: bool,
    /// N15: `?` on Result written out as its match
    #[serde(default)]
    pub desugar_try: bool,
    /// N14: explicit `panic!` is a deliberate abort
    #[serde(default)]
    pub abort_on_panic: bool,
    /// N21: `for PAT in ITER BODY` -> `{ let mut verif_it_k = ITER; while let Some(PAT) = verif_it_k.next() BODY }`
    /// (the language-defined meaning of `for` when ITER is already an iterator; Verus has no `continue` in `for` loops)
    #[serde(default)]
    pub for_to_while: bool,
    /// override id used in clauses.vspec / evidence
    pub id: Option<String>,
    /// kind = "local": the function that contains the `let <name> = <init>;` whose initializer is extracted as a const
    #[serde(rename = "fn")]
    pub in_fn: Option<String>,
    /// emit the item inside `pub mod <out_mod> { use super::*; .. }` (consecutive items share the block): keeps two
    /// crates' same-named types apart in the single-file crate
    pub out_mod: Option<String>,
    /// kind = "impl_all": methods of the inherent impl(s) NOT to extract (e.g. generic serde wrappers)
    #[serde(default)]
    pub exclude: Vec<String>,
    /// substitutions that apply where their text occurs and are skipped elsewhere (set for methods expanded from `impl_all`,
    /// whose `subst` list is shared by the whole impl)
    #[serde(default)]
    pub subst_optional: bool,
    /// kind = "trait_fn": bound of the `VerifSelf` type parameter that replaces `Self`
    pub self_bound: Option<String>,
    /// kind = "local": type of the emitted const
    pub ty: Option<String>,
    /// rename the emitted fn (used when two impls define the same method name)
    pub rename: Option<String>,
}

#[derive(Deserialize, Debug)]
pub struct UnitSpec {
    pub unit: String,
    pub property: String,
    /// "verus" (default) or "rustc" (plain Rust file: type-level frame proofs, closed-term evaluation)
    #[serde(default)]
    pub mode: String,
    /// plain Rust appended after the extracted items in rustc mode (e.g. a `main` that evaluates closed terms)
    #[serde(default)]
    pub epilogue: Vec<String>,
    #[serde(default)]
    pub crate_attrs: Vec<String>,
    #[serde(default)]
    pub prelude: Vec<String>,
    #[serde(default)]
    pub spec: Vec<String>,
    pub clauses: Option<String>,
    pub items: Vec<ItemSpec>,
    /// substitutions applied to every item (same shape as ItemSpec.subst) if the text occurs
    #[serde(default)]
    pub global_subst: Vec<(String, String, String)>,
    #[serde(default)]
    pub keep_derives: Vec<String>,
    /// proof-only text (e.g. `broadcast use ..;`) placed at the start of every extracted function body
    #[serde(default)]
    pub proof_prologue: String,
}

pub struct Lost(pub String);

fn die(msg: &str) -> ! {
    eprintln!("EXTRACTOR-UNDECIDED: {msg}");
    std::process::exit(2);
}

pub fn range(s: Span) -> std::ops::Range<usize> {
    s.byte_range()
}

#[derive(Debug, Clone)]
pub struct Edit {
    pub start: usize,
    pub end: usize,
    pub text: String,
    pub rule: &'static str,
}

pub fn apply_edits(src: &str, mut edits: Vec<Edit>) -> String {
    edits.sort_by_key(|e| (e.start, e.end));
    // drop edits nested in an earlier one (outermost wins; inner handled by the next pass)
    let mut kept: Vec<Edit> = Vec::new();
    for e in edits {
        if let Some(last) = kept.last() {
            if e.start < last.end {
                continue;
            }
        }
        kept.push(e);
    }
    let mut out = String::with_capacity(src.len());
    let mut pos = 0;
    for e in &kept {
        out.push_str(&src[pos..e.start]);
        out.push_str(&e.text);
        pos = e.end;
    }
    out.push_str(&src[pos..]);
    out
}

fn type_last_ident(t: &syn::Type) -> Option<String> {
    match t {
        syn::Type::Path(p) => p.path.segments.last().map(|s| s.ident.to_string()),
        syn::Type::Reference(r) => type_last_ident(&r.elem),
        _ => None,
    }
}

struct Found {
    /// text of a standalone item (for methods: synthesized `impl .. { method }`)
    text: String,
    line_start: usize,
    line_end: usize,
    original: String,
}

fn find_in_items<'a>(items: &'a [syn::Item], module: &[String]) -> Option<&'a [syn::Item]> {
    if module.is_empty() {
        return Some(items);
    }
    for it in items {
        if let syn::Item::Mod(m) = it {
            if m.ident == module[0].as_str() {
                if let Some((_, inner)) = &m.content {
                    return find_in_items(inner, &module[1..]);
                }
            }
        }
    }
    None
}

fn locate(src: &str, file: &syn::File, spec: &ItemSpec) -> Result<Found, Lost> {
    let items = find_in_items(&file.items, &spec.module)
        .ok_or_else(|| Lost(format!("module {:?} not found in {}", spec.module, spec.file)))?;
    let name = spec.name.clone().unwrap_or_default();
    let mk = |sp: Span| {
        let r = range(sp);
        Found {
            text: src[r.clone()].to_string(),
            line_start: sp.start().line,
            line_end: sp.end().line,
            original: src[r].to_string(),
        }
    };
    match spec.kind.as_str() {
        "fn" => {
            for it in items {
                if let syn::Item::Fn(f) = it {
                    if f.sig.ident == name.as_str() {
                        return Ok(mk(f.span()));
                    }
                }
            }
        }
        "struct" => {
            for it in items {
                if let syn::Item::Struct(f) = it {
                    if f.ident == name.as_str() {
                        return Ok(mk(f.span()));
                    }
                }
            }
        }
        "enum" => {
            for it in items {
                if let syn::Item::Enum(f) = it {
                    if f.ident == name.as_str() {
                        return Ok(mk(f.span()));
                    }
                }
            }
        }
        "static" => {
            for it in items {
                if let syn::Item::Static(f) = it {
                    if f.ident == name.as_str() {
                        return Ok(mk(f.span()));
                    }
                }
            }
        }
        "const" => {
            for it in items {
                if let syn::Item::Const(f) = it {
                    if f.ident == name.as_str() {
                        return Ok(mk(f.span()));
                    }
                }
            }
        }
        "type" => {
            for it in items {
                if let syn::Item::Type(f) = it {
                    if f.ident == name.as_str() {
                        return Ok(mk(f.span()));
                    }
                }
            }
        }
        "local" => {
            // initializer of `let <name> = <init>;` inside `impl <impl>::fn <fn>` -> `pub const VERIF_LOCAL_<name>: <ty> = <init>;`
            struct LetFinder<'a> { name: &'a str, hit: Option<(std::ops::Range<usize>, usize, usize)> }
            impl<'ast, 'a> Visit<'ast> for LetFinder<'a> {
                fn visit_local(&mut self, l: &'ast syn::Local) {
                    if let (syn::Pat::Ident(pi), Some(init)) = (&l.pat, &l.init) {
                        if pi.ident == self.name && self.hit.is_none() {
                            let sp = init.expr.span();
                            self.hit = Some((range(sp), sp.start().line, sp.end().line));
                        }
                    }
                    visit::visit_local(self, l);
                }
            }
            let impl_of = spec.impl_of.clone().unwrap_or_default();
            let fn_name = spec.in_fn.clone().unwrap_or_default();
            for it in items {
                if let syn::Item::Impl(im) = it {
                    if type_last_ident(&im.self_ty).as_deref() != Some(impl_of.as_str()) { continue; }
                    for ii in &im.items {
                        if let syn::ImplItem::Fn(m) = ii {
                            if m.sig.ident == fn_name.as_str() {
                                let mut lf = LetFinder { name: &name, hit: None };
                                lf.visit_block(&m.block);
                                if let Some((r, l0, l1)) = lf.hit {
                                    let ty = spec.ty.clone().unwrap_or_else(|| "&'static str".into());
                                    return Ok(Found {
                                        text: format!("pub const VERIF_LOCAL_{name}: {ty} = {};", &src[r.clone()]),
                                        line_start: l0, line_end: l1, original: src[r].to_string(),
                                    });
                                }
                            }
                        }
                    }
                }
            }
        }
        "inner_fn" => {
            // a `fn` item declared inside the body of the free function `<fn>`: hoisted to the top level (an item statement
            // is a declaration; it captures nothing, so where it is declared changes nothing)
            let outer = spec.in_fn.clone().unwrap_or_default();
            for it in items {
                if let syn::Item::Fn(f) = it {
                    if f.sig.ident != outer.as_str() { continue; }
                    for st in &f.block.stmts {
                        if let syn::Stmt::Item(syn::Item::Fn(inner)) = st {
                            if inner.sig.ident == name.as_str() {
                                return Ok(mk(inner.span()));
                            }
                        }
                    }
                }
            }
        }
        "impls_of" => {
            // every `impl <Trait> for <name>` of the file (possibly none): used to see whether a type gains a trait
            let mut text = String::new();
            let (mut l0, mut l1) = (0usize, 0usize);
            for it in items {
                if let syn::Item::Impl(im) = it {
                    if im.trait_.is_some() && type_last_ident(&im.self_ty).as_deref() == Some(name.as_str()) {
                        let sp = im.span();
                        if l0 == 0 { l0 = sp.start().line; }
                        l1 = sp.end().line;
                        text.push_str(&src[range(sp)]);
                        text.push('\n');
                    }
                }
            }
            if text.is_empty() { text.push_str("// (no trait impl for this type in the file)\n"); }
            return Ok(Found { original: text.clone(), text, line_start: l0, line_end: l1 });
        }
        "trait_fn" => {
            // a default method of a trait, emitted as a free generic function over `VerifSelf: <self_bound>`
            let tr = spec.trait_.clone().unwrap_or_default();
            for it in items {
                if let syn::Item::Trait(t) = it {
                    if t.ident != tr.as_str() { continue; }
                    for ti in &t.items {
                        if let syn::TraitItem::Fn(m) = ti {
                            if m.sig.ident == name.as_str() && m.default.is_some() {
                                let msp = m.span();
                                let mr = range(msp);
                                // `Self` -> `VerifSelf`, and a type parameter is added to the signature
                                struct SelfFinder { hits: Vec<std::ops::Range<usize>> }
                                impl<'ast> Visit<'ast> for SelfFinder {
                                    fn visit_ident(&mut self, i: &'ast proc_macro2::Ident) {
                                        if i == "Self" { self.hits.push(range(i.span())); }
                                    }
                                }
                                let mut sf = SelfFinder { hits: vec![] };
                                sf.visit_trait_item_fn(m);
                                let mut edits: Vec<Edit> = sf.hits.into_iter().map(|r| Edit { start: r.start, end: r.end, text: "VerifSelf".into(), rule: "N7" }).collect();
                                let bound = spec.self_bound.clone().unwrap_or_else(|| tr.clone());
                                let after_name = range(m.sig.ident.span()).end;
                                edits.push(Edit { start: after_name, end: after_name, text: format!("<VerifSelf: {bound}>"), rule: "N7" });
                                let whole = apply_edits(src, edits);
                                // recompute the slice of the method in the edited text: edits are inside [mr.start, mr.end]
                                let delta = whole.len() as isize - src.len() as isize;
                                let end = (mr.end as isize + delta) as usize;
                                return Ok(Found {
                                    text: whole[mr.start..end].to_string(),
                                    line_start: msp.start().line, line_end: msp.end().line, original: src[mr].to_string(),
                                });
                            }
                        }
                    }
                }
            }
        }
        "method" | "impl" | "impl_const" => {
            let impl_of = spec.impl_of.clone().unwrap_or_default();
            for it in items {
                if let syn::Item::Impl(im) = it {
                    if type_last_ident(&im.self_ty).as_deref() != Some(impl_of.as_str()) {
                        continue;
                    }
                    let tr = im
                        .trait_
                        .as_ref()
                        .and_then(|(_, p, _)| p.segments.last().map(|s| s.ident.to_string()));
                    if tr != spec.trait_ {
                        continue;
                    }
                    if spec.kind == "impl" {
                        return Ok(mk(im.span()));
                    }
                    if spec.kind == "impl_const" {
                        // an associated constant of an inherent impl, re-wrapped in its impl header like a method
                        for ii in &im.items {
                            if let syn::ImplItem::Const(c) = ii {
                                if c.ident == name.as_str() {
                                    let csp = c.span();
                                    let cr = range(csp);
                                    let hstart = range(im.impl_token.span()).start;
                                    let hend = range(im.brace_token.span.open()).start;
                                    let header = src[hstart..hend].trim_end().to_string();
                                    return Ok(Found {
                                        text: format!("{header} {{\n    {}\n}}", &src[cr.clone()]),
                                        line_start: csp.start().line, line_end: csp.end().line, original: src[cr].to_string(),
                                    });
                                }
                            }
                        }
                        continue;
                    }
                    for ii in &im.items {
                        if let syn::ImplItem::Fn(m) = ii {
                            if m.sig.ident == name.as_str() {
                                let msp = m.span();
                                let mr = range(msp);
                                // header: from `impl` (after attrs) up to the opening brace
                                let hstart = range(im.impl_token.span()).start;
                                let hend = range(im.brace_token.span.open()).start;
                                let mut header = src[hstart..hend].trim_end().to_string();
                                if let Some(u) = &im.unsafety {
                                    let _ = u;
                                    header = format!("unsafe {header}");
                                }
                                if spec.as_inherent && im.trait_.is_some() {
                                    // `impl<G> Trait for Ty<..> where ..` -> `impl<G> Ty<..> where ..`
                                    let (_, p, for_tok) = im.trait_.as_ref().unwrap();
                                    let ps = range(p.span()).start - hstart;
                                    let fe = range(for_tok.span()).end - hstart;
                                    header.replace_range(ps..fe, "");
                                }
                                let text = format!("{header} {{\n    {}\n}}", &src[mr.clone()]);
                                return Ok(Found {
                                    text,
                                    line_start: msp.start().line,
                                    line_end: msp.end().line,
                                    original: src[mr].to_string(),
                                });
                            }
                        }
                    }
                }
            }
        }
        k => return Err(Lost(format!("unknown item kind {k}"))),
    }
    Err(Lost(format!(
        "anchor lost: {} {}{}{} not found in {}",
        spec.kind,
        spec.impl_of.clone().map(|s| s + "::").unwrap_or_default(),
        name,
        spec.trait_.clone().map(|t| format!(" (trait {t})")).unwrap_or_default(),
        spec.file
    )))
}

pub fn item_id(spec: &ItemSpec) -> String {
    if let Some(id) = &spec.id {
        return id.clone();
    }
    let n = spec.name.clone().unwrap_or_default();
    match (&spec.impl_of, spec.kind.as_str()) {
        (Some(i), "method") => format!("{i}::{n}"),
        (_, "trait_fn") => format!("{}::{n}", spec.trait_.clone().unwrap_or_default()),
        (Some(i), "impl") => format!(
            "impl {}{}",
            spec.trait_.clone().map(|t| t + " for ").unwrap_or_default(),
            i
        ),
        _ => n,
    }
}

fn sha(s: &str) -> String {
    let mut h = Sha256::new();
    h.update(s.as_bytes());
    let d = h.finalize();
    let mut out = String::new();
    for b in d {
        let _ = write!(out, "{b:02x}");
    }
    out
}

fn main() {
    let args: Vec<String> = std::env::args().collect();
    if args.len() < 5 {
        die("usage: extractor <repo_root> <unit_dir> <out.rs> <out_meta.json> [--canary]");
    }
    let repo = PathBuf::from(&args[1]);
    let unit_dir = PathBuf::from(&args[2]);
    let out_rs = PathBuf::from(&args[3]);
    let out_meta = PathBuf::from(&args[4]);
    let canary = args.iter().any(|a| a == "--canary");

    let unit_txt = std::fs::read_to_string(unit_dir.join("unit.json"))
        .unwrap_or_else(|e| die(&format!("cannot read unit.json: {e}")));
    let unit: UnitSpec =
        serde_json::from_str(&unit_txt).unwrap_or_else(|e| die(&format!("bad unit.json: {e}")));

    let clauses = match &unit.clauses {
        Some(c) => {
            let t = std::fs::read_to_string(unit_dir.join(c))
                .unwrap_or_else(|e| die(&format!("cannot read clauses file: {e}")));
            vspec::parse(&t).unwrap_or_else(|e| die(&format!("bad clauses file: {e}")))
        }
        None => BTreeMap::new(),
    };

    let mut out = String::new();
    let mut meta_items = Vec::new();
    let mut line_map = Vec::new();
    let mut obligations = Vec::new();
    let mut used_clause_ids = Vec::new();

    let _ = writeln!(
        out,
        "// GENERATED by /verif/extractor from the working tree of {} — unit {} (property {}){}",
        repo.display(),
        unit.unit,
        unit.property,
        if canary { " — CANARY twin file" } else { "" }
    );
    for a in &unit.crate_attrs {
        let _ = writeln!(out, "{a}");
    }
    let _ = writeln!(out, "#![allow(unused, dead_code, non_snake_case, non_camel_case_types)]");
    let rustc_mode = unit.mode == "rustc";
    if !rustc_mode {
        let _ = writeln!(out, "use vstd::prelude::*;");
        let _ = writeln!(out, "verus! {{");
    }
    let cur_line = |s: &str| s.matches('\n').count() + 1;

    for (label, files) in [("prelude", &unit.prelude), ("spec", &unit.spec)] {
        for p in files {
            let t = std::fs::read_to_string(unit_dir.join(p))
                .unwrap_or_else(|e| die(&format!("cannot read {p}: {e}")));
            let l0 = cur_line(&out);
            let _ = writeln!(out, "// ---- {label}: {p}");
            out.push_str(&t);
            if !t.ends_with('\n') {
                out.push('\n');
            }
            if canary && label == "spec" {
                // vacuity guard for the property lemmas: a twin of every `proof fn` with `ensures false` must fail
                for tw in lemma_twins(&t) {
                    out.push_str(&tw);
                    out.push('\n');
                }
            }
            line_map.push(json!({"from": l0, "to": cur_line(&out) - 1, "kind": label, "file": p}));
        }
    }

    if canary && !rustc_mode {
        let _ = writeln!(out, "// vacuity guard: an inconsistent prelude/spec would prove this");
        let _ = writeln!(out, "proof fn prelude_consistency__canary() ensures false {{}}");
    }

    // expand `impl_all`: every method of the inherent impl blocks of a type, so that a helper added later is extracted too
    let mut expanded: Vec<ItemSpec> = Vec::new();
    for spec in &unit.items {
        if spec.kind != "impl_all" {
            expanded.push(spec.clone());
            continue;
        }
        let src = std::fs::read_to_string(repo.join(&spec.file))
            .unwrap_or_else(|e| die(&format!("anchor lost: cannot read {}: {e}", spec.file)));
        let parsed = syn::parse_file(&src).unwrap_or_else(|e| die(&format!("cannot parse {}: {e}", spec.file)));
        let items = find_in_items(&parsed.items, &spec.module).unwrap_or_else(|| die("module not found"));
        let ty = spec.impl_of.clone().unwrap_or_default();
        let mut n = 0;
        for it in items {
            if let syn::Item::Impl(im) = it {
                if im.trait_.is_some() || type_last_ident(&im.self_ty).as_deref() != Some(ty.as_str()) { continue; }
                for ii in &im.items {
                    if let syn::ImplItem::Fn(m) = ii {
                        let name = m.sig.ident.to_string();
                        let listed = unit.items.iter().any(|o| o.kind == "method" && o.impl_of.as_deref() == Some(ty.as_str()) && o.name.as_deref() == Some(name.as_str()) && o.file == spec.file);
                        if spec.exclude.contains(&name) || listed { continue; }
                        let mut one = spec.clone();
                        one.kind = "method".into();
                        one.name = Some(name);
                        one.subst_optional = true;
                        expanded.push(one);
                        n += 1;
                    }
                }
            }
        }
        if n == 0 && !unit.items.iter().any(|o| o.kind == "method" && o.impl_of.as_deref() == Some(ty.as_str())) {
            die(&format!("anchor lost: no inherent impl of `{ty}` in {}", spec.file));
        }
    }
    let mut file_cache: BTreeMap<String, String> = BTreeMap::new();
    let mut cur_mod: Option<String> = None;
    let mut seen_mods: Vec<String> = Vec::new();
    for spec in &expanded {
        if spec.out_mod != cur_mod {
            if cur_mod.is_some() {
                let _ = writeln!(out, "}} // mod");
            }
            if let Some(m) = &spec.out_mod {
                if seen_mods.contains(m) {
                    die(&format!("bad unit.json: items of module `{m}` are not consecutive"));
                }
                seen_mods.push(m.clone());
                let _ = writeln!(out, "pub mod {m} {{\nuse super::*;");
            }
            cur_mod = spec.out_mod.clone();
        }
        let id = item_id(spec);
        let path: &Path = &repo.join(&spec.file);
        let src = file_cache
            .entry(spec.file.clone())
            .or_insert_with(|| {
                std::fs::read_to_string(path)
                    .unwrap_or_else(|e| die(&format!("anchor lost: cannot read {}: {e}", spec.file)))
            })
            .clone();
        let parsed = syn::parse_file(&src)
            .unwrap_or_else(|e| die(&format!("cannot parse {}: {e}", spec.file)));
        let found = match locate(&src, &parsed, spec) {
            Ok(f) => f,
            Err(Lost(m)) => die(&m),
        };
        let mut fired: BTreeMap<String, usize> = BTreeMap::new();
        let mut keep = unit.keep_derives.clone();
        keep.extend(spec.keep_derives.iter().cloned());
        let (normalized, prefix, suffix) = match rules::normalize(&found.text, spec, &unit.global_subst, &keep, &mut fired) {
            Ok(t) => t,
            Err(Lost(m)) => die(&format!("{id}: {m}")),
        };
        let cl = clauses.get(&id);
        if cl.is_some() {
            used_clause_ids.push(id.clone());
        }
        let l0 = cur_line(&out);
        let _ = writeln!(
            out,
            "// ---- extracted: {}:{}-{} `{}` sha256={} rules={:?}",
            spec.file,
            found.line_start,
            found.line_end,
            id,
            &sha(&found.original)[..16],
            fired
        );
        out.push_str(&prefix);
        let base_line = cur_line(&out);
        let spliced = match rules::splice(&normalized, spec, &id, cl, false, base_line, &unit.proof_prologue) {
            Ok(s) => s,
            Err(Lost(m)) => die(&format!("{id}: {m}")),
        };
        out.push_str(&spliced.text);
        out.push('\n');
        out.push_str(&suffix);
        for mut ob in spliced.obligations {
            ob["item"] = json!(id);
            obligations.push(ob);
        }
        if canary && cl.is_some() && spliced.is_fn && !cl.map(|c| c.no_canary).unwrap_or(false) {
            let base_line = cur_line(&out);
            let tw = match rules::splice(&normalized, spec, &id, cl, true, base_line, &unit.proof_prologue) {
                Ok(s) => s,
                Err(Lost(m)) => die(&format!("{id}: {m}")),
            };
            out.push_str(&tw.text);
            out.push('\n');
        }
        line_map.push(json!({"from": l0, "to": cur_line(&out) - 1, "kind": "item", "id": id,
            "fn_name": spliced.fn_name, "contracted": cl.is_some()}));
        let attrs: Vec<String> = {
            let mut v = Vec::new();
            for name in ["track_caller", "must_use", "inline"] {
                if found.original.contains(&format!("#[{name}")) { v.push(name.to_string()); }
            }
            v
        };
        meta_items.push(json!({
            "id": id, "file": spec.file, "kind": spec.kind, "attrs": attrs,
            "lines": [found.line_start, found.line_end],
            "sha256": sha(&found.original),
            "rules_fired": fired,
            "contracted": cl.is_some(),
            "no_canary": cl.map(|c| c.no_canary).unwrap_or(false),
            "fn_name": spliced.fn_name,
            "is_fn": spliced.is_fn,
        }));
    }
    if cur_mod.is_some() {
        let _ = writeln!(out, "}} // mod");
    }
    for id in clauses.keys() {
        if !used_clause_ids.contains(id) {
            die(&format!("clauses for `{id}` match no extracted item (anchor lost)"));
        }
    }
    if rustc_mode {
        for p in &unit.epilogue {
            let t = std::fs::read_to_string(unit_dir.join(p))
                .unwrap_or_else(|e| die(&format!("cannot read {p}: {e}")));
            let _ = writeln!(out, "// ---- epilogue: {p}");
            out.push_str(&t);
        }
    } else {
        let _ = writeln!(out, "}} // verus!");
        let _ = writeln!(out, "fn main() {{}}");
    }

    std::fs::write(&out_rs, &out).unwrap_or_else(|e| die(&format!("cannot write output: {e}")));
    let meta = json!({
        "unit": unit.unit, "property": unit.property, "canary": canary,
        "items": meta_items, "line_map": line_map, "obligations": obligations,
    });
    std::fs::write(&out_meta, serde_json::to_string_pretty(&meta).unwrap())
        .unwrap_or_else(|e| die(&format!("cannot write meta: {e}")));
}

/// text-level twins of the `pub proof fn`s of a spec file (the file is ours, so brace matching on text is enough)
fn lemma_twins(text: &str) -> Vec<String> {
    let mut out = Vec::new();
    let mut from = 0;
    while let Some(p) = text[from..].find("pub proof fn ") {
        let start = from + p;
        let name_start = start + "pub proof fn ".len();
        let name_end = name_start + text[name_start..].find(|c: char| !(c.is_alphanumeric() || c == '_')).unwrap_or(0);
        // body = first `{` at the start of a line after the signature ... matching brace
        let Some(b) = text[name_end..].find("\n{") else { break };
        let body_start = name_end + b + 1;
        let mut depth = 0i32;
        let mut end = body_start;
        for (i, c) in text[body_start..].char_indices() {
            if c == '{' { depth += 1; }
            if c == '}' { depth -= 1; if depth == 0 { end = body_start + i + 1; break; } }
        }
        let sig = &text[start..body_start];
        if let Some(e) = sig.find("\n    ensures") {
            let e_end = e + "\n    ensures".len();
            let twin = format!("pub proof fn {}__canary{}{}\n        false,{}{}",
                &text[name_start..name_end], &sig[name_end - start..e], "\n    ensures", &sig[e_end..], &text[body_start..end]);
            out.push(twin);
        }
        from = end.max(name_end);
    }
    out
}

// Helpers shared with rules.rs -------------------------------------------------------------

pub struct FnFinder<'a> {
    pub fns: Vec<FnRef<'a>>,
}
pub struct FnRef<'a> {
    pub sig: &'a syn::Signature,
    pub block: &'a syn::Block,
    /// byte offset of the first token of the whole item (visibility included)
    pub item_start: usize,
}
impl<'a> Visit<'a> for FnFinder<'a> {
    fn visit_item_fn(&mut self, f: &'a syn::ItemFn) {
        self.fns.push(FnRef { sig: &f.sig, block: &f.block, item_start: range(f.span()).start });
        // do not descend: nested fns are not contracted separately
    }
    fn visit_impl_item_fn(&mut self, f: &'a syn::ImplItemFn) {
        self.fns.push(FnRef { sig: &f.sig, block: &f.block, item_start: range(f.span()).start });
    }
    fn visit_item_impl(&mut self, i: &'a syn::ItemImpl) {
        visit::visit_item_impl(self, i);
    }
}
