// ======================================================================================
// C05 / C06: the chains recorded per user component are translated to component ids in order
// ======================================================================================
/// the component ids of the members of `chain` that have one (a component that failed validation has none), in order
pub open spec fn translate(m: Map<UserComponentId, ComponentId>, chain: Seq<UserComponentId>) -> Seq<ComponentId> decreases chain.len() {
    if chain.len() == 0 { Seq::empty() } else {
        let p = translate(m, chain.drop_last());
        if m.contains_key(chain.last()) { p.push(m[chain.last()]) } else { p }
    }
}
pub proof fn translate_step(m: Map<UserComponentId, ComponentId>, chain: Seq<UserComponentId>, k: int)
    requires 0 <= k < chain.len()
    ensures translate(m, chain.take(k + 1)) == (if m.contains_key(chain[k]) { translate(m, chain.take(k)).push(m[chain[k]]) } else { translate(m, chain.take(k)) })
{
    assert(chain.take(k + 1).drop_last() =~= chain.take(k));
    assert(chain.take(k + 1).last() == chain[k]);
}
/// no two request handlers share a component id (so one handler's entry is never overwritten by another's)
pub open spec fn injective_on(m: Map<UserComponentId, ComponentId>, hs: Seq<UserComponentId>) -> bool {
    forall |i: int, j: int| 0 <= i < hs.len() && 0 <= j < hs.len() && m.contains_key(hs[i]) && m.contains_key(hs[j]) && #[trigger] m[hs[i]] == #[trigger] m[hs[j]] ==> hs[i] == hs[j]
}
