// ======================================================================================
// C05 / C06 (translation of the chains to component ids) prelude
// ======================================================================================
use core::marker::PhantomData;
#[derive(Clone, Copy)] pub struct UserComponentId { pub raw: usize }
#[derive(Clone, Copy)] pub struct ComponentId { pub raw: usize }
#[derive(Clone, Copy)] pub struct ComputationId { pub raw: usize }
#[derive(Clone, Copy)] pub struct ScopeId { pub raw: usize }
#[verifier::external_body] pub struct UserComponent { _p: u8 }
#[verifier::external_body] pub struct ComputationDb { _p: u8 }

// ---- iterators as ghost sequences (rule N21) ----------------------------------------------------------------------
#[verifier::external_body] #[verifier::accept_recursive_types(T)]
pub struct VerifIter<T> { _k: PhantomData<T> }
impl<T> View for VerifIter<T> { type V = Seq<T>; uninterp spec fn view(&self) -> Seq<T>; }
impl<T> VerifIter<T> {
    #[verifier::external_body]
    pub fn next(&mut self) -> (r: Option<T>)
        ensures match r {
            Some(x) => old(self)@.len() > 0 && x == old(self)@[0] && final(self)@ == old(self)@.drop_first(),
            None => old(self)@.len() == 0 && final(self)@ == old(self)@,
        }
    { unimplemented!() }
}
/// what `collect()` gathers, in order
pub trait VerifCollect<T>: Sized { spec fn collected(&self) -> Seq<T>; }
impl<T> VerifCollect<T> for Vec<T> { open spec fn collected(&self) -> Seq<T> { self@ } }
impl<T> VerifIter<T> {
    /// `Iterator::map`: the closure is applied to every item, in order
    #[verifier::external_body] pub fn map<U, F: Fn(T) -> U>(self, f: F) -> (r: VerifIter<U>)
        requires forall |t: T| #[trigger] f.requires((t,)),
        ensures r@.len() == self@.len(), forall |i: int| 0 <= i < self@.len() ==> f.ensures((self@[i],), #[trigger] r@[i]) { unimplemented!() }
    /// `Iterator::collect`
    #[verifier::external_body] pub fn collect<B: VerifCollect<T>>(self) -> (r: B) ensures r.collected() == self@ { unimplemented!() }
}
pub trait VerifIntoIter: Sized { type Item; spec fn verif_items(self) -> Seq<Self::Item>; }
impl<T> VerifIntoIter for VerifIter<T> { type Item = T; open spec fn verif_items(self) -> Seq<T> { self@ } }
impl<'a, T> VerifIntoIter for &'a Vec<T> { type Item = &'a T; open spec fn verif_items(self) -> Seq<&'a T> { Seq::new(self@.len(), |i: int| &self@[i]) } }
impl<'a, T> VerifIntoIter for &'a [T] { type Item = &'a T; open spec fn verif_items(self) -> Seq<&'a T> { Seq::new(self@.len(), |i: int| &self@[i]) } }
impl<T> VerifIntoIter for Vec<T> { type Item = T; open spec fn verif_items(self) -> Seq<T> { self@ } }
#[verifier::external_body]
pub fn verif_into_iter<I: VerifIntoIter>(i: I) -> (r: VerifIter<I::Item>) ensures r@ == i.verif_items() { unimplemented!() }

// ---- maps keyed by == ---------------------------------------------------------------------------------------------
#[verifier::external_body] #[verifier::reject_recursive_types(K)] #[verifier::accept_recursive_types(V)]
pub struct HashMap<K, V> { _k: PhantomData<(K, V)> }
impl<K, V> View for HashMap<K, V> { type V = Map<K, V>; uninterp spec fn view(&self) -> Map<K, V>; }
impl<K, V> HashMap<K, V> {
    #[verifier::external_body] pub fn get(&self, k: &K) -> (r: Option<&V>)
        ensures match r { Some(v) => self@.contains_key(*k) && *v == self@[*k], None => !self@.contains_key(*k) } { unimplemented!() }
    #[verifier::external_body] pub fn insert(&mut self, k: K, v: V) -> (r: Option<V>)
        ensures final(self)@ == old(self)@.insert(k, v) { unimplemented!() }
}
// ---- the user component database: pure accessors --------------------------------------------------------------------
#[verifier::external_body] pub struct UserComponentDb { _p: u8 }
/// every request handler (route or fallback), in the order of the arena
pub uninterp spec fn handlers_of(u: &UserComponentDb) -> Seq<UserComponentId>;
pub uninterp spec fn user_mw_chain(u: &UserComponentDb, h: UserComponentId) -> Seq<UserComponentId>;
pub uninterp spec fn user_obs_chain(u: &UserComponentDb, h: UserComponentId) -> Seq<UserComponentId>;
impl UserComponentDb {
    #[verifier::external_body] pub fn request_handlers(&self) -> (r: VerifIter<(UserComponentId, &UserComponent)>)
        ensures r@.len() == handlers_of(self).len(), forall |i: int| 0 <= i < r@.len() ==> (#[trigger] r@[i]).0 == handlers_of(self)[i] { unimplemented!() }
    #[verifier::external_body] pub fn middleware_ids(&self, id: UserComponentId) -> (r: &[UserComponentId]) ensures r@ == user_mw_chain(self, id) { unimplemented!() }
    #[verifier::external_body] pub fn error_observer_ids(&self, id: UserComponentId) -> (r: &[UserComponentId]) ensures r@ == user_obs_chain(self, id) { unimplemented!() }
}
pub enum UnregisteredComponent { SyntheticWrappingMiddleware { computation_id: ComputationId, scope_id: ScopeId, derived_from: Option<ComponentId> } }
/// the component database, reduced to what the two functions read and write
pub struct ComponentDb {
    pub user_db: UserComponentDb,
    pub user_component_id2component_id: HashMap<UserComponentId, ComponentId>,
    pub handler_id2middleware_ids: HashMap<ComponentId, Vec<ComponentId>>,
    pub handler_id2error_observer_ids: HashMap<ComponentId, Vec<ComponentId>>,
}
pub uninterp spec fn noop_wrap_for(scope: ScopeId) -> ComponentId;
impl ComponentDb {
    #[verifier::external_body] pub fn scope_id(&self, id: ComponentId) -> (r: ScopeId) { unimplemented!() }
    /// ASSUMED: interning a synthetic component returns its id and touches none of the four tables
    #[verifier::external_body] pub fn get_or_intern(&mut self, c: UnregisteredComponent, computation_db: &mut ComputationDb) -> (r: ComponentId)
        ensures final(self).user_db == old(self).user_db, final(self).user_component_id2component_id == old(self).user_component_id2component_id,
                final(self).handler_id2middleware_ids == old(self).handler_id2middleware_ids, final(self).handler_id2error_observer_ids == old(self).handler_id2error_observer_ids
    { unimplemented!() }
}
