// ======================================================================================
// C07 (scope-based fallback) prelude
// ======================================================================================
use core::marker::PhantomData;
use vstd::std_specs::cmp::PartialEqSpecImpl;
#[derive(Clone, Copy)] pub struct UserComponentId { pub raw: usize }
#[verifier::external_body] pub struct ScopeGraph { _p: u8 }
/// `a` is `b` or is nested (directly or transitively) in `b`
pub uninterp spec fn descends(g: &ScopeGraph, a: ScopeId, b: ScopeId) -> bool;
impl ScopeId {
    /// ASSUMED (a petgraph DFS over the reversed graph): exactly the 'is nested in, or equal' relation
    #[verifier::external_body] pub fn is_descendant_of(&self, other: ScopeId, scope_graph: &ScopeGraph) -> (r: bool)
        ensures r == descends(scope_graph, *self, other) { unimplemented!() }
}
/// An iterator as a ghost sequence of what it has yet to yield (rule N21 writes `for` out as `while let Some(..) = it.next()`)
#[verifier::external_body] #[verifier::accept_recursive_types(T)]
pub struct VerifIter<T> { _k: PhantomData<T> }
impl<T> View for VerifIter<T> { type V = Seq<T>; uninterp spec fn view(&self) -> Seq<T>; }
impl<T> VerifIter<T> {
    #[verifier::external_body]
    pub fn next(&mut self) -> (r: Option<T>)
        ensures match r {
            Some(x) => old(self)@.len() > 0 && x == old(self)@[0] && final(self)@ == old(self)@.drop_first(),
            None => old(self)@.len() == 0 && final(self)@ == old(self)@,
        }
    { unimplemented!() }
}
/// what `for x in <value>` yields, in order (rule N21 hands every `for` iterable to `verif_into_iter`)
pub trait VerifIntoIter: Sized { type Item; spec fn verif_items(self) -> Seq<Self::Item>; }
impl<T> VerifIntoIter for VerifIter<T> { type Item = T; open spec fn verif_items(self) -> Seq<T> { self@ } }
impl<'a, T> VerifIntoIter for &'a Vec<T> { type Item = &'a T; open spec fn verif_items(self) -> Seq<&'a T> { Seq::new(self@.len(), |i: int| &self@[i]) } }
impl<'a, T> VerifIntoIter for &'a [T] { type Item = &'a T; open spec fn verif_items(self) -> Seq<&'a T> { Seq::new(self@.len(), |i: int| &self@[i]) } }
impl<T> VerifIntoIter for Vec<T> { type Item = T; open spec fn verif_items(self) -> Seq<T> { self@ } }
#[verifier::external_body]
pub fn verif_into_iter<I: VerifIntoIter>(i: I) -> (r: VerifIter<I::Item>) ensures r@ == i.verif_items() { unimplemented!() }
