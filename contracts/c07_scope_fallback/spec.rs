// ======================================================================================
// C07 (scope-based fallback) spec: which registered fallback serves a route that nothing matched
// ======================================================================================
/// the shape `ScopeBasedFallbackTree::new` gives the tree (a PRECONDITION here): node 0 is the root, a child comes after its
/// parent in `nodes`, and a child's scope is nested in its parent's
pub open spec fn wf_tree(t: &ScopeBasedFallbackTree, g: &ScopeGraph) -> bool {
    &&& t.nodes@.len() > 0
    &&& forall |i: int, k: int| 0 <= i < t.nodes@.len() && 0 <= k < t.nodes@[i].children_ids@.len() ==>
            i < (#[trigger] t.nodes@[i].children_ids@[k]) < t.nodes@.len()
}
/// node `n` covers the scope and none of its children does: the innermost registered fallback that encloses the route
pub open spec fn innermost_covering(t: &ScopeBasedFallbackTree, g: &ScopeGraph, s: ScopeId, n: int) -> bool {
    &&& 0 <= n < t.nodes@.len()
    &&& (n == 0 || descends(g, s, t.nodes@[n].scope_id))
    &&& (t.nodes@[n].scope_id == s || forall |k: int| 0 <= k < t.nodes@[n].children_ids@.len() ==>
            !descends(g, s, t.nodes@[#[trigger] t.nodes@[n].children_ids@[k] as int].scope_id))
}
