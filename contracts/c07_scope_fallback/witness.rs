// Native witness for the C07 fallback-tree slice (appended to compiler/pavexc/src/compiler/analyses/user_components/router.rs of
// the scratch copy): the real ScopeGraphBuilder, ScopeBasedFallbackTree::new (whose shape the contracts only ASSUME) and
// find_fallback_id, against the statement: the fallback of the innermost enclosing blueprint that has one.
#[cfg(test)]
mod verif_witness_c07_tree {
    use super::*;
    struct Rng(u64);
    impl Rng { fn next(&mut self) -> u64 { self.0 ^= self.0 << 13; self.0 ^= self.0 >> 7; self.0 ^= self.0 << 17; self.0 } fn below(&mut self, n: usize) -> usize { (self.next() % n as u64) as usize } }
    fn uid(n: u32) -> UserComponentId { la_arena::Idx::from_raw(la_arena::RawIdx::from_u32(n)) }
    fn loc(n: u32) -> pavex_bp_schema::Location { pavex_bp_schema::Location { line: n, column: 1, file: "witness.rs".into() } }

    #[test]
    fn the_fallback_of_the_innermost_enclosing_blueprint_that_has_one_is_chosen() {
        let thorough = std::env::var("VERIF_TIER").map(|t| t == "thorough").unwrap_or(false);
        let worlds = if thorough { 40_000 } else { 3_000 };
        let mut rng = Rng(0xA076_1D64_78BD_642F);
        let mut n = 0;
        for _ in 0..worlds {
            // a random tree of blueprint scopes; every scope may also get leaf "route" scopes under it
            let mut b = ScopeGraph::builder(loc(0));
            let mut ids = vec![b.root_scope_id()];
            let mut parent: Vec<Option<usize>> = vec![None];
            let n_scopes = 1 + rng.below(9);
            for k in 1..n_scopes {
                let p = rng.below(ids.len());
                ids.push(b.add_scope(ids[p], Some(loc(k as u32))));
                parent.push(Some(p));
            }
            // fallbacks: the root always has one (the framework's default), other scopes at random; registered in random order
            let mut has: Vec<Option<u32>> = vec![None; n_scopes];
            has[0] = Some(0);
            for k in 1..n_scopes { if rng.below(3) == 0 { has[k] = Some(k as u32); } }
            // each fallback lives in its own leaf scope under the blueprint's scope (as process_fallback does); so do routes
            let mut route_scopes: Vec<(usize, ScopeId)> = Vec::new();
            for k in 0..n_scopes { for _ in 0..rng.below(3) { route_scopes.push((k, b.add_scope(ids[k], None))); } }
            let graph = b.build();
            let mut scope_id2fallback_id: BiHashMap<ScopeId, UserComponentId> = BiHashMap::new();
            let mut order: Vec<usize> = (0..n_scopes).filter(|k| has[*k].is_some()).collect();
            for i in (1..order.len()).rev() { let j = rng.below(i + 1); order.swap(i, j); }
            for k in order { scope_id2fallback_id.insert(ids[k], uid(has[k].unwrap())); }
            let tree = ScopeBasedFallbackTree::new(&scope_id2fallback_id, &graph);
            let expected = |mut k: usize| loop { if let Some(f) = has[k] { break uid(f); } k = parent[k].expect("the root has a fallback"); };
            for (k, s) in &route_scopes {
                assert_eq!(tree.find_fallback_id(*s, &graph), expected(*k), "VERIF: a route registered in blueprint scope #{k}; parents={parent:?} fallbacks={has:?}");
                n += 1;
            }
            for k in 0..n_scopes {
                assert_eq!(tree.find_fallback_id(ids[k], &graph), expected(k), "VERIF: blueprint scope #{k}; parents={parent:?} fallbacks={has:?}");
                n += 1;
            }
        }
        println!("VERIF-BOUNDED test=the_fallback_of_the_innermost_enclosing_blueprint_that_has_one_is_chosen evaluations={n} bound={worlds} pseudo-random trees of up to 9 blueprint scopes with up to 2 route scopes each; fallbacks in a third of the scopes, registered in random order");
    }
}
