// C20 (thin contract + bounded stand-in) prelude
#[verifier::external_body] pub struct InvalidDomainConstraint { _p: u8 }
/// the validator as an oracle (its text is outside what Verus accepts; see the bounded witness)
pub uninterp spec fn guard_is_valid(s: Seq<char>) -> bool;
pub uninterp spec fn trim_dots(s: Seq<char>) -> Seq<char>;
#[verifier::external_body] pub fn validate(input: &str) -> (r: Result<(), InvalidDomainConstraint>) ensures r is Ok <==> guard_is_valid(input@) { unimplemented!() }
/// `domain.trim_end_matches('.').to_string()` (rule N7)
#[verifier::external_body] pub fn verif_trim_trailing_dots(s: &String) -> (r: String) ensures r@ == trim_dots(s@) { unimplemented!() }
pub assume_specification<T>[<T as From<T>>::from](t: T) -> (r: T) ensures r == t;
