// Bounded native stand-in for C20 (appended to compiler/pavexc/src/compiler/analyses/domain.rs of the scratch copy). The validator and
// the pattern builder are outside what the verifier accepts: this test drives the REAL DomainGuard::new / matchit_pattern and a real
// matchit router (with the three normalisation steps the generated router spells out) against a model of the DOCUMENTED rules.
// Labelled bounded; never counted as proved.
#[cfg(test)]
mod verif_witness_c20 {
    use super::DomainGuard;
    struct Rng(u64);
    impl Rng { fn next(&mut self) -> u64 { self.0 ^= self.0 << 13; self.0 ^= self.0 >> 7; self.0 ^= self.0 << 17; self.0 } fn below(&mut self, n: usize) -> usize { (self.next() % n as u64) as usize } }

    /// codegen/router.rs: `a.host().trim_end_matches('.').replace('.', "/").chars().rev().collect()`
    fn normalise(host: &str) -> String { host.trim_end_matches('.').replace('.', "/").chars().rev().collect() }

    #[derive(Clone, Debug)]
    enum Label { Lit(String), Param { suffix: String }, CatchAll }
    /// the documented matching rules: literal labels compare equal, `{param}` stands for the leading part of ONE label (at least one
    /// character), a leading `{*param}` for one or more labels, one trailing dot is ignored on either side
    fn model_matches(guard: &[Label], host: &str) -> bool {
        let host = host.strip_suffix('.').unwrap_or(host);
        if host.is_empty() { return false; }
        let hl: Vec<&str> = host.split('.').collect();
        if hl.iter().any(|l| l.is_empty()) { return false; }
        let one = |g: &Label, l: &str| match g {
            Label::Lit(x) => x == l,
            Label::Param { suffix } => l.len() > suffix.len() && l.ends_with(suffix.as_str()),
            Label::CatchAll => unreachable!(),
        };
        if let Some(Label::CatchAll) = guard.first() {
            let rest = &guard[1..];
            hl.len() > rest.len() && rest.iter().rev().zip(hl.iter().rev()).all(|(g, l)| one(g, l))
        } else {
            hl.len() == guard.len() && guard.iter().zip(hl.iter()).all(|(g, l)| one(g, l))
        }
    }
    fn render(guard: &[Label], names: &mut usize) -> String {
        guard.iter().map(|l| match l {
            Label::Lit(x) => x.clone(),
            Label::Param { suffix } => { *names += 1; format!("{{p{}}}{suffix}", *names) }
            Label::CatchAll => { *names += 1; format!("{{*p{}}}", *names) }
        }).collect::<Vec<_>>().join(".")
    }
    const LITS: [&str; 6] = ["api", "ui", "pavex", "dev", "a-b", "x1"];

    #[test]
    fn an_accepted_guard_matches_exactly_the_hosts_the_documentation_says() {
        let thorough = std::env::var("VERIF_TIER").map(|t| t == "thorough").unwrap_or(false);
        let worlds = if thorough { 20_000 } else { 1_500 };
        let mut rng = Rng(0x2545_F491_4F6C_DD1D);
        let mut n = 0;
        for _ in 0..worlds {
            // a guard the documentation calls valid: 1..4 labels, parameters at the start of a label, at most one catch-all, leading
            let n_labels = 1 + rng.below(4);
            let mut guard: Vec<Label> = Vec::new();
            for i in 0..n_labels {
                guard.push(match rng.below(6) {
                    0 if i == 0 && n_labels > 1 => Label::CatchAll,
                    1 | 2 => Label::Param { suffix: if rng.below(3) == 0 { LITS[rng.below(LITS.len())].to_string() } else { String::new() } },
                    _ => Label::Lit(LITS[rng.below(LITS.len())].to_string()),
                });
            }
            let mut names = 0;
            let text = render(&guard, &mut names) + if rng.below(4) == 0 { "." } else { "" };
            let g = DomainGuard::new(text.clone()).unwrap_or_else(|e| panic!("VERIF: `{text}` follows the documented rules but is rejected: {e}"));
            let mut router = matchit::Router::new();
            router.insert(g.matchit_pattern(), ()).unwrap_or_else(|e| panic!("VERIF: the pattern of `{text}` is not accepted by matchit: {e}"));
            for _ in 0..24 {
                // hosts: near misses of the guard (instantiate, then maybe add / drop / alter a label) and unrelated ones
                let mut labels: Vec<String> = Vec::new();
                for l in &guard { match l {
                    Label::Lit(x) => labels.push(if rng.below(8) == 0 { LITS[rng.below(LITS.len())].to_string() } else { x.clone() }),
                    Label::Param { suffix } => labels.push(format!("{}{}", if rng.below(8) == 0 { "" } else { LITS[rng.below(LITS.len())] }, suffix)),
                    Label::CatchAll => for _ in 0..rng.below(3) { labels.push(LITS[rng.below(LITS.len())].to_string()); },
                } }
                match rng.below(8) { 0 => { labels.insert(0, LITS[rng.below(LITS.len())].to_string()); } 1 if !labels.is_empty() => { labels.remove(0); } 2 => labels.push("com".into()), _ => {} }
                if labels.is_empty() || labels.iter().any(|l| l.is_empty()) { continue; }
                let host = labels.join(".") + if rng.below(4) == 0 { "." } else { "" };
                let got = router.at(&normalise(&host)).is_ok();
                let want = model_matches(&guard, &host);
                assert_eq!(got, want, "VERIF: guard `{text}` (pattern `{}`) vs host `{host}`: the router says {got}, the documented rules say {want}", g.matchit_pattern());
                n += 1;
            }
        }
        println!("VERIF-BOUNDED test=an_accepted_guard_matches_exactly_the_hosts_the_documentation_says evaluations={n} bound={worlds} pseudo-random documented-valid guards (1-4 labels, parameters with optional literal suffix, leading catch-all, optional trailing dot) x 24 near-miss hosts each, through the real DomainGuard and a real matchit router");
    }

    #[test]
    fn guards_the_documentation_forbids_are_rejected() {
        for bad in ["", ".", "a..b", "a.{*x}.dev", "{*x}.{*y}.dev", "{a}{b}.dev", "x{a}.dev", "{a.dev", "a}.dev", "{}.dev", "{*}.dev", "-a.dev", "a-.dev", "a_b.dev", "a b.dev", "{1a}.dev", "{a-b}.dev"] {
            assert!(DomainGuard::new(bad.to_string()).is_err(), "VERIF: `{bad}` must be rejected");
        }
        let long = "a".repeat(64);
        assert!(DomainGuard::new(format!("{long}.dev")).is_err(), "a 64-character label");
        assert!(DomainGuard::new(format!("{}.dev", "a".repeat(63))).is_ok(), "a 63-character label");
        for ok in ["pavex.dev", "pavex.dev.", "{sub}.pavex.dev", "{a}.{b}.pavex.dev", "{*any}.example.dev", "{sub}api.pavex.dev", "com", "x1.a-b.dev"] {
            assert!(DomainGuard::new(ok.to_string()).is_ok(), "VERIF: `{ok}` must be accepted");
        }
        println!("VERIF-BOUNDED test=guards_the_documentation_forbids_are_rejected evaluations=27 bound=17 forbidden and 10 permitted guard shapes taken from the documentation and the DNS rules it cites");
    }
}
