// Bounded native stand-in for C20 (appended to compiler/pavexc/src/compiler/analyses/domain.rs of the scratch copy). The validator and
// the pattern builder are outside what the verifier accepts: this test drives the REAL DomainGuard::new / matchit_pattern and a real
// matchit router (with the three normalisation steps the generated router spells out) against a model of the DOCUMENTED rules.
// Labelled bounded; never counted as proved.
#[cfg(test)]
mod verif_witness_c20 {
    use super::DomainGuard;
    struct Rng(u64);
    impl Rng { fn next(&mut self) -> u64 { self.0 ^= self.0 << 13; self.0 ^= self.0 >> 7; self.0 ^= self.0 << 17; self.0 } fn below(&mut self, n: usize) -> usize { (self.next() % n as u64) as usize } }

    /// the host normalisation of the GENERATED router: the method chain below is cut out of the quote! template in
    /// compiler/codegen/router.rs on every run (runner `splice`: the text between `.map(|a| a.host()` and the closing `);`, comment
    /// lines dropped) — it is the text the generated server will run, not a copy of it
    struct Authority<'a>(&'a str);
    impl<'a> Authority<'a> { fn host(&self) -> &'a str { self.0 } }
    fn normalise(host: &str) -> String { let a = Authority(host); a.host()/*VERIF-SPLICE host_normalisation*/ }

    #[derive(Clone, Debug)]
    enum Label { Lit(String), Param { suffix: String }, CatchAll }
    /// the documented matching rules: literal labels compare equal, `{param}` stands for the leading part of ONE label (at least one
    /// character), a leading `{*param}` for one or more labels, one trailing dot is ignored on either side
    fn model_matches(guard: &[Label], host: &str) -> bool {
        let host = host.strip_suffix('.').unwrap_or(host);
        if host.is_empty() { return false; }
        let hl: Vec<&str> = host.split('.').collect();
        if hl.iter().any(|l| l.is_empty()) { return false; }
        let one = |g: &Label, l: &str| match g {
            Label::Lit(x) => x == l,
            Label::Param { suffix } => l.len() > suffix.len() && l.ends_with(suffix.as_str()),
            Label::CatchAll => unreachable!(),
        };
        if let Some(Label::CatchAll) = guard.first() {
            let rest = &guard[1..];
            hl.len() > rest.len() && rest.iter().rev().zip(hl.iter().rev()).all(|(g, l)| one(g, l))
        } else {
            hl.len() == guard.len() && guard.iter().zip(hl.iter()).all(|(g, l)| one(g, l))
        }
    }
    fn render(guard: &[Label], names: &mut usize) -> String {
        guard.iter().map(|l| match l {
            Label::Lit(x) => x.clone(),
            Label::Param { suffix } => { *names += 1; format!("{{p{}}}{suffix}", *names) }
            Label::CatchAll => { *names += 1; format!("{{*p{}}}", *names) }
        }).collect::<Vec<_>>().join(".")
    }
    const LITS: [&str; 7] = ["api", "UI", "pavex", "dev", "a-b", "x1", "9gag"];

    #[test]
    fn an_accepted_guard_matches_exactly_the_hosts_the_documentation_says() {
        let thorough = std::env::var("VERIF_TIER").map(|t| t == "thorough").unwrap_or(false);
        let worlds = if thorough { 20_000 } else { 1_500 };
        let mut rng = Rng(0x2545_F491_4F6C_DD1D);
        let mut n = 0;
        let mut distinct: std::collections::HashSet<(String, String)> = std::collections::HashSet::new();
        let (mut shown_yes, mut shown_no) = (0, 0);
        for _ in 0..worlds {
            // a guard the documentation calls valid: 1..4 labels, parameters at the start of a label, at most one catch-all, leading
            let n_labels = 1 + rng.below(4);
            let mut guard: Vec<Label> = Vec::new();
            for i in 0..n_labels {
                guard.push(match rng.below(6) {
                    0 if i == 0 && n_labels > 1 => Label::CatchAll,
                    1 | 2 => Label::Param { suffix: if rng.below(3) == 0 { LITS[rng.below(LITS.len())].to_string() } else { String::new() } },
                    _ => Label::Lit(LITS[rng.below(LITS.len())].to_string()),
                });
            }
            let mut names = 0;
            let text = render(&guard, &mut names) + if rng.below(4) == 0 { "." } else { "" };
            let g = DomainGuard::new(text.clone()).unwrap_or_else(|e| panic!("VERIF: `{text}` follows the documented rules but is rejected: {e}"));
            let mut router = matchit::Router::new();
            router.insert(g.matchit_pattern(), ()).unwrap_or_else(|e| panic!("VERIF: the pattern of `{text}` is not accepted by matchit: {e}"));
            for _ in 0..24 {
                // hosts: near misses of the guard (instantiate, then maybe add / drop / alter a label) and unrelated ones
                let mut labels: Vec<String> = Vec::new();
                for l in &guard { match l {
                    Label::Lit(x) => labels.push(if rng.below(8) == 0 { LITS[rng.below(LITS.len())].to_string() } else { x.clone() }),
                    Label::Param { suffix } => labels.push(format!("{}{}", if rng.below(8) == 0 { "" } else { LITS[rng.below(LITS.len())] }, suffix)),
                    Label::CatchAll => for _ in 0..rng.below(3) { labels.push(LITS[rng.below(LITS.len())].to_string()); },
                } }
                match rng.below(8) { 0 => { labels.insert(0, LITS[rng.below(LITS.len())].to_string()); } 1 if !labels.is_empty() => { labels.remove(0); } 2 => labels.push("com".into()), _ => {} }
                if labels.is_empty() || labels.iter().any(|l| l.is_empty()) { continue; }
                let host = labels.join(".") + if rng.below(4) == 0 { "." } else { "" };
                let got = router.at(&normalise(&host)).is_ok();
                let want = model_matches(&guard, &host);
                assert_eq!(got, want, "VERIF: guard `{text}` (pattern `{}`) vs host `{host}`: the router says {got}, the documented rules say {want}", g.matchit_pattern());
                n += 1;
                if text.contains('{') && distinct.insert((text.clone(), host.clone())) {
                    if want && shown_yes < 3 { shown_yes += 1; println!("VERIF-SAMPLE guard `{text}` pattern `{}` host `{host}` normalised `{}` -> match (as documented)", g.matchit_pattern(), normalise(&host)); }
                    if !want && shown_no < 3 { shown_no += 1; println!("VERIF-SAMPLE guard `{text}` pattern `{}` host `{host}` normalised `{}` -> no match (as documented)", g.matchit_pattern(), normalise(&host)); }
                }
            }
        }
        println!("VERIF-EXPLORED test=an_accepted_guard_matches_exactly_the_hosts_the_documentation_says distinct_nontrivial={} rule=distinct (guard, host) pairs, counted in a set; non-trivial = the guard is templated (has a parameter or a catch-all); hosts are instantiations of the guard with a label altered, dropped or added, or a trailing dot", distinct.len());
        println!("VERIF-BOUNDED test=an_accepted_guard_matches_exactly_the_hosts_the_documentation_says evaluations={n} bound={worlds} pseudo-random documented-valid guards (1-4 labels, parameters with optional literal suffix, leading catch-all, optional trailing dot) x 24 near-miss hosts each, through the real DomainGuard and a real matchit router");
    }

    #[test]
    fn guards_the_documentation_forbids_are_rejected() {
        for bad in ["", ".", "a..b", "a.{*x}.dev", "{*x}.{*y}.dev", "{a}{b}.dev", "x{a}.dev", "{a.dev", "a}.dev", "{}.dev", "{*}.dev", "-a.dev", "a-.dev", "a_b.dev", "a b.dev", "{1a}.dev", "{a-b}.dev"] {
            assert!(DomainGuard::new(bad.to_string()).is_err(), "VERIF: `{bad}` must be rejected");
        }
        let long = "a".repeat(64);
        assert!(DomainGuard::new(format!("{long}.dev")).is_err(), "a 64-character label");
        assert!(DomainGuard::new(format!("{}.dev", "a".repeat(63))).is_ok(), "a 63-character label");
        for ok in ["pavex.dev", "pavex.dev.", "{sub}.pavex.dev", "{a}.{b}.pavex.dev", "{*any}.example.dev", "{sub}api.pavex.dev", "com", "x1.a-b.dev"] {
            assert!(DomainGuard::new(ok.to_string()).is_ok(), "VERIF: `{ok}` must be accepted");
        }
        println!("VERIF-BOUNDED test=guards_the_documentation_forbids_are_rejected evaluations=27 bound=17 forbidden and 10 permitted guard shapes taken from the documentation and the DNS rules it cites");
    }

    /// the documented rules, written down once more: a non-empty list of non-empty labels (one trailing dot allowed); a label is
    /// letters/digits/hyphens that neither starts nor ends with a hyphen, optionally preceded by ONE parameter `{name}` / `{*name}`
    /// (name a Rust identifier) at the very start of the label; a catch-all only in the first label
    fn model_valid(s: &str) -> bool {
        if s.is_empty() { return false; }
        let s = s.strip_suffix('.').unwrap_or(s);
        let ident = |n: &str| { let mut c = n.chars(); matches!(c.next(), Some(f) if f.is_ascii_alphabetic()) && c.all(|x| x.is_ascii_alphanumeric()) };
        s.split('.').enumerate().all(|(i, label)| {
            if label.is_empty() { return false; }
            let rest = if let Some(r) = label.strip_prefix('{') {
                let Some(end) = r.find('}') else { return false; };
                let (name, rest) = (&r[..end], &r[end + 1..]);
                let name = match name.strip_prefix('*') { Some(n) => { if i != 0 { return false; } n } None => name };
                if !ident(name) { return false; }
                rest
            } else { label };
            if label.starts_with('{') && rest.is_empty() { return true; }
            let b = rest.as_bytes();
            !rest.is_empty() && rest.chars().all(|c| c.is_ascii_alphanumeric() || c == '-')
                && (label.starts_with('{') || b[0].is_ascii_alphanumeric()) && b[b.len() - 1].is_ascii_alphanumeric()
        })
    }

    #[test]
    fn every_short_string_over_the_guard_alphabet_gets_the_documented_verdict() {
        let thorough = std::env::var("VERIF_TIER").map(|t| t == "thorough").unwrap_or(false);
        let max_len = if thorough { 7 } else { 5 };
        const ALPHABET: [char; 7] = ['a', '1', '-', '.', '{', '}', '*'];
        let mut n = 0usize;
        let (mut structured, mut accepted) = (0usize, 0usize);
        let mut idx = vec![0usize; 1];
        loop {
            let text: String = idx.iter().map(|i| ALPHABET[*i]).collect();
            let guard = DomainGuard::new(text.clone());
            let got = guard.is_ok();
            // "we don't accept anything that matchit would later reject": what detect_domain_conflicts' contract takes as its precondition
            if let Ok(g) = &guard {
                let mut fresh = matchit::Router::new();
                if let Err(e) = fresh.insert(g.matchit_pattern(), ()) { panic!("VERIF: `{text}` is accepted but its pattern `{}` is refused by an empty matchit router: {e}", g.matchit_pattern()); }
            }
            assert_eq!(got, model_valid(&text), "VERIF: `{text}`: accepted = {got}, the documented rules say {}", model_valid(&text));
            n += 1;
            if text.contains('{') || text.contains('.') { structured += 1; }
            if got { accepted += 1; if accepted % 97 == 1 && accepted < 400 { println!("VERIF-SAMPLE `{text}` -> accepted (as documented)"); } }
            else if n % 4001 == 0 { println!("VERIF-SAMPLE `{text}` -> rejected (as documented)"); }
            // next string in length-lexicographic order
            let mut k = idx.len();
            loop {
                if k == 0 { idx = vec![0; idx.len() + 1]; break; }
                k -= 1;
                if idx[k] + 1 < ALPHABET.len() { idx[k] += 1; for j in k + 1..idx.len() { idx[j] = 0; } break; }
            }
            if idx.len() > max_len { break; }
        }
        println!("VERIF-EXPLORED test=every_short_string_over_the_guard_alphabet_gets_the_documented_verdict distinct_nontrivial={structured} rule=every string is generated once (length-lexicographic enumeration, so all are distinct); non-trivial = has structure: contains a brace or a dot ({accepted} of all {n} strings are accepted)");
        println!("VERIF-BOUNDED test=every_short_string_over_the_guard_alphabet_gets_the_documented_verdict evaluations={n} bound=every string of length 1..={max_len} over the 7 symbols a 1 - . {{ }} * through the real DomainGuard::new, against a 20-line model of the documented rules");
    }

    #[test]
    fn length_limits_and_the_dns_alphabet_are_enforced_at_their_boundaries() {
        let a = |n: usize| "a".repeat(n);
        let ok = |s: String| assert!(DomainGuard::new(s.clone()).is_ok(), "VERIF: `{s}` ({} characters) must be accepted", s.len());
        let no = |s: String| assert!(DomainGuard::new(s.clone()).is_err(), "VERIF: `{s}` ({} characters) must be rejected", s.len());
        ok(format!("{}.dev", a(63))); no(format!("{}.dev", a(64)));
        // a parameter stands for at least one character
        ok(format!("{{p}}{}.dev", a(62))); no(format!("{{p}}{}.dev", a(63)));
        ok(format!("{{*p}}.{}.dev", a(63))); no(format!("{{*p}}.{}.dev", a(64)));
        // 253 characters in all, the trailing dot not counted
        ok(format!("{}.{}.{}.{}", a(63), a(63), a(63), a(61))); no(format!("{}.{}.{}.{}", a(63), a(63), a(63), a(62)));
        ok(format!("{}.{}.{}.{}.", a(63), a(63), a(63), a(61))); no(format!("{{p}}.{}.{}.{}.{}", a(63), a(63), a(63), a(60)));
        ok(format!("{{p}}.{}.{}.{}.{}", a(63), a(63), a(63), a(59)));
        // letters, digits, hyphens — ASCII only; a label may start with a digit
        for s in ["9gag.com", "api.1password.com", "1.1.1.1", "UI.Pavex.DEV", "a--b.dev"] { ok(s.to_string()); }
        for s in ["ex\u{e4}mple.com", "\u{e4}.com", "a\u{e4}.com", "ex!mple.com", "ex mple.com", "a_b.com", "a\u{3b2}c.dev", "{p}\u{e4}.dev", "\u{661}.dev"] { no(s.to_string()); }
        println!("VERIF-BOUNDED test=length_limits_and_the_dns_alphabet_are_enforced_at_their_boundaries evaluations=27 bound=13 boundary pairs for the 63-character label and 253-character total limits (plain, templated, trailing dot), 5 permitted and 9 forbidden alphabet cases");
    }
}
