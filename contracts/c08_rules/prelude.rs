// ======================================================================================
// C08 prelude — stand-ins / ASSUMED contracts for two rule checks of pavexc
// (cloneables_can_be_cloned, runtime_singletons_are_thread_safe).
// ======================================================================================
use core::marker::PhantomData;
use vstd::std_specs::cmp::PartialEqSpecImpl;

// ---- rustdoc_ir payloads (opaque) ----------------------------------------------------------------------
#[verifier::external_body] pub struct PathType { _p: u8 }
#[verifier::external_body] pub struct Tuple { _p: u8 }
#[verifier::external_body] pub struct ScalarPrimitive { _p: u8 }
#[verifier::external_body] pub struct Slice { _p: u8 }
#[verifier::external_body] pub struct Array { _p: u8 }
#[verifier::external_body] pub struct RawPointer { _p: u8 }
#[verifier::external_body] pub struct FunctionPointer { _p: u8 }
#[verifier::external_body] pub struct Generic { _p: u8 }
#[verifier::external_body] pub struct NamedLifetime { _p: u8 }

// ---- payloads of HydratedComponent (opaque) --------------------------------------------------------------
#[verifier::external_body] pub struct Constructor<'a> { _p: PhantomData<&'a u8> }
#[verifier::external_body] pub struct RequestHandler<'a> { _p: PhantomData<&'a u8> }
#[verifier::external_body] pub struct WrappingMiddleware<'a> { _p: PhantomData<&'a u8> }
#[verifier::external_body] pub struct PreProcessingMiddleware<'a> { _p: PhantomData<&'a u8> }
#[verifier::external_body] pub struct PostProcessingMiddleware<'a> { _p: PhantomData<&'a u8> }
#[verifier::external_body] pub struct Computation<'a> { _p: PhantomData<&'a u8> }
#[verifier::external_body] pub struct ErrorObserver<'a> { _p: PhantomData<&'a u8> }
#[verifier::external_body] pub struct TransformerInfo { _p: u8 }
#[verifier::external_body] pub struct ConfigType { _p: u8 }
#[verifier::external_body] #[verifier::accept_recursive_types(T)] pub struct Cow<'a, T> { _p: PhantomData<&'a T> }
/// ASSUMED: the output type of a hydrated component is a pure function of it (HydratedComponent::output_type is a match
/// over accessor calls of the payloads)
pub uninterp spec fn out_type<'a>(h: &HydratedComponent<'a>) -> Option<&'a Type>;
impl<'a> HydratedComponent<'a> {
    #[verifier::external_body] pub fn output_type(&self) -> (r: Option<&Type>) ensures r == out_type(self) { unimplemented!() }
}

// ---- the databases ---------------------------------------------------------------------------------------
#[derive(Clone, Copy)] pub struct ComponentId { pub raw: u32 }
#[verifier::external_body] pub struct Component { _p: u8 }
#[verifier::external_body] pub struct ComponentDb { _p: u8 }
#[verifier::external_body] pub struct ComputationDb { _p: u8 }
#[verifier::external_body] pub struct CrateCollection { _p: u8 }
/// every component id of the database, in arena order
pub uninterp spec fn db_ids(db: &ComponentDb) -> Seq<ComponentId>;
pub uninterp spec fn hydrated<'a>(db: &'a ComponentDb, id: ComponentId) -> HydratedComponent<'a>;
pub uninterp spec fn policy_of(db: &ComponentDb, id: ComponentId) -> CloningPolicy;
pub uninterp spec fn derived_from_of(db: &ComponentDb, id: ComponentId) -> Option<ComponentId>;
pub uninterp spec fn iter_items<'a>(db: &'a ComponentDb) -> Seq<(ComponentId, &'a Component)>;
/// An iterator as a ghost sequence of what it has yet to yield (rule N21 writes `for` out as `while let Some(..) = it.next()`)
#[verifier::external_body] #[verifier::accept_recursive_types(T)]
pub struct VerifIter<T> { _k: PhantomData<T> }
impl<T> View for VerifIter<T> { type V = Seq<T>; uninterp spec fn view(&self) -> Seq<T>; }
impl<T> VerifIter<T> {
    /// API neighbourhood (not called by the unchanged code): `Iterator::take` / `skip`
    #[verifier::external_body] pub fn take(self, n: usize) -> (r: VerifIter<T>) ensures r@ == self@.take(if n <= self@.len() { n as int } else { self@.len() as int }) { unimplemented!() }
    #[verifier::external_body] pub fn skip(self, n: usize) -> (r: VerifIter<T>) ensures r@ == self@.skip(if n <= self@.len() { n as int } else { self@.len() as int }) { unimplemented!() }
    #[verifier::external_body]
    pub fn next(&mut self) -> (r: Option<T>)
        ensures match r {
            Some(x) => old(self)@.len() > 0 && x == old(self)@[0] && final(self)@ == old(self)@.drop_first(),
            None => old(self)@.len() == 0 && final(self)@ == old(self)@,
        }
    { unimplemented!() }
}
impl ComponentDb {
    #[verifier::external_body]
    pub fn iter(&self) -> (r: VerifIter<(ComponentId, &Component)>)
        ensures r@.len() == db_ids(self).len(), forall |i: int| 0 <= i < db_ids(self).len() ==> (#[trigger] r@[i]).0 == db_ids(self)[i]
    { unimplemented!() }
    #[verifier::external_body]
    pub fn hydrated_component<'a, 'b: 'a>(&'a self, id: ComponentId, computation_db: &'b ComputationDb) -> (r: HydratedComponent<'a>)
        ensures r == hydrated(self, id) { unimplemented!() }
    /// API neighbourhood (not called by the unchanged code)
    #[verifier::external_body] pub fn derived_from(&self, component_id: &ComponentId) -> (r: Option<ComponentId>) ensures r == derived_from_of(self, *component_id) { unimplemented!() }
    #[verifier::external_body]
    pub fn cloning_policy(&self, component_id: ComponentId) -> (r: CloningPolicy) ensures r == policy_of(self, component_id) { unimplemented!() }
}
pub struct IndexSet<T> { pub v: Vec<T> }

// ---- oracles -----------------------------------------------------------------------------------------------
/// does the type implement the trait, according to the rustdoc JSON of the crate collection
pub uninterp spec fn implements(t: &Type, tr: &PathType) -> bool;
pub uninterp spec fn trait_named(raw: Seq<char>) -> PathType;
#[verifier::external_body] pub struct MissingTraitImplementationError { _p: u8 }
#[verifier::external_body]
pub fn assert_trait_is_implemented(krate_collection: &CrateCollection, type_: &Type, expected_trait: &PathType) -> (r: Result<(), MissingTraitImplementationError>)
    ensures r is Ok <==> implements(type_, expected_trait) { unimplemented!() }
#[verifier::external_body]
pub fn resolve_type_path(raw_path: &str, krate_collection: &CrateCollection) -> (r: Type)
    ensures r matches Type::Path(p) && p == trait_named(raw_path@) { unimplemented!() }

// ---- the diagnostic sink: a ghost count of the error diagnostics pushed so far ---------------------------------------
#[verifier::external_body] pub struct DiagnosticSink { _p: u8 }
pub uninterp spec fn errors(d: &DiagnosticSink) -> nat;
/// ASSUMED (diagnostic text built with format!/anyhow!/miette): pushes exactly one error diagnostic
#[verifier::external_body]
pub fn must_be_cloneable(e: MissingTraitImplementationError, type_: &Type, id: ComponentId, db: &ComponentDb, computation_db: &ComputationDb, diagnostics: &mut DiagnosticSink)
    ensures errors(final(diagnostics)) == errors(old(diagnostics)) + 1 { unimplemented!() }
#[verifier::external_body]
pub fn missing_trait_implementation(e: MissingTraitImplementationError, id: ComponentId, db: &ComponentDb, computation_db: &ComputationDb, diagnostics: &mut DiagnosticSink)
    ensures errors(final(diagnostics)) == errors(old(diagnostics)) + 1 { unimplemented!() }

/// what `for x in <value>` yields, in order (rule N21 hands every `for` iterable to `verif_into_iter`)
pub trait VerifIntoIter: Sized { type Item; spec fn verif_items(self) -> Seq<Self::Item>; }
impl<T> VerifIntoIter for VerifIter<T> { type Item = T; open spec fn verif_items(self) -> Seq<T> { self@ } }
impl<'a, T> VerifIntoIter for &'a Vec<T> { type Item = &'a T; open spec fn verif_items(self) -> Seq<&'a T> { Seq::new(self@.len(), |i: int| &self@[i]) } }
impl<'a, T> VerifIntoIter for &'a [T] { type Item = &'a T; open spec fn verif_items(self) -> Seq<&'a T> { Seq::new(self@.len(), |i: int| &self@[i]) } }
impl<T> VerifIntoIter for Vec<T> { type Item = T; open spec fn verif_items(self) -> Seq<T> { self@ } }
#[verifier::external_body]
pub fn verif_into_iter<I: VerifIntoIter>(i: I) -> (r: VerifIter<I::Item>) ensures r@ == i.verif_items() { unimplemented!() }
impl<'a, T> VerifIntoIter for &'a IndexSet<T> { type Item = &'a T; open spec fn verif_items(self) -> Seq<&'a T> { Seq::new(self.v@.len(), |i: int| &self.v@[i]) } }

// ---- rustdoc_ir::Callable: only the types of its input parameters, in order ----------------------------------------------
// payload types of the real `Callable` enum (extracted) that this unit never looks into
#[verifier::external_body] pub struct RustIdentifier { _p: u8 }
#[verifier::external_body] pub struct GlobalItemId { _p: u8 }
#[verifier::external_body] pub struct RustdocAbi { _p: u8 }
#[verifier::external_body] pub struct BTreeMapStringString { _p: u8 }
#[verifier::external_body] pub struct FreeFunctionPath { _p: u8 }
#[verifier::external_body] pub struct InherentMethodPath { _p: u8 }
#[verifier::external_body] pub struct TraitMethodPath { _p: u8 }
#[verifier::external_body] pub struct StructLiteralPath { _p: u8 }
#[verifier::external_body] pub struct EnumVariantConstructorPath { _p: u8 }
pub uninterp spec fn callable_inputs(c: &Callable) -> Seq<&Type>;
#[verifier::external_body] pub struct CallableInputs<'a> { _p: PhantomData<&'a u8> }
pub uninterp spec fn ci_seq<'a>(c: &CallableInputs<'a>) -> Seq<&'a Type>;
impl Callable {
    /// `self.inputs().iter().map(|i| &i.type_)`
    #[verifier::external_body] pub fn input_types(&self) -> (r: CallableInputs<'_>) ensures ci_seq(&r) == callable_inputs(self) { unimplemented!() }
    /// `Display`
    #[verifier::external_body] pub fn to_string(&self) -> String { unimplemented!() }
}
impl<'a> CallableInputs<'a> {
    /// `Iterator::enumerate`: the items paired with their positions
    #[verifier::external_body] pub fn enumerate(self) -> (r: VerifIter<(usize, &'a Type)>)
        ensures r@.len() == ci_seq(&self).len(), forall |i: int| 0 <= i < r@.len() ==> (#[trigger] r@[i]).0 == i && r@[i].1 == ci_seq(&self)[i] { unimplemented!() }
}

/// std: `Box<T>: AsRef<T>` (API neighbourhood)
pub assume_specification<T: ?Sized, A: core::alloc::Allocator>[<Box<T, A> as AsRef<T>>::as_ref](b: &Box<T, A>) -> (r: &T)
    ensures r == &**b;
