// ======================================================================================
// C08 spec — two documented rules as counting statements over the component database.
// ======================================================================================

/// Rule "clone-if-necessary on a type that is not Clone" (and: every configuration type must be Clone): the component
/// is subject to the rule and its output type does not implement Clone
pub open spec fn breaks_the_clone_rule(db: &ComponentDb, id: ComponentId) -> bool {
    let h = hydrated(db, id);
    let subject = match h {
        HydratedComponent::Constructor(_) => policy_of(db, id) == CloningPolicy::CloneIfNecessary,
        HydratedComponent::PrebuiltType(_) => policy_of(db, id) == CloningPolicy::CloneIfNecessary,
        HydratedComponent::ConfigType(_) => true,
        _ => false,
    };
    subject && (out_type(&h) matches Some(t) && !implements(t, &trait_named("core::clone::Clone"@)))
}
pub open spec fn clone_offenders(db: &ComponentDb, n: int) -> nat decreases n {
    if n <= 0 { 0 } else { clone_offenders(db, n - 1) + (if breaks_the_clone_rule(db, db_ids(db)[n - 1]) { 1nat } else { 0nat }) }
}
/// Rule "a singleton needed at request time must be Send + Sync": one diagnostic per missing trait
pub open spec fn missing_marker_traits(t: &Type) -> nat {
    (if implements(t, &trait_named("core::marker::Send"@)) { 0nat } else { 1nat }) + (if implements(t, &trait_named("core::marker::Sync"@)) { 0nat } else { 1nat })
}
pub open spec fn thread_safety_offences(s: Seq<(Type, ComponentId)>, n: int) -> nat decreases n {
    if n <= 0 { 0 } else { thread_safety_offences(s, n - 1) + missing_marker_traits(&s[n - 1].0) }
}
/// a blueprint that breaks the rule is reported: at least one error reaches the sink
pub proof fn a_violation_is_reported_clone(db: &ComponentDb, n: int, j: int)
    requires 0 <= j < n, breaks_the_clone_rule(db, db_ids(db)[j])
    ensures clone_offenders(db, n) >= 1
    decreases n
{
    if j < n - 1 { a_violation_is_reported_clone(db, n - 1, j); }
}
pub proof fn a_violation_is_reported_thread_safety(s: Seq<(Type, ComponentId)>, n: int, j: int)
    requires 0 <= j < n, missing_marker_traits(&s[j].0) >= 1
    ensures thread_safety_offences(s, n) >= 1
    decreases n
{
    if j < n - 1 { a_violation_is_reported_thread_safety(s, n - 1, j); }
}

/// Rule "a `&mut` input on a constructor / middleware / error handler / observer": input `i` is a mutable reference
pub open spec fn is_mut_ref(t: &Type) -> bool { t matches Type::Reference(r) && r.is_mutable }
pub open spec fn first_mut_ref(inputs: Seq<&Type>, i: int) -> bool {
    0 <= i < inputs.len() && is_mut_ref(inputs[i]) && forall |j: int| 0 <= j < i ==> !is_mut_ref(#[trigger] inputs[j])
}
