// ======================================================================================
// C15 prelude — percent_encoding / serde / matchit / http as uninterpreted functions.
// What is verified is pavex's glue: every raw path parameter is percent-decoded EXACTLY ONCE, keys and order are kept,
// the deserializer sees exactly the decoded pairs, a decoding failure is reported for the right key; the query string is
// handed to serde_html_form as it is.  The decoders and deserializers themselves (PathDeserializer included) are NOT
// within reach of a contract: they are covered by a bounded native stand-in (witness.rs), labelled bounded.
// ======================================================================================
use vstd::std_specs::iter::IteratorSpec;
pub assume_specification<T>[<T as From<T>>::from](t: T) -> (r: T) ensures r == t;


/// std: `impl From<&str> for String` copies the text.  `id.into()` on a parameter name is retyped to this call (rule N7):
/// vstd has no `IntoSpec` for `&str -> String` and the orphan rule forbids adding one.
#[verifier::external_body] pub fn str_into_string(s: &str) -> (r: String) ensures r@ == s@ { unimplemented!() }

// ---- percent_encoding ------------------------------------------------------------------------------
/// ONE application of percent-decoding followed by UTF-8 validation: `None` = the decoded bytes are not UTF-8
pub uninterp spec fn pct_decode(raw: Seq<char>) -> Option<Seq<char>>;
pub struct PercentDecode<'a> { pub raw: &'a str }
#[verifier::external_body] pub struct Utf8Error { _p: u8 }
impl Utf8Error {
    /// API neighbourhood (not called by the unchanged code): no postcondition
    #[verifier::external_body] pub fn error_len(&self) -> (r: Option<usize>) { unimplemented!() }
    #[verifier::external_body] pub fn valid_up_to(&self) -> (r: usize) { unimplemented!() }
}
pub fn percent_decode_str<'a>(s: &'a str) -> (r: PercentDecode<'a>) ensures r.raw@ == s@ { PercentDecode { raw: s } }
/// std::borrow::Cow<'a, str> (the payload type is fixed to `str`: `Cow<'r, str>` is retyped to `Cow<'r>`, rule N7)
pub enum Cow<'a> { Borrowed(&'a str), Owned(String) }
pub type CowStr<'a> = Cow<'a>;
impl<'a> View for Cow<'a> {
    type V = Seq<char>;
    open spec fn view(&self) -> Seq<char> { match self { Cow::Borrowed(s) => s@, Cow::Owned(s) => s@ } }
}
impl<'a> PercentDecode<'a> {
    #[verifier::external_body]
    pub fn decode_utf8(self) -> (r: Result<CowStr<'a>, Utf8Error>)
        ensures match r { Ok(c) => pct_decode(self.raw@) == Some(c@), Err(_) => pct_decode(self.raw@) is None }
    { unimplemented!() }
}

// ---- matchit::Params behind RawPathParams -------------------------------------------------------------
/// RawPathParams: the (name, raw segment) pairs matchit extracted, in route order.
/// ASSUMED: `iter()` yields exactly these pairs, each raw segment wrapped by `EncodedParamValue::new` (the wrapping is
/// `RawPathParamsIter::next`, a one-line map over matchit's iterator).
pub struct RawPathParams<'server, 'request> { pub v: Vec<(&'server str, EncodedParamValue<'request>)> }
impl<'server, 'request> RawPathParams<'server, 'request> {
    pub fn len(&self) -> (r: usize) ensures r == self.v@.len() { self.v.len() }
    #[verifier::external_body]
    pub fn iter(&self) -> (r: std::vec::IntoIter<(&'server str, EncodedParamValue<'request>)>)
        ensures r.remaining() == self.v@, r.obeys_prophetic_iter_laws(), r.will_return_none(), r.decrease() is Some
    { unimplemented!() }
}

/// matchit::ParamsIter: what it yields next is its own business (`peek_next`, uninterpreted)
#[verifier::external_body] pub struct ParamsIter<'e, 's, 'r> { _p: &'e &'s &'r u8 }
pub uninterp spec fn peek_next<'e, 's, 'r>(it: &ParamsIter<'e, 's, 'r>) -> Option<(&'s str, &'r str)>;
impl<'e, 's, 'r> ParamsIter<'e, 's, 'r> {
    #[verifier::external_body]
    pub fn next(&mut self) -> (r: Option<(&'s str, &'r str)>) ensures r == peek_next(old(self)) { unimplemented!() }
}

// ---- serde: what a list of decoded (name, value) pairs / a query string deserialises to ---------------------
#[verifier::external_body] pub struct PathDeserializationError { _p: u8 }
pub open spec fn pairs_view(v: Seq<(&str, CowStr<'_>)>) -> Seq<(Seq<char>, Seq<char>)> { v.map_values(|p: (&str, CowStr<'_>)| (p.0@, p.1@)) }
/// the PathDeserializer remembers exactly the slice it was built from
pub struct PathDeserializer { pub pairs: Ghost<Seq<(Seq<char>, Seq<char>)>> }
impl PathDeserializer {
    #[verifier::external_body]
    pub fn new(url_params: &Vec<(&str, CowStr<'_>)>) -> (r: PathDeserializer) ensures r.pairs@ == pairs_view(url_params@) { unimplemented!() }
}
pub trait Deserialize<'de>: Sized {
    /// what `T::deserialize(PathDeserializer)` yields for these decoded pairs (None = a deserialization error)
    spec fn from_pairs(p: Seq<(Seq<char>, Seq<char>)>) -> Option<Self>;
    /// what serde_html_form yields for these bytes of a query string
    spec fn from_query(q: Seq<u8>) -> Option<Self>;
    fn deserialize(d: PathDeserializer) -> (r: Result<Self, PathDeserializationError>)
        ensures match r { Ok(v) => Self::from_pairs(d.pairs@) == Some(v), Err(_) => Self::from_pairs(d.pairs@) is None };
}

// ---- http::Uri / RequestHead ------------------------------------------------------------------------------
#[verifier::external_body] pub struct Uri { _p: u8 }
pub uninterp spec fn uri_query(u: &Uri) -> Option<Seq<char>>;
impl Uri {
    #[verifier::external_body]
    pub fn query(&self) -> (r: Option<&str>) ensures match r { Some(q) => uri_query(self) == Some(q@), None => uri_query(self) is None } { unimplemented!() }
}
pub struct RequestHead { pub target: Uri }
/// `Option::<&str>::unwrap_or_default()`: vstd specifies only the `Some` case, and a second specification of a std function
/// is refused; the call is retyped to this stand-in (rule N7).  `<&str as Default>::default()` is the empty string (std).
#[verifier::external_body]
pub fn unwrap_or_default_str<'a>(o: Option<&'a str>) -> (r: &'a str)
    ensures match o { Some(s) => r@ == s@, None => r@ == Seq::<char>::empty() }
{ unimplemented!() }

// ---- form_urlencoded / serde_html_form / serde_path_to_error ---------------------------------------------------
/// the UTF-8 bytes of a string (vstd's own model; `str::as_bytes` is specified by vstd in terms of it)
pub open spec fn utf8(s: Seq<char>) -> Seq<u8> { vstd::utf8::encode_utf8(s) }
#[verifier::external_body] pub struct PathToFormError { _p: u8 }
pub mod form_urlencoded {
    use super::*;
    pub struct Parse { pub input: Ghost<Seq<u8>> }
    #[verifier::external_body] pub fn parse(b: &[u8]) -> (r: Parse) ensures r.input@ == b@ { unimplemented!() }
}
pub mod serde_html_form {
    use super::*;
    pub struct Deserializer { pub input: Ghost<Seq<u8>> }
    impl Deserializer { #[verifier::external_body] pub fn new(p: form_urlencoded::Parse) -> (r: Deserializer) ensures r.input@ == p.input@ { unimplemented!() } }
}
pub mod serde_path_to_error {
    use super::*;
    /// ASSUMED: the result is a function of the deserializer's input only
    #[verifier::external_body]
    pub fn deserialize<'de, T: Deserialize<'de>>(d: serde_html_form::Deserializer) -> (r: Result<T, PathToFormError>)
        ensures match r { Ok(v) => T::from_query(d.input@) == Some(v), Err(_) => T::from_query(d.input@) is None }
    { unimplemented!() }
}

// ---- the Content-Type gate of the typed body extractors: http headers + the `mime` crate, uninterpreted ---------------
#[verifier::external_body] pub struct HeaderValue { _p: u8 }
#[verifier::external_body] pub struct HeaderMap { _p: u8 }
#[verifier::external_body] pub struct HeaderName { _p: u8 }
pub struct ToStrError;
#[verifier::external_body] pub const fn content_type_header() -> HeaderName { unimplemented!() }
/// the Content-Type header, if any (the only header these functions ask for)
pub uninterp spec fn content_type_of(h: &HeaderMap) -> Option<HeaderValue>;
pub uninterp spec fn hv_str(v: &HeaderValue) -> Option<Seq<char>>;
impl HeaderMap {
    #[verifier::external_body]
    pub fn get(&self, n: HeaderName) -> (r: Option<&HeaderValue>)
        ensures match r { Some(v) => content_type_of(self) == Some(*v), None => content_type_of(self) is None }
    { unimplemented!() }
}
impl HeaderValue {
    #[verifier::external_body]
    pub fn to_str(&self) -> (r: Result<&str, ToStrError>)
        ensures match r { Ok(s) => hv_str(self) == Some(s@), Err(_) => hv_str(self) is None }
    { unimplemented!() }
}
pub uninterp spec fn parse_spec<F>(s: Seq<char>) -> Option<F>;
#[verifier::external_trait_specification]
pub trait ExFromStr: Sized { type ExternalTraitSpecificationFor: std::str::FromStr; type Err; }
/// `Option::is_some_and`
pub assume_specification<T, F: FnOnce(T) -> bool>[Option::<T>::is_some_and](o: Option<T>, f: F) -> (r: bool)
    where F: core::marker::Destruct
    requires o matches Some(t) ==> f.requires((t,)),
    ensures match o { Some(t) => f.ensures((t,), r), None => !r };
pub assume_specification<F: std::str::FromStr>[str::parse::<F>](s: &str) -> (r: Result<F, <F as std::str::FromStr>::Err>)
    ensures (r is Ok) == (parse_spec::<F>(s@) is Some), r is Ok ==> Some(r->Ok_0) == parse_spec::<F>(s@);
pub mod mime {
    use super::*;
    /// a parsed media type; its three names as the `mime` crate reports them (comparison with a literal is the crate's own,
    /// ASCII-case-insensitive one: `name_is`, uninterpreted)
    #[verifier::external_body] pub struct Mime { _p: u8 }
    #[verifier::external_body] pub struct Name<'a> { _p: &'a u8 }
    pub struct FromStrError;
    pub uninterp spec fn type_of(m: &Mime) -> Seq<char>;
    pub uninterp spec fn subtype_of(m: &Mime) -> Seq<char>;
    pub uninterp spec fn suffix_of(m: &Mime) -> Option<Seq<char>>;
    pub uninterp spec fn name_text(n: &Name<'_>) -> Seq<char>;
    /// `Name == "literal"` / `Name == Name`: the crate's comparison
    pub uninterp spec fn same_name(a: Seq<char>, b: Seq<char>) -> bool;
    impl std::str::FromStr for Mime { type Err = FromStrError; #[verifier::external_body] fn from_str(s: &str) -> (r: Result<Mime, FromStrError>) { unimplemented!() } }
    impl Mime {
        #[verifier::external_body] pub fn type_(&self) -> (r: Name<'_>) ensures name_text(&r) == type_of(self) { unimplemented!() }
        #[verifier::external_body] pub fn subtype(&self) -> (r: Name<'_>) ensures name_text(&r) == subtype_of(self) { unimplemented!() }
        #[verifier::external_body] pub fn suffix(&self) -> (r: Option<Name<'_>>)
            ensures match r { Some(n) => suffix_of(self) == Some(name_text(&n)), None => suffix_of(self) is None } { unimplemented!() }
    }
    impl<'a, 'b> PartialEq<&'b str> for Name<'a> { #[verifier::external_body] fn eq(&self, o: &&'b str) -> (r: bool) { unimplemented!() } }
    impl<'a, 'b> vstd::std_specs::cmp::PartialEqSpecImpl<&'b str> for Name<'a> {
        open spec fn obeys_eq_spec() -> bool { true }
        open spec fn eq_spec(&self, o: &&'b str) -> bool { same_name(name_text(self), (*o)@) }
    }
    impl<'a, 'b> PartialEq<Name<'b>> for Name<'a> { #[verifier::external_body] fn eq(&self, o: &Name<'b>) -> (r: bool) { unimplemented!() } }
    impl<'a, 'b> vstd::std_specs::cmp::PartialEqSpecImpl<Name<'b>> for Name<'a> {
        open spec fn obeys_eq_spec() -> bool { true }
        open spec fn eq_spec(&self, o: &Name<'b>) -> bool { same_name(name_text(self), name_text(o)) }
    }
    /// mime::APPLICATION / mime::WWW_FORM_URLENCODED (constants of an opaque type: retyped to calls, rule N7)
    #[verifier::external_body] pub fn application() -> (r: Name<'static>) ensures name_text(&r) == "application"@ { unimplemented!() }
    #[verifier::external_body] pub fn json() -> (r: Name<'static>) ensures name_text(&r) == "json"@ { unimplemented!() }
    #[verifier::external_body] pub fn www_form_urlencoded() -> (r: Name<'static>) ensures name_text(&r) == "x-www-form-urlencoded"@ { unimplemented!() }
}
#[verifier::external_body] pub struct PathError { _p: u8 }
#[verifier::external_body] pub struct FormError { _p: u8 }
