// Bounded stand-in for the parts of C15 no contract reaches (PathDeserializer, percent_encoding, form_urlencoded,
// serde_html_form, serde_json): pseudo-random values — reserved characters, multi-byte unicode, '%', '+', extreme numbers —
// are encoded the way a client would, pushed through the REAL routing/decoding/deserialisation path, and must come back
// exactly; malformed input must give the documented error, never a panic.  Labelled bounded; never counted as proved.
#[cfg(test)]
mod verif_witness_c15 {
use crate::request::RequestHead;
use crate::request::body::{BufferedBody, JsonBody, UrlEncodedBody};
use crate::request::path::errors::ExtractPathParamsError;
use crate::request::path::{PathParams, RawPathParams};
use crate::request::query::QueryParams;
use percent_encoding::{utf8_percent_encode, NON_ALPHANUMERIC};
use std::borrow::Cow;

struct Rng(u64);
impl Rng { fn n(&mut self, n: u64) -> u64 { self.0 ^= self.0 << 13; self.0 ^= self.0 >> 7; self.0 ^= self.0 << 17; self.0 % n } }
const PIECES: [&str; 26] = ["a", "Z", "0", " ", "%", "+", "/", "?", "#", "&", "=", "é", "日本", "😀", "-", ".", "~", "_", "%41", "%2F", "%25", "+%20", "\"", "\\", ":", ";"];
fn text(rng: &mut Rng, min: u64) -> String { (0..min + rng.n(5)).map(|_| PIECES[rng.n(PIECES.len() as u64) as usize]).collect() }
fn head(target: &str, content_type: Option<&str>) -> RequestHead {
    let mut headers = http::HeaderMap::new();
    if let Some(c) = content_type { headers.insert(http::header::CONTENT_TYPE, c.parse().unwrap()); }
    RequestHead { method: http::Method::GET, target: target.parse().unwrap(), version: http::Version::HTTP_11, headers }
}

#[derive(serde::Deserialize, Debug, PartialEq)]
struct Path<'a> { id: u64, signed: i64, small: u8, name: String, #[serde(borrow)] tag: Cow<'a, str>, flag: bool, ratio: f64, letter: char }

fn extract_path<'a, T: serde::Deserialize<'a>>(router: &'a matchit::Router<u8>, path: &'a str) -> Result<T, ExtractPathParamsError> {
    let m = router.at(path).expect("the route matches");
    PathParams::<T>::extract(RawPathParams::from(m.params)).map(|p| p.0)
}

#[test]
fn bounded_search_over_encoded_path_parameters() {
    let thorough = std::env::var("VERIF_TIER").map(|t| t == "thorough").unwrap_or(false);
    let n: u64 = if thorough { 1_000_000 } else { 20_000 };
    let mut router = matchit::Router::new();
    // the order of the parameters in the route differs from the order of the fields: matching is by name
    router.insert("/t/{tag}/n/{name}/{flag}/{letter}/i/{id}/{signed}/{small}/{ratio}", 1u8).unwrap();
    let mut rng = Rng(0x9E3779B97F4A7C15);
    let enc = |s: &str| utf8_percent_encode(s, NON_ALPHANUMERIC).to_string();
    for i in 0..n {
        let want = Path {
            id: [0, 1, u64::MAX, rng.n(u64::MAX)][rng.n(4) as usize], signed: [0, -1, i64::MIN, i64::MAX, rng.n(u64::MAX) as i64][rng.n(5) as usize],
            small: [0u8, 255, rng.n(256) as u8][rng.n(3) as usize], name: text(&mut rng, 1), tag: Cow::Owned(text(&mut rng, 1)), flag: rng.n(2) == 0,
            ratio: [0.0, -1.5, 1e300, 0.1, rng.n(1000) as f64 / 8.0][rng.n(5) as usize], letter: ['a', '%', '+', 'é', '日', '😀', ' '][rng.n(7) as usize],
        };
        let path = format!("/t/{}/n/{}/{}/{}/i/{}/{}/{}/{}", enc(&want.tag), enc(&want.name), want.flag, enc(&want.letter.to_string()), want.id, want.signed, want.small, want.ratio);
        let got: Path = extract_path(&router, &path).unwrap_or_else(|e| panic!("#{i}: {path:?} (a well-formed encoding of {want:?}) was rejected: {e:?}"));
        assert_eq!(got, want, "#{i}: {path:?}: the handler does not see the values the client encoded (decoding must happen exactly once, fields are matched by name)");
    }
    // malformed input: the documented error, never a panic, never a silently different value
    let cases: [(&str, &str); 7] = [
        ("/t/x/n/%FF%FE/true/a/i/1/1/1/1", "invalid UTF-8 after decoding"), ("/t/%C3%28/n/x/true/a/i/1/1/1/1", "invalid UTF-8 after decoding"),
        ("/t/x/n/x/true/a/i/18446744073709551616/1/1/1", "u64 overflow"), ("/t/x/n/x/true/a/i/1/1/256/1", "u8 overflow"),
        ("/t/x/n/x/yes/a/i/1/1/1/1", "not a bool"), ("/t/x/n/x/true/ab/i/1/1/1/1", "two chars for a char"), ("/t/x/n/x/true/a/i/-1/1/1/1", "negative for unsigned"),
    ];
    for (path, what) in cases {
        let r: Result<Path, _> = extract_path(&router, path);
        let e = r.expect_err(&format!("{what}: {path:?} must be rejected"));
        if what.starts_with("invalid UTF-8") {
            assert!(matches!(e, ExtractPathParamsError::InvalidUtf8InPathParameter(_)), "{what}: {e:?}");
            // the error names the offending parameter and its raw segment
            let (key, raw) = if path.contains("%FF%FE") { ("name", "%FF%FE") } else { ("tag", "%C3%28") };
            let msg = e.to_string();
            assert!(msg.contains(&format!("`{key}`")) && msg.contains(&format!("`{raw}`")), "{what}: the error must name parameter {key:?} and segment {raw:?}: {msg}");
        }
        else { assert!(matches!(e, ExtractPathParamsError::PathDeserializationError(_)), "{what}: {e:?}"); }
    }
    // decoding happens exactly once: the client sent the three characters `%41`
    #[derive(serde::Deserialize, Debug, PartialEq)] struct One { v: String }
    let mut r1 = matchit::Router::new(); r1.insert("/{v}", 1u8).unwrap();
    assert_eq!(extract_path::<One>(&r1, "/%2541").unwrap().v, "%41");
    assert_eq!(extract_path::<One>(&r1, "/a+b%2Bc%20d").unwrap().v, "a+b+c d", "`+` is not a space in a path");
    // catch-all parameters keep their slashes, trailing one included; a two-field struct over a two-parameter route in the
    // opposite order (matching is by name, never by position); a single u128 / i8 / String-with-only-reserved-characters
    #[derive(serde::Deserialize, Debug, PartialEq)] struct Files { path: String }
    let mut r2 = matchit::Router::new(); r2.insert("/files/{*path}", 1u8).unwrap();
    assert_eq!(extract_path::<Files>(&r2, "/files/a/b%2Fc/").unwrap().path, "a/b/c/");
    #[derive(serde::Deserialize, Debug, PartialEq)] struct Swapped { second: String, first: String }
    let mut r3 = matchit::Router::new(); r3.insert("/{first}/{second}", 1u8).unwrap();
    assert_eq!(extract_path::<Swapped>(&r3, "/1st/2nd").unwrap(), Swapped { first: "1st".into(), second: "2nd".into() });
    #[derive(serde::Deserialize, Debug, PartialEq)] struct Wide { big: u128, tiny: i8 }
    let mut r4 = matchit::Router::new(); r4.insert("/{tiny}/{big}", 1u8).unwrap();
    assert_eq!(extract_path::<Wide>(&r4, "/-128/340282366920938463463374607431768211455").unwrap(), Wide { big: u128::MAX, tiny: i8::MIN });
    assert!(extract_path::<Wide>(&r4, "/-129/1").is_err() && extract_path::<Wide>(&r4, "/+1/1").is_ok() == "+1".parse::<i8>().is_ok(), "numbers are parsed the way str::parse does");
    assert!(extract_path::<Wide>(&r4, "/%201/1").is_err(), "a number with an encoded leading space is not a number");
    // long unparsable values with multi-byte characters at every offset around 64: the documented error, never a panic
    for pad in 55..75usize {
        for filler in ["é", "日", "😀"] {
            let v = format!("{}{}", "9".repeat(pad), filler.repeat(6));
            let path = format!("/1/{}", enc(&v));
            let r = std::panic::catch_unwind(std::panic::AssertUnwindSafe(|| extract_path::<Wide>(&r4, &path).is_err()));
            assert!(matches!(r, Ok(true)), "a {}-byte unparsable value with a multi-byte character near offset 64 must be rejected cleanly, got {r:?}", v.len());
        }
    }
    // values are taken as they are: surrounding blanks are part of a string, and make a number / boolean / char invalid
    assert_eq!(extract_path::<One>(&r1, "/%20padded%20").unwrap().v, " padded ");
    assert!(extract_path::<Wide>(&r4, "/1%20/1").is_err() && extract_path::<Wide>(&r4, "/1/%091").is_err(), "a padded number is not a number");
    #[derive(serde::Deserialize, Debug, PartialEq)] struct Flag { on: bool, c: char }
    let mut r5 = matchit::Router::new(); r5.insert("/{on}/{c}", 1u8).unwrap();
    assert!(extract_path::<Flag>(&r5, "/true%20/a").is_err(), "a padded boolean is not a boolean");
    assert_eq!(extract_path::<Flag>(&r5, "/true/%20").unwrap(), Flag { on: true, c: ' ' }, "a single blank is a valid char");
    println!("VERIF-BOUNDED test=bounded_search_over_encoded_path_parameters evaluations={n} bound=pseudo-random values (fixed seed) for one 8-field struct (u64, i64, u8, String, Cow<str>, bool, f64, char), strings of 1-5 pieces out of 26 (reserved characters, multi-byte unicode, '%', '+', pre-encoded look-alikes), percent-encoded once, routed by the real matchit router; plus 7 malformed inputs");
}

#[derive(serde::Deserialize, serde::Serialize, Debug, PartialEq)]
struct Form { id: u32, name: String, note: Option<String>, flag: bool, big: i64 }

#[test]
fn bounded_search_over_query_strings_forms_and_json() {
    let thorough = std::env::var("VERIF_TIER").map(|t| t == "thorough").unwrap_or(false);
    let n: u64 = if thorough { 300_000 } else { 10_000 };
    let mut rng = Rng(0xD1B54A32D192ED03);
    for i in 0..n {
        let want = Form { id: [0, u32::MAX, rng.n(1 << 32) as u32][rng.n(3) as usize], name: text(&mut rng, 0), note: if rng.n(3) == 0 { None } else { Some(text(&mut rng, 1)) } /* serde_html_form reads an empty value as None for an Option: not generated */,
            flag: rng.n(2) == 0, big: [i64::MIN, i64::MAX, 0, rng.n(u64::MAX) as i64][rng.n(4) as usize] };
        // what a client sends: application/x-www-form-urlencoded pairs (absent key for None), in a shuffled order
        let mut pairs: Vec<(&str, String)> = vec![("id", want.id.to_string()), ("name", want.name.clone()), ("flag", want.flag.to_string()), ("big", want.big.to_string())];
        if let Some(note) = &want.note { pairs.push(("note", note.clone())); }
        let k = rng.n(pairs.len() as u64) as usize; pairs.rotate_left(k);
        let encoded = form_urlencoded::Serializer::new(String::new()).extend_pairs(pairs.iter().map(|(k, v)| (*k, v.as_str()))).finish();
        let h = head(&format!("/search?{encoded}"), Some("application/x-www-form-urlencoded"));
        let got = QueryParams::<Form>::extract(&h).unwrap_or_else(|e| panic!("#{i}: query {encoded:?} (a well-formed encoding of {want:?}) was rejected: {e:?}")).0;
        assert_eq!(got, want, "#{i}: query {encoded:?}: the handler does not see the values the client encoded");
        let body = BufferedBody { bytes: encoded.clone().into_bytes().into() };
        let got = UrlEncodedBody::<Form>::extract(&h, &body).unwrap_or_else(|e| panic!("#{i}: form {encoded:?} was rejected: {e:?}")).0;
        assert_eq!(got, want, "#{i}: form body {encoded:?}");
        let json = serde_json::to_vec(&want).unwrap();
        let hj = head("/", Some("application/json"));
        let got = JsonBody::<Form>::extract(&hj, &BufferedBody { bytes: json.into() }).unwrap_or_else(|e| panic!("#{i}: JSON of {want:?} was rejected: {e:?}")).0;
        assert_eq!(got, want, "#{i}: JSON body");
    }
    // large inputs are not cut short: every one of 3000 sequence entries arrives, in order, in a query and in a form
    {
        #[derive(serde::Deserialize, Debug, PartialEq)] struct Many { ids: Vec<u32>, last: String }
        let want: Vec<u32> = (0..3000).collect();
        let mut ser = form_urlencoded::Serializer::new(String::new());
        for i in &want { ser.append_pair("ids", &i.to_string()); }
        ser.append_pair("last", "end");
        let encoded = ser.finish();
        let h = head(&format!("/p?{encoded}"), Some("application/x-www-form-urlencoded"));
        assert_eq!(QueryParams::<Many>::extract(&h).expect("a long query string is still a query string").0, Many { ids: want.clone(), last: "end".into() });
        let got = UrlEncodedBody::<Many>::extract(&h, &BufferedBody { bytes: encoded.into_bytes().into() }).expect("a long form is still a form").0;
        assert_eq!((got.ids.len(), got.ids == want, got.last.as_str()), (3000, true, "end"), "a long form was cut short");
    }
    // sequences, missing fields, wrong types, wrong content type: documented errors, no panic
    #[derive(serde::Deserialize, Debug, PartialEq)] struct Seq { ids: Vec<u32> }
    assert_eq!(QueryParams::<Seq>::extract(&head("/p?ids=1&ids=2&ids=4294967295", None)).unwrap().0, Seq { ids: vec![1, 2, u32::MAX] });
    assert!(QueryParams::<Form>::extract(&head("/p?id=1", None)).is_err(), "missing fields");
    assert!(QueryParams::<Form>::extract(&head("/p?id=x&name=a&flag=true&big=1", None)).is_err(), "wrong type");
    assert!(QueryParams::<Form>::extract(&head("/p?id=4294967296&name=a&flag=true&big=1", None)).is_err(), "u32 overflow");
    assert!(QueryParams::<Form>::extract(&head("/p", None)).is_err(), "no query string at all: the fields are missing");
    let body = BufferedBody { bytes: "id=1&name=a&flag=true&big=1".into() };
    assert!(UrlEncodedBody::<Form>::extract(&head("/", Some("application/json")), &body).is_err(), "wrong content type");
    assert!(UrlEncodedBody::<Form>::extract(&head("/", None), &body).is_err(), "missing content type");
    assert!(JsonBody::<Form>::extract(&head("/", Some("text/plain")), &BufferedBody { bytes: "{}".into() }).is_err(), "wrong content type");
    assert!(JsonBody::<Form>::extract(&head("/", Some("application/json")), &BufferedBody { bytes: "{\"id\":1".into() }).is_err(), "truncated JSON");
    assert!(UrlEncodedBody::<Form>::extract(&head("/", Some("application/x-www-form-urlencoded")), &BufferedBody { bytes: vec![b'n', b'a', b'm', b'e', b'=', 0xFF, 0xFE].into() }).is_err(), "invalid UTF-8 in a form");
    // invalid UTF-8 after percent-decoding in a query string / form: the statement demands the documented error. form_urlencoded
    // decodes lossily (WHATWG URL), so pavex answers Ok with U+FFFD: reported as a NAMED deviation (see known_findings.json);
    // anything else than {documented error, lossy U+FFFD value} is a failure.
    #[derive(serde::Deserialize, Debug, PartialEq)] struct OnlyName { name: String }
    match QueryParams::<OnlyName>::extract(&head("/p?name=Z%FCrich", None)) {
        Err(_) => {}
        Ok(q) if q.0.name == "Z\u{FFFD}rich" => println!("VERIF-DEVIATION id=query.invalid_utf8_is_decoded_lossily QueryParams::extract on `?name=Z%FCrich` (0xFC is not UTF-8) returned Ok(name = {:?}) instead of the documented extraction error", q.0.name),
        Ok(q) => panic!("`?name=Z%FCrich`: neither an error nor the lossy decoding: {:?}", q.0),
    }
    match UrlEncodedBody::<OnlyName>::extract(&head("/", Some("application/x-www-form-urlencoded")), &BufferedBody { bytes: "name=Z%FCrich".into() }) {
        Err(_) => {}
        Ok(q) if q.0.name == "Z\u{FFFD}rich" => println!("VERIF-DEVIATION id=form.invalid_utf8_is_decoded_lossily UrlEncodedBody::extract on `name=Z%FCrich` returned Ok(name = {:?}) instead of the documented extraction error", q.0.name),
        Ok(q) => panic!("form `name=Z%FCrich`: neither an error nor the lossy decoding: {:?}", q.0),
    }
    // an empty body is not a JSON document, whatever the target type would accept
    #[derive(serde::Deserialize, Debug, PartialEq)] struct Unit;
    let hj = head("/", Some("application/json"));
    let empty = BufferedBody { bytes: Vec::<u8>::new().into() };
    assert!(JsonBody::<Option<Form>>::extract(&hj, &empty).is_err(), "an empty body was read as `null`");
    assert!(JsonBody::<()>::extract(&hj, &empty).is_err() && JsonBody::<serde_json::Value>::extract(&hj, &empty).is_err() && JsonBody::<Option<u8>>::extract(&hj, &empty).is_err(), "an empty body was read as a JSON value");
    assert!(JsonBody::<Option<u8>>::extract(&hj, &BufferedBody { bytes: "null".into() }).unwrap().0.is_none(), "`null` is a JSON document");
    assert!(JsonBody::<Form>::extract(&hj, &BufferedBody { bytes: "   ".into() }).is_err(), "blanks are not a JSON document");
    // the content-type gate, both ways: what the documentation lists is accepted, everything else is the documented error
    let json_body = BufferedBody { bytes: serde_json::to_vec(&Form { id: 1, name: "n".into(), note: None, flag: true, big: 1 }).unwrap().into() };
    for ct in ["application/json", "application/json; charset=utf-8", "application/vnd.api+json", "application/problem+json", "APPLICATION/JSON", "application/ld+json;profile=x"] {
        assert!(JsonBody::<Form>::extract(&head("/", Some(ct)), &json_body).is_ok(), "Content-Type {ct:?} is a JSON media type and must be accepted");
    }
    for ct in ["application/x-ndjson", "application/ndjson", "application/jsonl", "application/json-seq", "text/json", "text/plain", "application/xml", "application/jsonp", "json", "application/x-www-form-urlencoded", "multipart/form-data; boundary=x"] {
        let e = JsonBody::<Form>::extract(&head("/", Some(ct)), &json_body).expect_err(&format!("Content-Type {ct:?} is not a JSON media type: the documented mismatch error is due"));
        assert!(matches!(e, crate::request::body::errors::ExtractJsonBodyError::ContentTypeMismatch(_)), "Content-Type {ct:?}: {e:?}");
    }
    assert!(matches!(JsonBody::<Form>::extract(&head("/", None), &json_body), Err(crate::request::body::errors::ExtractJsonBodyError::MissingContentType(_))));
    let form_body = BufferedBody { bytes: "id=1&name=n&flag=true&big=1".into() };
    for ct in ["application/x-www-form-urlencoded", "application/x-www-form-urlencoded; charset=utf-8", "APPLICATION/X-WWW-FORM-URLENCODED"] {
        assert!(UrlEncodedBody::<Form>::extract(&head("/", Some(ct)), &form_body).is_ok(), "Content-Type {ct:?} must be accepted");
    }
    for ct in ["multipart/form-data; boundary=x", "text/plain", "application/json", "text/x-www-form-urlencoded", "application/www-form-urlencoded"] {
        let e = UrlEncodedBody::<Form>::extract(&head("/", Some(ct)), &form_body).expect_err(&format!("Content-Type {ct:?} is not a urlencoded form"));
        assert!(matches!(e, crate::request::body::errors::ExtractUrlEncodedBodyError::ContentTypeMismatch(_)), "Content-Type {ct:?}: {e:?}");
    }
    println!("VERIF-BOUNDED test=bounded_search_over_query_strings_forms_and_json evaluations={n} bound=pseudo-random values (fixed seed) for one 5-field struct (u32, String, Option<String>, bool, i64) sent as a query string, as a urlencoded form and as JSON; strings of 0-4 pieces out of 26; plus 10 malformed inputs");
}
}
