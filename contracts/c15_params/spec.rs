// C15 spec: what the deserializer must be given — every raw value decoded exactly once, keys and order kept.
pub open spec fn raw_of(p: (&str, EncodedParamValue<'_>)) -> Seq<char> { p.1.0@ }
/// all raw values decode (to valid UTF-8)
pub open spec fn all_decode(v: Seq<(&str, EncodedParamValue<'_>)>) -> bool {
    forall |i: int| 0 <= i < v.len() ==> pct_decode(#[trigger] raw_of(v[i])) is Some
}
/// the decoded (name, value) pairs, in order
pub open spec fn decoded_once(v: Seq<(&str, EncodedParamValue<'_>)>) -> Seq<(Seq<char>, Seq<char>)> {
    v.map_values(|p: (&str, EncodedParamValue<'_>)| (p.0@, pct_decode(raw_of(p))->0))
}
