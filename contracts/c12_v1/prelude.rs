// Stand-ins for third-party / out-of-unit types mentioned by `finalize_session`.
// ASSUMED contracts (trusted base): each `external_body` below.
#[verifier::external_body] pub struct Response { _p: u8 }
#[verifier::external_body] pub struct ResponseCookies { _p: u8 }
#[verifier::external_body] pub struct Processor { _p: u8 }
#[verifier::external_body] pub struct ResponseCookie<'a> { _p: &'a u8 }
#[verifier::external_body] pub struct Session<'store> { _p: &'store u8 }
#[verifier::external_body] pub struct SerdeJsonError { _p: u8 }
#[verifier::external_body] pub struct SyncError { _p: u8 }
pub struct ClientSessionState<'a> { pub s: &'a Session<'a> }

pub uninterp spec fn cookies_view(c: &ResponseCookies) -> Seq<ResponseCookie<'static>>;
pub uninterp spec fn cookie_name(c: &ResponseCookie<'static>) -> Seq<char>;
pub uninterp spec fn will_encrypt(p: &Processor, name: Seq<char>) -> bool;
pub uninterp spec fn will_sign(p: &Processor, name: Seq<char>) -> bool;
/// `session.client().is_empty()` (C11 contract of client_is_empty: no client-side key/value)
pub uninterp spec fn client_empty(s: &Session) -> bool;

impl ResponseCookie<'static> {
    #[verifier::external_body]
    pub fn name(&self) -> (r: &str) ensures r@ == cookie_name(self) { unimplemented!() }
}
impl Processor {
    #[verifier::external_body]
    pub fn will_encrypt(&self, name: &str) -> (r: bool) ensures r == will_encrypt(self, name@) { unimplemented!() }
    #[verifier::external_body]
    pub fn will_sign(&self, name: &str) -> (r: bool) ensures r == will_sign(self, name@) { unimplemented!() }
}
impl ResponseCookies {
    /// biscotti: `insert` adds exactly this cookie to the jar (replacing a same-id one is modelled as push:
    /// the property speaks about which cookies are *attached*, and the jar is only ever appended to here).
    #[verifier::external_body]
    pub fn insert(&mut self, c: ResponseCookie<'static>)
        ensures cookies_view(final(self)) == cookies_view(old(self)).push(c)
    { unimplemented!() }
}
impl<'a> ClientSessionState<'a> {
    #[verifier::external_body]
    pub fn is_empty(&self) -> (r: bool) ensures r == client_empty(self.s) { unimplemented!() }
}
impl<'store> Session<'store> {
    #[verifier::external_body]
    pub fn client(&self) -> (r: ClientSessionState<'_>) ensures r.s == self { unimplemented!() }
    /// No postcondition assumed on the returned cookie: the middleware must protect *whatever* finalize returns.
    /// finalize does not change the client-side emptiness observed before it (C11-V2 proves the frame).
    #[verifier::external_body]
    pub fn finalize(&mut self) -> (r: Result<Option<ResponseCookie<'static>>, FinalizeError>)
        ensures client_empty(final(self)) == client_empty(old(self))
    { unimplemented!() }
}
