// Bounded stand-in for the SQLite session store (C13): its semantics live in SQL strings executed by an external
// engine, which no Rust verifier reads. Random histories of store operations over three ids are run against the real
// SqliteSessionStore (in-memory database) and compared, after every operation, with the map-with-expiry of the
// property statement. Labelled bounded; never counted as proved.
use pavex_session::store::errors::*;
use pavex_session::store::{SessionRecordRef, SessionStorageBackend};
use pavex_session::SessionId;
use pavex_session_sqlx::SqliteSessionStore;
use std::borrow::Cow;
use std::collections::HashMap;
use std::time::Duration;

type State = HashMap<Cow<'static, str>, serde_json::Value>;
fn st(k: &str, v: i64) -> State { let mut m = State::new(); m.insert(k.to_string().into(), v.into()); m }
fn rec(s: &State, ttl: Duration) -> SessionRecordRef<'_> { SessionRecordRef { state: Cow::Borrowed(s), ttl } }
const LONG: Duration = Duration::from_secs(3600);
async fn store() -> SqliteSessionStore {
    let pool = sqlx::sqlite::SqlitePoolOptions::new().max_connections(1).connect("sqlite::memory:").await.unwrap();
    let s = SqliteSessionStore::new(pool);
    s.migrate().await.unwrap();
    s
}

/// TTLs that need no waiting: a zero TTL is a record that has already expired (`deadline > unixepoch()` is false from
/// the very second it is written), 5 s and 1 h ones outlive a history.
#[tokio::test]
async fn bounded_search_over_sqlite_store_histories() {
    use std::num::NonZeroUsize;
    #[derive(Clone)] struct Rec { state: State, ttl: Duration }
    let thorough = std::env::var("VERIF_TIER").map(|t| t == "thorough").unwrap_or(false);
    let n_histories: u64 = if thorough { 20_000 } else { 600 };
    let ttls = [Duration::ZERO, Duration::from_secs(5), LONG];
    let mut seed: u64 = 0xD1B54A32D192ED03;
    let mut rnd = |n: u64| -> u64 { seed ^= seed << 13; seed ^= seed >> 7; seed ^= seed << 17; seed % n };
    let mut deviations: std::collections::BTreeMap<&'static str, String> = Default::default();
    for h in 0..n_histories {
        let s = store().await;
        let ids = [SessionId::random(), SessionId::random(), SessionId::random()];
        let mut live: HashMap<usize, Rec> = HashMap::new();   // the reference model: live records only
        let mut maybe_dead: usize = 0;                        // upper bound on expired records still held
        let mut log: Vec<String> = Vec::new();
        for step in 0..14 {
            let (i, j) = (rnd(3) as usize, rnd(3) as usize);
            let ttl = ttls[rnd(3) as usize];
            // sometimes the very state the record already holds (an unchanged state with another TTL must still take effect)
            let state = match live.get(&i) { Some(m) if rnd(4) == 0 => m.state.clone(), _ => st(["a", "b"][rnd(2) as usize], (h * 100 + step) as i64) };
            let ctx = |log: &Vec<String>| format!("history {h}: {}", log.join("; "));
            match rnd(8) {
                0 | 1 => {
                    log.push(format!("create({i}, ttl={ttl:?})"));
                    let r = s.create(&ids[i], rec(&state, ttl)).await;
                    if let Some(before) = live.get(&i).cloned() {
                        match r {
                            Err(CreateError::DuplicateId(_)) => {}
                            Ok(()) => {
                                // "create never overwrites a live record": checked by the observation below (the model keeps
                                // the old record). A create that reports success although nothing was written is a NAMED deviation
                                // from "load returns exactly what the last successful create/update wrote".
                                let _ = before;
                                deviations.entry("sqlite.create_over_a_live_record_returns_ok_without_writing")
                                    .or_insert_with(|| format!("create over a live record returned Ok(()) — {}", ctx(&log)));
                            }
                            Err(e) => panic!("create over a live record failed with {e:?}, not DuplicateId — {}", ctx(&log)),
                        }
                    } else {
                        assert!(r.is_ok(), "create on an absent/expired id must succeed, got {r:?} — {}", ctx(&log));
                        if ttl.is_zero() { maybe_dead += 1 } else { live.insert(i, Rec { state, ttl }); }
                    }
                }
                2 => {
                    log.push(format!("update({i}, ttl={ttl:?})"));
                    let r = s.update(&ids[i], rec(&state, ttl)).await;
                    if live.contains_key(&i) {
                        assert!(r.is_ok(), "update of a live record must succeed, got {r:?} — {}", ctx(&log));
                        if ttl.is_zero() { live.remove(&i); maybe_dead += 1 } else { live.insert(i, Rec { state, ttl }); }
                    } else {
                        assert!(matches!(r, Err(UpdateError::UnknownIdError(_))), "update of an absent/expired record must fail with UnknownId, got {r:?} — {}", ctx(&log));
                    }
                }
                3 => {
                    log.push(format!("update_ttl({i}, ttl={ttl:?})"));
                    let r = s.update_ttl(&ids[i], ttl).await;
                    if live.contains_key(&i) {
                        assert!(r.is_ok(), "update_ttl of a live record must succeed, got {r:?} — {}", ctx(&log));
                        if ttl.is_zero() { live.remove(&i); maybe_dead += 1 } else { live.get_mut(&i).unwrap().ttl = ttl; }
                    } else {
                        assert!(matches!(r, Err(UpdateTtlError::UnknownId(_))), "update_ttl of an absent/expired record must fail with UnknownId, got {r:?} — {}", ctx(&log));
                    }
                }
                4 => {
                    log.push(format!("delete({i})"));
                    let r = s.delete(&ids[i]).await;
                    if live.remove(&i).is_some() { assert!(r.is_ok(), "delete of a live record must succeed, got {r:?} — {}", ctx(&log)); }
                    else { assert!(matches!(r, Err(DeleteError::UnknownId(_))), "delete of an absent/expired record must fail with UnknownId, got {r:?} — {}", ctx(&log)); }
                }
                5 | 6 => {
                    log.push(format!("change_id({i} -> {j})"));
                    let r = s.change_id(&ids[i], &ids[j]).await;
                    if i == j {
                        // renaming a record to its own id is not specified by the statement: Ok or DuplicateId when it is live
                        // (either way the observation below demands that nothing changed), UnknownId when it is not
                        if live.contains_key(&i) { assert!(matches!(r, Ok(()) | Err(ChangeIdError::DuplicateId(_))), "change_id({i} -> {i}) on a live record — {}", ctx(&log)); }
                        else { assert!(matches!(r, Err(ChangeIdError::UnknownId(_))), "change_id of an absent/expired record must fail with UnknownId — {}", ctx(&log)); }
                    } else { match (live.contains_key(&i), live.contains_key(&j)) {
                        (true, false) => { assert!(r.is_ok(), "change_id of a live record onto an id that holds no live record must take effect, got {r:?} — {}", ctx(&log)); let m = live.remove(&i).unwrap(); live.insert(j, m); }
                        (false, false) => assert!(matches!(r, Err(ChangeIdError::UnknownId(_))), "change_id of an absent/expired record must fail with UnknownId, got {r:?} — {}", ctx(&log)),
                        (true, true) => assert!(matches!(r, Err(ChangeIdError::DuplicateId(_))), "change_id onto a live id must fail with DuplicateId, got {r:?} — {}", ctx(&log)),
                        (false, true) => assert!(matches!(r, Err(ChangeIdError::DuplicateId(_)) | Err(ChangeIdError::UnknownId(_))), "change_id must fail, got {r:?} — {}", ctx(&log)),
                    } }
                }
                _ => {
                    let batch = [None, NonZeroUsize::new(1), NonZeroUsize::new(2), NonZeroUsize::new(5)][rnd(4) as usize];
                    log.push(format!("delete_expired({batch:?})"));
                    let n = s.delete_expired(batch).await.expect("delete_expired never fails on a healthy database");
                    assert!(n <= maybe_dead, "delete_expired reports {n} removals but at most {maybe_dead} records can have expired — {}", ctx(&log));
                    if let Some(b) = batch { assert!(n <= b.get(), "batch size ignored — {}", ctx(&log)); }
                    maybe_dead -= n;
                }
            }
            // observe every id after every operation
            for k in 0..3 {
                let got = s.load(&ids[k]).await.expect("load never fails on a healthy database");
                match (live.get(&k), got) {
                    (None, None) => {}
                    (Some(m), Some(g)) => {
                        assert_eq!(g.state, m.state, "load({k}) returned a different state than the last write to a live record — {}", ctx(&log));
                        assert!(g.ttl <= m.ttl && g.ttl + Duration::from_secs(3) > m.ttl,
                            "load({k}) reports {:?} left of a TTL of {:?} written an instant ago — {}", g.ttl, m.ttl, ctx(&log));
                    }
                    (None, Some(_)) => panic!("load({k}) returned an expired, deleted or never created record — {}", ctx(&log)),
                    (Some(_), None) => panic!("load({k}) lost a live record — {}", ctx(&log)),
                }
            }
        }
    }
    for (slug, what) in &deviations { println!("VERIF-DEVIATION id={slug} {what}"); }
    println!("VERIF-BOUNDED test=bounded_search_over_sqlite_store_histories evaluations={n_histories} bound=pseudo-random histories (fixed seed) of 14 store operations over 3 ids on a fresh in-memory SQLite database each, TTL in {{0, 5 s, 1 h}}, batch sizes {{none, 1, 2, 5}}, every id observed after every operation; single connection, no concurrency");
}
