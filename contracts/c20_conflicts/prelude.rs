// ======================================================================================
// C20 (domain conflicts) prelude
// ======================================================================================
use core::marker::PhantomData;
#[verifier::external_body] pub struct DomainGuard { _p: u8 }
pub uninterp spec fn pattern_of(g: &DomainGuard) -> Seq<char>;
/// ASSUMED (established by DomainGuard::new, unit c20_guard + its bounded stand-in): the pattern of an accepted guard is one matchit accepts
pub uninterp spec fn well_formed(p: Seq<char>) -> bool;
/// matchit's verdict, uninterpreted: does a router that holds `stored` (in insertion order) take `new`? NOT a pairwise relation between
/// patterns (measured on matchit 0.9.0: `ved/ipa{sub}` then `ved/{b}/{a}` is refused by a fresh router, but taken once `ved/{sub}` sits
/// between them), so it is a function of the whole router state.
pub uninterp spec fn takes(stored: Seq<Seq<char>>, new: Seq<char>) -> bool;
impl DomainGuard {
    #[verifier::external_body] pub fn matchit_pattern(&self) -> (r: String) ensures r@ == pattern_of(self) { unimplemented!() }
}
pub struct DomainRouter { pub _p: u8 }
#[verifier::external_body] pub struct Location { _p: u8 }
pub struct AuxiliaryData { pub domain_guard2locations: IndexMap<DomainGuard, Vec<Location>> }
#[verifier::external_body] pub struct DiagnosticSink { _p: u8 }
pub uninterp spec fn n_diag(d: &DiagnosticSink) -> nat;

// ---- iterators as ghost sequences (rule N21) ----------------------------------------------------------------------
#[verifier::external_body] #[verifier::accept_recursive_types(T)]
pub struct VerifIter<T> { _k: PhantomData<T> }
impl<T> View for VerifIter<T> { type V = Seq<T>; uninterp spec fn view(&self) -> Seq<T>; }
impl<T> VerifIter<T> {
    #[verifier::external_body]
    pub fn next(&mut self) -> (r: Option<T>)
        ensures match r {
            Some(x) => old(self)@.len() > 0 && x == old(self)@[0] && final(self)@ == old(self)@.drop_first(),
            None => old(self)@.len() == 0 && final(self)@ == old(self)@,
        }
    { unimplemented!() }
}
pub trait VerifIntoIter: Sized { type Item; spec fn verif_items(self) -> Seq<Self::Item>; }
impl<T> VerifIntoIter for VerifIter<T> { type Item = T; open spec fn verif_items(self) -> Seq<T> { self@ } }
#[verifier::external_body]
pub fn verif_into_iter<I: VerifIntoIter>(i: I) -> (r: VerifIter<I::Item>) ensures r@ == i.verif_items() { unimplemented!() }

// ---- indexmap: only `keys()` is used: every key once, in insertion order ------------------------------------------
#[verifier::external_body] #[verifier::reject_recursive_types(K)] #[verifier::accept_recursive_types(V)]
pub struct IndexMap<K, V> { _k: PhantomData<(K, V)> }
impl<K, V> IndexMap<K, V> {
    pub uninterp spec fn key_seq(&self) -> Seq<K>;
    #[verifier::external_body] pub fn len(&self) -> (r: usize) ensures r == self.key_seq().len() { unimplemented!() }
    #[verifier::external_body] pub fn is_empty(&self) -> (r: bool) ensures r == (self.key_seq().len() == 0) { unimplemented!() }
    #[verifier::external_body] pub fn keys(&self) -> (r: VerifIter<&K>)
        ensures r@.len() == self.key_seq().len(), forall |i: int| 0 <= i < r@.len() ==> *(#[trigger] r@[i]) == self.key_seq()[i]
    { unimplemented!() }
}
// ---- std HashMap<String, V>: a map by string content ----------------------------------------------------------------
#[verifier::external_body] #[verifier::reject_recursive_types(K)] #[verifier::accept_recursive_types(V)]
pub struct HashMap<K, V> { _k: PhantomData<(K, V)> }
impl<V> View for HashMap<String, V> { type V = Map<Seq<char>, V>; uninterp spec fn view(&self) -> Map<Seq<char>, V>; }
impl<V> HashMap<String, V> {
    #[verifier::external_body] pub fn new() -> (r: Self) ensures r@ == Map::<Seq<char>, V>::empty() { unimplemented!() }
    #[verifier::external_body] pub fn insert(&mut self, k: String, v: V) -> (r: Option<V>) ensures final(self)@ == old(self)@.insert(k@, v) { unimplemented!() }
}
impl<V: Copy> HashMap<String, V> {
    /// `map[&k]` (Index: panics when absent)
    #[verifier::external_body] pub fn verif_index(&self, k: &String) -> (r: V) requires self@.contains_key(k@) ensures r == self@[k@] { unimplemented!() }
}
// ---- matchit --------------------------------------------------------------------------------------------------------
pub mod matchit {
    use super::*;
    pub enum InsertError { Conflict { with: String }, Other }
    #[verifier::external_body] #[verifier::accept_recursive_types(T)]
    pub struct Router<T> { _k: PhantomData<T> }
    impl<T> View for Router<T> { type V = Seq<Seq<char>>; uninterp spec fn view(&self) -> Seq<Seq<char>>; }
    impl<T> Router<T> {
        #[verifier::external_body] pub fn new() -> (r: Self) ensures r@ == Seq::<Seq<char>>::empty() { unimplemented!() }
        /// ASSUMED: matchit's insert
        #[verifier::external_body] pub fn insert(&mut self, route: String, value: T) -> (r: Result<(), InsertError>)
            ensures match r {
                Ok(_) => well_formed(route@) && takes(old(self)@, route@) && final(self)@ == old(self)@.push(route@),
                Err(InsertError::Conflict { with }) => final(self)@ == old(self)@ && !takes(old(self)@, route@) && old(self)@.contains(with@),
                Err(InsertError::Other) => final(self)@ == old(self)@ && !well_formed(route@),
            }
        { unimplemented!() }
    }
}
impl DomainRouter {
    /// ASSUMED (diagnostic text): pushes exactly one diagnostic
    #[verifier::external_body]
    pub fn push_domain_conflict_diagnostic(aux: &AuxiliaryData, domain_1: &DomainGuard, domain_2: &DomainGuard, diagnostics: &mut DiagnosticSink)
        ensures n_diag(final(diagnostics)) == n_diag(old(diagnostics)) + 1 { unimplemented!() }
}
pub open spec fn gs(aux: &AuxiliaryData) -> Seq<DomainGuard> { aux.domain_guard2locations.key_seq() }
/// what the router holds after the first `k` guards were offered in registration order: the patterns it took
pub open spec fn stored(aux: &AuxiliaryData, k: int) -> Seq<Seq<char>> decreases k {
    if k <= 0 { Seq::empty() } else if takes(stored(aux, k - 1), pattern_of(&gs(aux)[k - 1])) { stored(aux, k - 1).push(pattern_of(&gs(aux)[k - 1])) } else { stored(aux, k - 1) }
}
/// guard number `k` (of the first `n`) is refused by the router that was offered every guard before it
pub open spec fn refused_at(aux: &AuxiliaryData, k: int, n: int) -> bool { 0 <= k < n && !takes(stored(aux, k), pattern_of(&gs(aux)[k])) }
