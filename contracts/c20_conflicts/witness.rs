// Bounded native stand-in for the conflict half of C20 (appended to compiler/pavexc/src/compiler/analyses/user_components/router.rs of
// the scratch copy): the real DomainRouter::detect_domain_conflicts on sets of real DomainGuards, against "refused exactly when matchit
// refuses one of the guards' patterns, every guard being offered in registration order" — matchit itself is the oracle for `overlaps`.
#[cfg(test)]
mod verif_witness_c20_conflicts {
    use super::*;
    struct Rng(u64);
    impl Rng { fn next(&mut self) -> u64 { self.0 ^= self.0 << 13; self.0 ^= self.0 >> 7; self.0 ^= self.0 << 17; self.0 } fn below(&mut self, n: usize) -> usize { (self.next() % n as u64) as usize } }
    fn loc(n: u32) -> pavex_bp_schema::Location { pavex_bp_schema::Location { line: n, column: 1, file: "witness.rs".into() } }
    fn sink() -> DiagnosticSink {
        let dir = std::env::temp_dir().join(format!("verif-c20-{}-{:?}", std::process::id(), std::thread::current().id()));
        std::fs::create_dir_all(dir.join("src")).unwrap();
        std::fs::write(dir.join("Cargo.toml"), "[package]\nname = \"scratch\"\nversion = \"0.1.0\"\nedition = \"2021\"\n[workspace]\n").unwrap();
        std::fs::write(dir.join("src/lib.rs"), "").unwrap();
        let mut cmd = guppy::MetadataCommand::new();
        cmd.manifest_path(dir.join("Cargo.toml")).other_options(vec!["--offline".to_string()]);
        let g = cmd.build_graph().expect("cargo metadata --offline on a dependency-free crate");
        let _ = std::fs::remove_dir_all(&dir);
        DiagnosticSink::new(g)
    }
    const POOL: [&str; 14] = ["api.dev", "ui.dev", "api.dev.", "{sub}.dev", "{other}.dev", "{*any}.dev", "{*rest}.dev", "{a}.{b}.dev", "{a}.api.dev",
        "{x}.ui.dev", "{sub}api.dev", "{y}api.dev", "dev", "{*all}.api.dev"];

    #[test]
    fn a_set_of_guards_is_refused_exactly_when_the_router_refuses_one_of_them() {
        let thorough = std::env::var("VERIF_TIER").map(|t| t == "thorough").unwrap_or(false);
        let worlds = if thorough { 30_000 } else { 2_000 };
        let mut rng = Rng(0x9E37_79B9_7F4A_7C15);
        let diagnostics = sink();
        let (mut n_conflicting, mut n_clean) = (0, 0);
        let mut distinct: std::collections::HashSet<Vec<String>> = std::collections::HashSet::new();
        for _ in 0..worlds {
            let mut aux = AuxiliaryData::default();
            let mut texts: Vec<&str> = Vec::new();
            for k in 0..(1 + rng.below(5)) {
                let t = POOL[rng.below(POOL.len())];
                let g = DomainGuard::new(t.to_string()).expect("a documented-valid guard");
                aux.domain_guard2locations.entry(g).or_default().push(loc(k as u32 + 1));
                texts.push(t);
            }
            let guards: Vec<&DomainGuard> = aux.domain_guard2locations.keys().collect();
            // the oracle is matchit itself, asked the way the statement's mechanism says: every guard's pattern goes into ONE router, in
            // registration order. (matchit's verdict is NOT a pairwise relation — `{sub}api.dev` then `{a}.{b}.dev` conflict in a fresh
            // router but not once `{sub}.dev` sits between them — so a pairwise oracle would raise false alarms; measured.)
            let mut expected_conflict = false;
            let mut one = matchit::Router::new();
            for g in &guards { if one.insert(g.matchit_pattern(), ()).is_err() { expected_conflict = true; } }
            let key: Vec<String> = guards.iter().map(|g| g.matchit_pattern()).collect();
            if key.len() >= 2 && distinct.insert(key.clone()) && distinct.len() <= 4 { println!("VERIF-SAMPLE guards {texts:?} (patterns {key:?}) -> {}", if expected_conflict { "refused" } else { "accepted" }); }
            let before = diagnostics.len();
            let r = DomainRouter::detect_domain_conflicts(&aux, &diagnostics);
            let pushed = diagnostics.len() - before;
            let _ = diagnostics.drain();
            if expected_conflict {
                assert!(r.is_err() && pushed >= 1, "VERIF: guards {texts:?}: matchit refuses one of them but the set was not refused (result {r:?}, {pushed} diagnostics)");
                n_conflicting += 1;
            } else {
                assert!(r.is_ok() && pushed == 0, "VERIF: guards {texts:?}: matchit takes them all but the set was refused (result {r:?}, {pushed} diagnostics)");
                n_clean += 1;
            }
        }
        assert!(n_conflicting > worlds / 10 && n_clean > worlds / 10, "the generator covers both outcomes ({n_conflicting} / {n_clean})");
        println!("VERIF-EXPLORED test=a_set_of_guards_is_refused_exactly_when_the_router_refuses_one_of_them distinct_nontrivial={} rule=distinct ORDERED lists of patterns, counted in a set; non-trivial = at least two different guards ({n_conflicting} refused / {n_clean} accepted worlds)", distinct.len());
        println!("VERIF-BOUNDED test=a_set_of_guards_is_refused_exactly_when_the_router_refuses_one_of_them evaluations={worlds} bound={worlds} pseudo-random sets of up to 5 guards from a pool of 14 (literals, parameters, catch-alls, suffixed parameters, a trailing-dot twin), matchit (one router, registration order) as the oracle");
    }
}
