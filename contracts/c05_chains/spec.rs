// ======================================================================================
// C05/C06 spec — which middlewares / error observers the compiler attaches to which handler,
// at the level of one blueprint (the tree is walked with a work-list; see DESIGN §3/C05).
// ======================================================================================
use vstd::std_specs::convert::FromSpecImpl;
impl FromSpecImpl<AnnotationCoordinatesId> for UserComponentSource {
    open spec fn obeys_from_spec() -> bool { true }
    open spec fn from_spec(c: AnnotationCoordinatesId) -> Self { UserComponentSource::BlueprintRegistration(c) }
}
impl FromSpecImpl<Location> for Registration {
    open spec fn obeys_from_spec() -> bool { true }
    open spec fn from_spec(location: Location) -> Self { Registration { location, kind: RegistrationKind::Blueprint } }
}

pub open spec fn id_at(n: int) -> UserComponentId { Idx { raw: n as usize, _p: PhantomData } }
pub open spec fn n_comp(a: &AuxiliaryData) -> int { a.component_interner@.len() as int }
pub open spec fn mw_chain(a: &AuxiliaryData, h: UserComponentId) -> Seq<UserComponentId> { a.handler_id2middleware_ids@[h]@ }
pub open spec fn obs_chain(a: &AuxiliaryData, h: UserComponentId) -> Seq<UserComponentId> { a.handler_id2error_observer_ids@[h]@ }
/// the registration a component id stands for (the annotation coordinates it was interned with)
pub open spec fn coords_of(a: &AuxiliaryData, s: AnnotationCoordinatesId) -> AnnotationCoordinates { a.annotation_coordinates_interner@[s] }
pub open spec fn coords_match(a: &AuxiliaryData, s: AnnotationCoordinatesId, c: &pavex_bp_schema::AnnotationCoordinates) -> bool {
    a.annotation_coordinates_interner@.contains_key(s) && coords_of(a, s).id@ == c.id@ && coords_of(a, s).created_at == c.created_at
}

/// every handler the tables know was interned before now (so the next interned id is not yet a key)
#[verifier::opaque]
pub open spec fn wf_aux(a: &AuxiliaryData) -> bool {
    &&& n_comp(a) <= usize::MAX
    &&& forall |h: UserComponentId| #[trigger] a.handler_id2middleware_ids@.contains_key(h) ==> h.raw < n_comp(a)
    &&& forall |h: UserComponentId| #[trigger] a.handler_id2error_observer_ids@.contains_key(h) ==> h.raw < n_comp(a)
    &&& forall |k: UserComponentId| #[trigger] a.id2scope_id@.contains_key(k) ==> k.raw < n_comp(a)
    &&& forall |k: UserComponentId| #[trigger] a.id2registration@.contains_key(k) ==> k.raw < n_comp(a)
}
/// nothing that was recorded is ever rewritten: components, the chains of known handlers, scopes, interned coordinates
#[verifier::opaque]
pub open spec fn grows(a: &AuxiliaryData, b: &AuxiliaryData) -> bool {
    &&& n_comp(a) <= n_comp(b)
    &&& forall |i: int| 0 <= i < n_comp(a) ==> #[trigger] b.component_interner@[i] == a.component_interner@[i]
    &&& forall |h: UserComponentId| #[trigger] a.handler_id2middleware_ids@.contains_key(h) ==> b.handler_id2middleware_ids@.contains_key(h) && mw_chain(b, h) == mw_chain(a, h)
    &&& forall |h: UserComponentId| #[trigger] a.handler_id2error_observer_ids@.contains_key(h) ==> b.handler_id2error_observer_ids@.contains_key(h) && obs_chain(b, h) == obs_chain(a, h)
    &&& forall |s: AnnotationCoordinatesId| #[trigger] a.annotation_coordinates_interner@.contains_key(s) ==> b.annotation_coordinates_interner@.contains_key(s) && coords_of(b, s) == coords_of(a, s)
    &&& forall |k: UserComponentId| #[trigger] a.id2scope_id@.contains_key(k) ==> b.id2scope_id@.contains_key(k) && b.id2scope_id@[k] == a.id2scope_id@[k]
    &&& forall |k: UserComponentId| #[trigger] a.id2registration@.contains_key(k) ==> b.id2registration@.contains_key(k) && b.id2registration@[k] == a.id2registration@[k]
}
pub open spec fn handler_tables_untouched(a: &AuxiliaryData, b: &AuxiliaryData) -> bool {
    b.handler_id2middleware_ids@ == a.handler_id2middleware_ids@ && b.handler_id2error_observer_ids@ == a.handler_id2error_observer_ids@
}
pub proof fn grows_trans(a: &AuxiliaryData, b: &AuxiliaryData, c: &AuxiliaryData)
    requires grows(a, b), grows(b, c)
    ensures grows(a, c)
{
    reveal(grows);
}
pub proof fn grows_refl(a: &AuxiliaryData)
    ensures grows(a, a)
{
    reveal(grows);
}
/// what `grows` says about one handler that was already known
pub proof fn known_handler_stable(a: &AuxiliaryData, b: &AuxiliaryData, h: UserComponentId)
    requires grows(a, b)
    ensures a.handler_id2middleware_ids@.contains_key(h) ==> b.handler_id2middleware_ids@.contains_key(h) && mw_chain(b, h) == mw_chain(a, h),
            a.handler_id2error_observer_ids@.contains_key(h) ==> b.handler_id2error_observer_ids@.contains_key(h) && obs_chain(b, h) == obs_chain(a, h),
{
    reveal(grows);
}
pub open spec fn aux_same_except_domain_locations(a: &AuxiliaryData, b: &AuxiliaryData) -> bool {
    &&& a.component_interner@ == b.component_interner@ && handler_tables_untouched(a, b)
    &&& a.id2scope_id@ == b.id2scope_id@ && a.annotation_coordinates_interner@ == b.annotation_coordinates_interner@ && a.id2registration@ == b.id2registration@
}
/// the component interned under index `n` is remembered as registered on a blueprint at exactly this location
pub open spec fn registered_at(a: &AuxiliaryData, n: int, l: &pavex_bp_schema::Location) -> bool {
    a.id2registration@.contains_key(id_at(n)) && a.id2registration@[id_at(n)] == (Registration { location: *l, kind: RegistrationKind::Blueprint })
}
pub open spec fn is_mw(c: &pavex_bp_schema::Component) -> bool {
    c is WrappingMiddleware || c is PreProcessingMiddleware || c is PostProcessingMiddleware
}
/// the scope graph builder knows the scope and hands out ids above every node
pub open spec fn scope_known(b: &ScopeGraphBuilder, s: ScopeId) -> bool { g_nodes(&b.graph).contains(s.0) }
pub open spec fn builder_grows(a: &ScopeGraphBuilder, b: &ScopeGraphBuilder) -> bool {
    a.root == b.root && g_nodes(&a.graph).subset_of(g_nodes(&b.graph)) && g_edges(&a.graph).subset_of(g_edges(&b.graph))
}

// ---- one blueprint level --------------------------------------------------------------------------------------
/// the ids interned for the middlewares among the first `i` components of the blueprint, in registration order
/// (`lens[j]` = number of interned components just before component `j` was processed = the id it was given)
pub open spec fn mw_before(comps: Seq<pavex_bp_schema::Component>, lens: Seq<int>, i: int) -> Seq<UserComponentId> decreases i {
    if i <= 0 { Seq::empty() } else {
        let p = mw_before(comps, lens, i - 1);
        if is_mw(&comps[i - 1]) { p.push(id_at(lens[i - 1])) } else { p }
    }
}
pub open spec fn obs_before(comps: Seq<pavex_bp_schema::Component>, lens: Seq<int>, i: int) -> Seq<UserComponentId> decreases i {
    if i <= 0 { Seq::empty() } else {
        let p = obs_before(comps, lens, i - 1);
        if comps[i - 1] is ErrorObserver { p.push(id_at(lens[i - 1])) } else { p }
    }
}
pub open spec fn nested_before(comps: Seq<pavex_bp_schema::Component>, i: int) -> int decreases i {
    if i <= 0 { 0 } else { nested_before(comps, i - 1) + (if comps[i - 1] is NestedBlueprint { 1int } else { 0int }) }
}
pub proof fn before_agree(comps: Seq<pavex_bp_schema::Component>, l1: Seq<int>, l2: Seq<int>, i: int)
    requires 0 <= i <= l1.len(), i <= l2.len(), forall |j: int| 0 <= j < i ==> l1[j] == l2[j]
    ensures mw_before(comps, l1, i) == mw_before(comps, l2, i), obs_before(comps, l1, i) == obs_before(comps, l2, i)
    decreases i
{
    if i > 0 { before_agree(comps, l1, l2, i - 1); }
}
/// component `c`, processed when `n` components had been interned, is recorded under id `n` as what it is, with its coordinates
pub open spec fn denotes(a: &AuxiliaryData, n: int, c: &pavex_bp_schema::Component) -> bool {
    match c {
        pavex_bp_schema::Component::WrappingMiddleware(w) => 0 <= n < n_comp(a) && (a.component_interner@[n] matches UserComponent::WrappingMiddleware { source } && coords_match(a, source, &w.coordinates)),
        pavex_bp_schema::Component::PreProcessingMiddleware(w) => 0 <= n < n_comp(a) && (a.component_interner@[n] matches UserComponent::PreProcessingMiddleware { source } && coords_match(a, source, &w.coordinates)),
        pavex_bp_schema::Component::PostProcessingMiddleware(w) => 0 <= n < n_comp(a) && (a.component_interner@[n] matches UserComponent::PostProcessingMiddleware { source } && coords_match(a, source, &w.coordinates)),
        pavex_bp_schema::Component::ErrorObserver(w) => 0 <= n < n_comp(a) && (a.component_interner@[n] matches UserComponent::ErrorObserver { source } && coords_match(a, source, &w.coordinates)),
        pavex_bp_schema::Component::Route(w) => 0 <= n < n_comp(a) && (a.component_interner@[n] matches UserComponent::RequestHandler { source, router_key }
            && (source matches UserComponentSource::BlueprintRegistration(s) && coords_match(a, s, &w.coordinates))),
        _ => true,
    }
}
pub proof fn denotes_stable(a: &AuxiliaryData, b: &AuxiliaryData, n: int, c: &pavex_bp_schema::Component)
    requires grows(a, b), denotes(a, n, c)
    ensures denotes(b, n, c)
{
    reveal(grows);
}
pub open spec fn route_ok(a: &AuxiliaryData, h: UserComponentId, mw: Seq<UserComponentId>, obs: Seq<UserComponentId>) -> bool {
    a.handler_id2middleware_ids@.contains_key(h) && mw_chain(a, h) == mw
    && a.handler_id2error_observer_ids@.contains_key(h) && obs_chain(a, h) == obs
}
/// queue item `q` was pushed for the nested blueprint at position `j` of this level
pub open spec fn item_ok(q: &QueueItem<'_>, comps: Seq<pavex_bp_schema::Component>, lens: Seq<int>, j: int,
                         chain0: Seq<UserComponentId>, obs0: Seq<UserComponentId>, scope: ScopeId) -> bool {
    &&& 0 <= j < comps.len() && comps[j] is NestedBlueprint && *q.nested_bp == comps[j]->NestedBlueprint_0
    &&& q.current_middleware_chain@ == chain0 + mw_before(comps, lens, j)
    &&& q.current_observer_chain@ == obs0 + obs_before(comps, lens, j)
    &&& q.parent_scope_id == scope
}
/// C05 / C06, one level: every route of this blueprint is wrapped by exactly the chain handed in plus the middlewares
/// (resp. observed by the observers) registered BEFORE it in this blueprint, in registration order; every nested blueprint
/// is queued with exactly the chains as they stood where it was nested, under the scope of this blueprint; what is handed
/// back are the chains after the last component; the ids in the chains denote those very registrations.
pub open spec fn level_ok(a1: &AuxiliaryData, comps: Seq<pavex_bp_schema::Component>,
                          chain0: Seq<UserComponentId>, chain1: Seq<UserComponentId>, obs0: Seq<UserComponentId>, obs1: Seq<UserComponentId>,
                          q0: Seq<QueueItem<'_>>, q1: Seq<QueueItem<'_>>, scope: ScopeId, lens: Seq<int>, origin: Seq<int>, n_loop: int) -> bool {
    &&& lens.len() == comps.len()
    // whatever handler is recorded after the last component (the fallback of this blueprint, user-registered or the
    // framework's default at the root) gets the chains as they stand at the END of the blueprint
    &&& forall |h: UserComponentId| #[trigger] a1.handler_id2middleware_ids@.contains_key(h) && h.raw >= n_loop ==> route_ok(a1, h, chain1, obs1)
    &&& forall |h: UserComponentId| #[trigger] a1.handler_id2error_observer_ids@.contains_key(h) && h.raw >= n_loop ==> route_ok(a1, h, chain1, obs1)
    &&& chain1 == chain0 + mw_before(comps, lens, comps.len() as int)
    &&& obs1 == obs0 + obs_before(comps, lens, comps.len() as int)
    &&& forall |j: int| 0 <= j < comps.len() && (#[trigger] comps[j]) is Route ==>
            route_ok(a1, id_at(lens[j]), chain0 + mw_before(comps, lens, j), obs0 + obs_before(comps, lens, j))
    &&& forall |j: int| 0 <= j < comps.len() ==> denotes(a1, lens[j], &#[trigger] comps[j])
    &&& q1.len() == q0.len() + origin.len()
    &&& forall |k: int| 0 <= k < q0.len() ==> #[trigger] q1[k] == q0[k]
    &&& forall |m: int| 0 <= m < origin.len() ==> item_ok(&#[trigger] q1[q0.len() + m], comps, lens, origin[m], chain0, obs0, scope)
}

/// the part of `level_ok` that survives everything that happens later (other blueprints being processed): what was recorded for
/// the routes of this level, and what the ids denote
pub open spec fn level_routes_ok(a1: &AuxiliaryData, comps: Seq<pavex_bp_schema::Component>, chain0: Seq<UserComponentId>, obs0: Seq<UserComponentId>, lens: Seq<int>) -> bool {
    &&& lens.len() == comps.len()
    &&& forall |j: int| 0 <= j < comps.len() && (#[trigger] comps[j]) is Route ==>
            route_ok(a1, id_at(lens[j]), chain0 + mw_before(comps, lens, j), obs0 + obs_before(comps, lens, j))
    &&& forall |j: int| 0 <= j < comps.len() ==> denotes(a1, lens[j], &#[trigger] comps[j])
}
pub proof fn level_routes_stable(a: &AuxiliaryData, b: &AuxiliaryData, comps: Seq<pavex_bp_schema::Component>, chain0: Seq<UserComponentId>, obs0: Seq<UserComponentId>, lens: Seq<int>)
    requires grows(a, b), level_routes_ok(a, comps, chain0, obs0, lens)
    ensures level_routes_ok(b, comps, chain0, obs0, lens)
{
    assert forall |j: int| 0 <= j < comps.len() && (#[trigger] comps[j]) is Route implies
        route_ok(b, id_at(lens[j]), chain0 + mw_before(comps, lens, j), obs0 + obs_before(comps, lens, j)) by { known_handler_stable(a, b, id_at(lens[j])); }
    assert forall |j: int| 0 <= j < comps.len() implies denotes(b, lens[j], &#[trigger] comps[j]) by { denotes_stable(a, b, lens[j], &comps[j]); }
}

// ---- termination of the work-list: the number of nested blueprints still to be processed -----------------------------------
pub open spec fn bp_weight(bp: &pavex_bp_schema::Blueprint) -> nat decreases bp, 1int, 0int {
    comps_weight(bp, bp.components@.len() as int)
}
/// nested blueprints (with everything below them) among the first `n` components of `bp`
pub open spec fn comps_weight(bp: &pavex_bp_schema::Blueprint, n: int) -> nat decreases bp, 0int, n {
    if n <= 0 || n > bp.components@.len() { 0 } else {
        comps_weight(bp, n - 1) + (match bp.components@[n - 1] { pavex_bp_schema::Component::NestedBlueprint(nb) => 1 + bp_weight(&nb.blueprint), _ => 0nat })
    }
}
pub open spec fn item_weight(q: &QueueItem<'_>) -> nat { 1 + bp_weight(&q.nested_bp.blueprint) }
/// what the work-list still stands for
pub open spec fn queue_weight(q: Seq<QueueItem<'_>>) -> nat decreases q.len() {
    if q.len() == 0 { 0 } else { queue_weight(q.drop_last()) + item_weight(&q.last()) }
}
pub proof fn queue_weight_push(q: Seq<QueueItem<'_>>, x: QueueItem<'_>)
    ensures queue_weight(q.push(x)) == queue_weight(q) + item_weight(&x)
{
    assert(q.push(x).drop_last() =~= q);
}
