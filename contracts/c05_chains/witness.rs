// Native witness for C05 / C06 (and the scope assignment of C04): appended to
// compiler/pavexc/src/compiler/analyses/user_components/blueprint.rs of the scratch copy.
// Drives the REAL process_blueprint over pseudo-random blueprint TREES and compares, for every route and fallback of the
// whole tree, the recorded middleware / error-observer chains with a reference model written from the property statement.
// Bounded: never counted as proved.
#[cfg(test)]
mod verif_witness_c05 {
    use super::*;
    use pavex_bp_schema as s;
    use std::collections::BTreeMap;

    struct Rng(u64);
    impl Rng {
        fn next(&mut self) -> u64 { self.0 ^= self.0 << 13; self.0 ^= self.0 >> 7; self.0 ^= self.0 << 17; self.0 }
        fn below(&mut self, n: usize) -> usize { (self.next() % n as u64) as usize }
    }
    fn loc(n: u32) -> s::Location { s::Location { line: n, column: 1, file: "witness.rs".into() } }
    fn coords(name: &str) -> s::AnnotationCoordinates {
        s::AnnotationCoordinates { id: name.into(), created_at: s::CreatedAt { package_name: "app".into(), package_version: "0.1.0".into() }, macro_name: "m".into() }
    }
    fn eh(name: &str) -> Option<s::ErrorHandler> { Some(s::ErrorHandler { coordinates: coords(name), registered_at: loc(1) }) }
    fn sink() -> crate::diagnostic::DiagnosticSink {
        // a package graph of a dependency-free scratch crate (only needed to construct the sink)
        let dir = std::env::temp_dir().join(format!("verif-c05-{}-{:?}", std::process::id(), std::thread::current().id()));
        std::fs::create_dir_all(dir.join("src")).unwrap();
        std::fs::write(dir.join("Cargo.toml"), "[package]\nname = \"scratch\"\nversion = \"0.1.0\"\nedition = \"2021\"\n[workspace]\n").unwrap();
        std::fs::write(dir.join("src/lib.rs"), "").unwrap();
        let mut cmd = guppy::MetadataCommand::new();
        cmd.manifest_path(dir.join("Cargo.toml")).other_options(vec!["--offline".to_string()]);
        let g = cmd.build_graph().expect("cargo metadata --offline on a dependency-free crate");
        let _ = std::fs::remove_dir_all(&dir);
        crate::diagnostic::DiagnosticSink::new(g)
    }

    /// what the statement designates, per handler name: (middlewares, observers), outermost first; plus, per constructor
    /// name, the path of nest positions of the blueprint it was registered in
    #[derive(Default)]
    struct Model { handlers: BTreeMap<u32, (String, Vec<String>, Vec<String>)>, constructors: BTreeMap<String, Vec<usize>>, n: usize }

    fn gen_bp(rng: &mut Rng, depth: usize, m: &mut Model, mut chain: Vec<String>, mut obs: Vec<String>, path: Vec<usize>, is_root: bool) -> s::Blueprint {
        let mut components = Vec::new();
        let n = rng.below(if depth == 0 { 9 } else { 6 });
        let mut fallback: Option<(u32, String)> = None;
        let mut nested_here = 0;
        for _ in 0..n {
            m.n += 1;
            let k = m.n;
            let with_eh = rng.below(3) == 0;
            // the same function may be registered more than once, in this or in another blueprint: names repeat, registrations (lines) do not
            let shared = rng.below(4) == 0;
            let tag = if shared { format!("_shared{}", rng.below(2)) } else { format!("{k}") };
            match rng.below(if depth >= 3 { 8 } else { 10 }) {
                0 => { let nm = format!("wrap{tag}"); chain.push(nm.clone());
                       components.push(s::Component::WrappingMiddleware(s::WrappingMiddleware { coordinates: coords(&nm), registered_at: loc(k as u32), error_handler: if with_eh { eh(&format!("eh{k}")) } else { None } })); }
                1 => { let nm = format!("pre{tag}"); chain.push(nm.clone());
                       components.push(s::Component::PreProcessingMiddleware(s::PreProcessingMiddleware { coordinates: coords(&nm), registered_at: loc(k as u32), error_handler: if with_eh { eh(&format!("eh{k}")) } else { None } })); }
                2 => { let nm = format!("post{tag}"); chain.push(nm.clone());
                       components.push(s::Component::PostProcessingMiddleware(s::PostProcessingMiddleware { coordinates: coords(&nm), registered_at: loc(k as u32), error_handler: if with_eh { eh(&format!("eh{k}")) } else { None } })); }
                3 => { let nm = format!("obs{tag}"); obs.push(nm.clone());
                       components.push(s::Component::ErrorObserver(s::ErrorObserver { coordinates: coords(&nm), registered_at: loc(k as u32) })); }
                4 | 5 => { let nm = format!("route{tag}"); m.handlers.insert(k as u32, (nm.clone(), chain.clone(), obs.clone()));
                       components.push(s::Component::Route(s::Route { coordinates: coords(&nm), registered_at: loc(k as u32), error_handler: if with_eh { eh(&format!("eh{k}")) } else { None } })); }
                6 => { let nm = format!("ctor{k}"); m.constructors.insert(nm.clone(), path.clone());
                       components.push(s::Component::Constructor(s::Constructor { coordinates: coords(&nm), lifecycle: None, cloning_policy: None, error_handler: if with_eh { eh(&format!("eh{k}")) } else { None }, lints: Default::default(), registered_at: loc(k as u32) })); }
                7 => { let nm = format!("fallback{tag}"); fallback = Some((k as u32, nm.clone()));   // the last one registered wins; it sees the chains at the END of its blueprint
                       components.push(s::Component::FallbackRequestHandler(s::Fallback { coordinates: coords(&nm), registered_at: loc(k as u32), error_handler: None })); }
                _ => {
                    let mut p = path.clone(); p.push(nested_here); nested_here += 1;
                    let child = gen_bp(rng, depth + 1, m, chain.clone(), obs.clone(), p, false);
                    components.push(s::Component::NestedBlueprint(s::NestedBlueprint {
                        blueprint: child,
                        path_prefix: if rng.below(2) == 0 { Some(s::PathPrefix { path_prefix: format!("/p{k}"), registered_at: loc(k as u32) }) } else { None },
                        domain: None,
                        // nest called in a loop / through a helper: siblings may share their location
                        nested_at: loc(rng.below(3) as u32),
                    }));
                }
            }
        }
        match fallback {
            Some((line, nm)) => { m.handlers.insert(line, (nm, chain, obs)); }
            None if is_root => { m.handlers.insert(0, ("DEFAULT_FALLBACK".into(), chain, obs)); }
            None => {}
        }
        s::Blueprint { creation_location: loc(0), components }
    }

    fn name_of(aux: &AuxiliaryData, id: UserComponentId) -> String {
        let cid = match &aux.component_interner[id] {
            UserComponent::RequestHandler { source: UserComponentSource::BlueprintRegistration(c), .. } => *c,
            UserComponent::Constructor { source: UserComponentSource::BlueprintRegistration(c) } => *c,
            UserComponent::Fallback { source } | UserComponent::WrappingMiddleware { source } | UserComponent::PreProcessingMiddleware { source }
            | UserComponent::PostProcessingMiddleware { source } | UserComponent::ErrorObserver { source } => *source,
            other => panic!("VERIF: unexpected component in a chain: {other:?}"),
        };
        let kind_ok = |prefix: &str, name: &str| name.starts_with(prefix);
        let name = aux.annotation_coordinates_interner.iter().find(|(i, _)| *i == cid).expect("interned coordinates").1.id.clone();
        // the id denotes a component of the kind it was registered as
        let ok = match &aux.component_interner[id] {
            UserComponent::RequestHandler { .. } => kind_ok("route", &name),
            UserComponent::Constructor { .. } => kind_ok("ctor", &name),
            UserComponent::Fallback { .. } => kind_ok("fallback", &name) || name == "DEFAULT_FALLBACK",
            UserComponent::WrappingMiddleware { .. } => kind_ok("wrap", &name),
            UserComponent::PreProcessingMiddleware { .. } => kind_ok("pre", &name),
            UserComponent::PostProcessingMiddleware { .. } => kind_ok("post", &name),
            UserComponent::ErrorObserver { .. } => kind_ok("obs", &name),
            _ => false,
        };
        assert!(ok, "VERIF: `{name}` is recorded as {:?}", aux.component_interner[id]);
        name
    }

    fn one_tree(rng: &mut Rng, diagnostics: &crate::diagnostic::DiagnosticSink) -> usize {
        let mut m = Model::default();
        let bp = gen_bp(rng, 0, &mut m, vec![], vec![], vec![], true);
        let mut aux = AuxiliaryData::default();
        let builder = process_blueprint(&bp, &mut aux, diagnostics);
        assert!(diagnostics.is_empty(), "VERIF: a valid blueprint tree produced diagnostics");
        let graph = builder.build();
        // ---- C05 / C06: every handler of the WHOLE tree against the model
        let mut seen = 0;
        for (h, chain) in &aux.handler_id2middleware_ids {
            let name = name_of(&aux, *h);
            let line = aux.id2registration[*h].location.line;
            let got_mw: Vec<String> = chain.iter().map(|i| name_of(&aux, *i)).collect();
            let got_obs: Vec<String> = aux.handler_id2error_observer_ids.get(h).unwrap_or_else(|| panic!("VERIF: `{name}` has no observer chain")).iter().map(|i| name_of(&aux, *i)).collect();
            let Some((expected_name, mw, obs)) = m.handlers.get(&line) else {
                // a fallback that was overridden by a later one in the same blueprint is not processed at all
                panic!("VERIF: handler `{name}` registered at line {line} is not in the model (a fallback registered and later replaced must not be recorded)");
            };
            assert_eq!(&name, expected_name, "VERIF: the handler registered at line {line}");
            assert_eq!(&got_mw, mw, "VERIF: middlewares attached to `{name}` (expected: those registered before it in its own and its enclosing blueprints, in order)\nblueprint: {bp:?}");
            assert_eq!(&got_obs, obs, "VERIF: error observers attached to `{name}`\nblueprint: {bp:?}");
            seen += 1;
        }
        assert_eq!(seen, m.handlers.len(), "VERIF: every route and the applicable fallbacks are recorded, nothing else; model: {:?}", m.handlers.values().map(|v| &v.0).collect::<Vec<_>>());
        assert_eq!(aux.handler_id2error_observer_ids.len(), aux.handler_id2middleware_ids.len());
        // ---- C04: constructors live in the scope of their own blueprint: depth = nesting depth, same blueprint <=> same scope
        let mut scope_of_path: BTreeMap<Vec<usize>, ScopeId> = BTreeMap::new();
        for (id, c) in aux.component_interner.iter() {
            if let UserComponent::Constructor { .. } = c {
                let name = name_of(&aux, id);
                let path = &m.constructors[&name];
                let scope = aux.id2scope_id[id];
                let mut depth = 0; let mut cur = scope;
                loop {
                    let ps: Vec<ScopeId> = cur.direct_parent_ids(&graph).into_iter().collect();
                    if ps.is_empty() { break; }
                    assert_eq!(ps.len(), 1, "VERIF: a blueprint scope has one parent");
                    cur = ps[0]; depth += 1;
                }
                assert_eq!(cur, graph.root_scope_id());
                assert_eq!(depth, path.len(), "VERIF: constructor `{name}` registered at nesting depth {} lives in a scope of depth {depth}", path.len());
                if let Some(prev) = scope_of_path.insert(path.clone(), scope) { assert_eq!(prev, scope, "VERIF: constructors of one blueprint share its scope"); }
            }
        }
        let mut scopes: Vec<ScopeId> = scope_of_path.values().copied().collect();
        scopes.sort(); scopes.dedup();
        assert_eq!(scopes.len(), scope_of_path.len(), "VERIF: different (sibling or nested) blueprints have different scopes");
        seen + m.constructors.len()
    }

    #[test]
    fn bounded_search_over_blueprint_trees() {
        let thorough = std::env::var("VERIF_TIER").map(|t| t == "thorough").unwrap_or(false);
        let trees = if thorough { 60_000 } else { 3_000 };
        let diagnostics = sink();
        let mut rng = Rng(0xD1B5_4A32_D192_ED03);
        let mut n = 0;
        for _ in 0..trees { n += one_tree(&mut rng, &diagnostics); }
        println!("VERIF-BOUNDED test=bounded_search_over_blueprint_trees evaluations={n} bound={trees} pseudo-random blueprint trees (nesting depth <= 4, up to 8 components per blueprint of 9 kinds, error handlers on a third of them, sibling nest calls sharing locations); every route, fallback and constructor of the whole tree compared with the statement");
    }

    #[test]
    fn a_sibling_or_a_later_registration_never_reaches_a_route() {
        let wrap = |n: &str| s::Component::WrappingMiddleware(s::WrappingMiddleware { coordinates: coords(n), registered_at: loc(1), error_handler: None });
        let observer = |n: &str| s::Component::ErrorObserver(s::ErrorObserver { coordinates: coords(n), registered_at: loc(1) });
        let route = |n: &str| s::Component::Route(s::Route { coordinates: coords(n), registered_at: loc(1), error_handler: None });
        let nest = |b: s::Blueprint| s::Component::NestedBlueprint(s::NestedBlueprint { blueprint: b, path_prefix: None, domain: None, nested_at: loc(7) });
        let bp = |c: Vec<s::Component>| s::Blueprint { creation_location: loc(0), components: c };
        let tree = bp(vec![
            wrap("wrap_a"), observer("obs_a"),
            nest(bp(vec![wrap("wrap_left"), observer("obs_left"), route("route_left")])),
            nest(bp(vec![route("route_right"), wrap("wrap_right_late")])),
            wrap("wrap_late"), observer("obs_late"), route("route_root"),
        ]);
        let mut aux = AuxiliaryData::default();
        let diagnostics = sink();
        process_blueprint(&tree, &mut aux, &diagnostics);
        let mut got: BTreeMap<String, (Vec<String>, Vec<String>)> = BTreeMap::new();
        for (h, chain) in &aux.handler_id2middleware_ids {
            got.insert(name_of(&aux, *h), (chain.iter().map(|i| name_of(&aux, *i)).collect(), aux.handler_id2error_observer_ids[h].iter().map(|i| name_of(&aux, *i)).collect()));
        }
        let v = |x: &[&str]| x.iter().map(|s| s.to_string()).collect::<Vec<_>>();
        assert_eq!(got["route_left"], (v(&["wrap_a", "wrap_left"]), v(&["obs_a", "obs_left"])));
        assert_eq!(got["route_right"], (v(&["wrap_a"]), v(&["obs_a"])), "neither the sibling's nor the later registrations");
        assert_eq!(got["route_root"], (v(&["wrap_a", "wrap_late"]), v(&["obs_a", "obs_late"])), "nothing registered inside a nested blueprint leaks out");
        assert_eq!(got["DEFAULT_FALLBACK"], (v(&["wrap_a", "wrap_late"]), v(&["obs_a", "obs_late"])));
    }
}
