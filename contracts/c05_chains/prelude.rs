// ======================================================================================
// C05/C06 prelude — stand-ins / ASSUMED contracts for what `user_components::blueprint` uses
// (la_arena, the interner, ahash/indexmap maps, petgraph, the diagnostic sink, DomainGuard).
// ======================================================================================
use core::marker::PhantomData;
use pavex_bp_schema::{
    Blueprint, Component, ConfigType, Constructor, CreatedAt, Domain, ErrorHandler, ErrorObserver,
    Fallback, Import, Lifecycle, Location, NestedBlueprint, PathPrefix, PostProcessingMiddleware,
    PreProcessingMiddleware, PrebuiltType, Route, RoutesImport, WrappingMiddleware, CloningPolicy, Lint, LintSetting, Sources, MethodGuard,
};

// ---- la_arena ------------------------------------------------------------------------------------------------
#[verifier::accept_recursive_types(T)]
pub struct Idx<T> { pub raw: usize, pub _p: PhantomData<T> }
impl<T> Clone for Idx<T> { fn clone(&self) -> (r: Self) ensures r == *self { Idx { raw: self.raw, _p: PhantomData } } }
impl<T> Copy for Idx<T> {}
/// la_arena::Arena: a growing vector; `alloc` appends and returns the new index (the u32 capacity limit is not modelled)
#[verifier::external_body] #[verifier::accept_recursive_types(T)]
pub struct Arena<T> { _k: PhantomData<T> }
impl<T> View for Arena<T> { type V = Seq<T>; uninterp spec fn view(&self) -> Seq<T>; }
impl<T> Arena<T> {
    #[verifier::external_body] pub fn alloc(&mut self, t: T) -> (r: Idx<T>)
        ensures r.raw == old(self)@.len(), final(self)@ == old(self)@.push(t),
                final(self)@.len() <= usize::MAX  // the arena is a vector in memory (la_arena aborts beyond u32::MAX entries)
    { unimplemented!() }
}
#[verifier::external_body] #[verifier::reject_recursive_types(K)] #[verifier::accept_recursive_types(V)]
pub struct ArenaMap<K, V> { _k: PhantomData<(K, V)> }
impl<K, V> View for ArenaMap<K, V> { type V = Map<K, V>; uninterp spec fn view(&self) -> Map<K, V>; }
impl<K, V> ArenaMap<K, V> {
    #[verifier::external_body] pub fn insert(&mut self, k: K, v: V) -> (r: Option<V>)
        ensures final(self)@ == old(self)@.insert(k, v) { unimplemented!() }
}
// ---- maps keyed by == ----------------------------------------------------------------------------------------
#[verifier::external_body] #[verifier::reject_recursive_types(K)] #[verifier::accept_recursive_types(V)]
pub struct HashMap<K, V> { _k: PhantomData<(K, V)> }
impl<K, V> View for HashMap<K, V> { type V = Map<K, V>; uninterp spec fn view(&self) -> Map<K, V>; }
impl<K, V> HashMap<K, V> {
    #[verifier::external_body] pub fn new() -> (r: Self) ensures r@ == Map::<K, V>::empty() { unimplemented!() }
    #[verifier::external_body] pub fn insert(&mut self, k: K, v: V) -> (r: Option<V>)
        ensures final(self)@ == old(self)@.insert(k, v) { unimplemented!() }
}
#[verifier::external_body] #[verifier::reject_recursive_types(K)] #[verifier::accept_recursive_types(V)]
pub struct IndexMap<K, V> { _k: PhantomData<(K, V)> }
#[verifier::external_body] #[verifier::reject_recursive_types(K)] #[verifier::accept_recursive_types(V)]
pub struct BTreeMap<K, V> { _k: PhantomData<(K, V)> }
impl<K, V> BTreeMap<K, V> {
    #[verifier::external_body] pub fn is_empty(&self) -> bool { unimplemented!() }
}
impl<K, V> Clone for BTreeMap<K, V> { #[verifier::external_body] fn clone(&self) -> (r: Self) ensures r == *self { unimplemented!() } }
#[verifier::external_body] pub struct BTreeSetString { _p: u8 }

// ---- the interner: ids are stable, an id denotes the value it was handed out for ------------------------------------
#[verifier::external_body] #[verifier::accept_recursive_types(T)]
pub struct Interner<T> { _k: PhantomData<T> }
impl<T> View for Interner<T> { type V = Map<Idx<T>, T>; uninterp spec fn view(&self) -> Map<Idx<T>, T>; }
impl<T> Interner<T> {
    #[verifier::external_body] pub fn get_or_intern(&mut self, value: T) -> (r: Idx<T>)
        ensures final(self)@.contains_key(r), final(self)@[r] == value,
                forall |i: Idx<T>| #[trigger] old(self)@.contains_key(i) ==> final(self)@.contains_key(i) && final(self)@[i] == old(self)@[i] { unimplemented!() }
}
#[verifier::external_body] pub struct GlobalItemId { _p: u8 }
#[verifier::external_body] pub struct AnnotatedItemId { _p: u8 }
impl Clone for AnnotatedItemId { #[verifier::external_body] fn clone(&self) -> (r: Self) ensures r == *self { unimplemented!() } }
impl Copy for AnnotatedItemId {}

// ---- petgraph::graphmap::DiGraphMap<usize, ()> as a node set and an edge set (same model as the C04 unit) ----------
#[verifier::external_body] #[verifier::reject_recursive_types(N)] #[verifier::reject_recursive_types(E)]
pub struct DiGraphMap<N, E> { _k: PhantomData<(N, E)> }
pub uninterp spec fn g_nodes(g: &DiGraphMap<usize, ()>) -> Set<usize>;
pub uninterp spec fn g_edges(g: &DiGraphMap<usize, ()>) -> Set<(usize, usize)>;
impl DiGraphMap<usize, ()> {
    #[verifier::external_body] pub fn new() -> (r: Self)
        ensures g_nodes(&r) == Set::<usize>::empty(), g_edges(&r) == Set::<(usize, usize)>::empty() { unimplemented!() }
    #[verifier::external_body] pub fn add_node(&mut self, n: usize) -> (r: usize)
        ensures r == n, g_nodes(final(self)) == g_nodes(old(self)).insert(n), g_edges(final(self)) == g_edges(old(self)) { unimplemented!() }
    #[verifier::external_body] pub fn add_edge(&mut self, a: usize, b: usize, w: ()) -> (r: Option<()>)
        ensures g_nodes(final(self)) == g_nodes(old(self)).insert(a).insert(b), g_edges(final(self)) == g_edges(old(self)).insert((a, b)) { unimplemented!() }
}
#[verifier::external_body] pub struct ScopeGraph { _p: u8 }
impl ScopeGraphBuilder {
    /// The contract discharged on the real text in the C04 unit (`scope_builder.add_scope_*`), ASSUMED here without its
    /// precondition `next_node_id < usize::MAX` (a blueprint with 2^64 scopes does not fit in memory)
    #[verifier::external_body]
    pub fn add_scope(&mut self, parent_scope_id: ScopeId, location: Option<Location>) -> (r: ScopeId)
        requires g_nodes(&old(self).graph).contains(parent_scope_id.0),
        ensures !g_nodes(&old(self).graph).contains(r.0),
                g_edges(&final(self).graph) == g_edges(&old(self).graph).insert((parent_scope_id.0, r.0)),
                g_nodes(&final(self).graph) == g_nodes(&old(self).graph).insert(r.0),
                final(self).root == old(self).root
    { unimplemented!() }
}

// ---- opaque values -------------------------------------------------------------------------------------------
#[verifier::external_body] pub struct DomainGuard { _p: u8 }
impl Clone for DomainGuard { #[verifier::external_body] fn clone(&self) -> (r: Self) ensures r == *self { unimplemented!() } }
#[verifier::external_body] pub struct DiagnosticSink { _p: u8 }
#[verifier::external_body] pub struct ConfigTypeInfo { _p: u8 }
pub const PAVEX_VERSION: &'static str = "verif";
/// ASSUMED (str predicates, DomainGuard::new, entry().or_default()): touches only `domain_guard2locations` and the sink
#[verifier::external_body]
pub fn process_nesting_constraints(aux: &mut AuxiliaryData, nested_bp: &NestedBlueprint, diagnostics: &DiagnosticSink) -> (r: Result<(Option<String>, Option<DomainGuard>), ()>)
    ensures aux_same_except_domain_locations(old(aux), final(aux)), grows(old(aux), final(aux)), wf_aux(old(aux)) ==> wf_aux(final(aux)) { unimplemented!() }
/// `format!("{}{}", a, b)` (rule N8): an uninterpreted function of the format string and its arguments
pub uninterp spec fn fmt2<A, B>(f: &str, a: A, b: B) -> Seq<char>;
#[verifier::external_body] pub fn verif_format_2<A, B>(f: &'static str, a: A, b: B) -> (r: String) ensures r@ == fmt2(f, a, b) { unimplemented!() }

// ---- derived Clone of the schema types is a structural copy (ASSUMED: Verus has no spec for a derived Clone that is not Copy)
impl Clone for pavex_bp_schema::Location { #[verifier::external_body] fn clone(&self) -> (r: Self) ensures r == *self { unimplemented!() } }
impl Clone for pavex_bp_schema::CreatedAt { #[verifier::external_body] fn clone(&self) -> (r: Self) ensures r == *self { unimplemented!() } }
impl Clone for pavex_bp_schema::Fallback { #[verifier::external_body] fn clone(&self) -> (r: Self) ensures r == *self { unimplemented!() } }
impl Clone for pavex_bp_schema::Sources { #[verifier::external_body] fn clone(&self) -> (r: Self) ensures r == *self { unimplemented!() } }
/// std: `<[T] as ToOwned>::to_owned` clones every element
pub assume_specification<T: Clone> [<[T] as std::borrow::ToOwned>::to_owned](s: &[T]) -> (r: Vec<T>)
    ensures r@.len() == s@.len(), forall |i: int| 0 <= i < s@.len() ==> cloned(s@[i], #[trigger] r@[i]);
// ---- std bits without a vstd spec -------------------------------------------------------------------
pub uninterp spec fn deref_of<T: core::ops::Deref>(t: &T) -> &<T as core::ops::Deref>::Target;
pub assume_specification<T: core::ops::Deref>[Option::<T>::as_deref](o: &Option<T>) -> (r: Option<&<T as core::ops::Deref>::Target>)
    ensures r == (match *o { Some(t) => Some(deref_of(&t)), None => None });
/// std: `impl<T: Clone> ToOwned for T { fn to_owned(&self) -> T { self.clone() } }`
pub assume_specification<T: Clone>[<T as std::borrow::ToOwned>::to_owned](t: &T) -> (r: T)
    ensures call_ensures(T::clone, (t,), r);
/// std: `Option::or_else`
pub assume_specification<T, F: FnOnce() -> Option<T>>[Option::<T>::or_else](o: Option<T>, f: F) -> (r: Option<T>)
    ensures match o { Some(t) => r == Some(t), None => call_ensures(f, (), r) };
/// std: `<[T]>::to_vec` clones every element (API neighbourhood of `to_owned`)
pub assume_specification<T: Clone> [<[T]>::to_vec](s: &[T]) -> (r: Vec<T>)
    ensures r@.len() == s@.len(), forall |i: int| 0 <= i < s@.len() ==> cloned(s@[i], #[trigger] r@[i]);
