// ======================================================================================
// C06 (error handler lookup) prelude
// ======================================================================================
use std::collections::VecDeque;
use core::marker::PhantomData;
#[verifier::external_body] pub struct Type { _p: u8 }
#[verifier::external_body] pub struct ErrorHandler { _p: u8 }
#[derive(Clone, Copy)] pub struct UserComponentId { pub raw: usize }
#[verifier::external_body] pub struct ScopeGraph { _p: u8 }
#[verifier::external_body] pub struct ComponentDb { _p: u8 }
pub uninterp spec fn db_graph(db: &ComponentDb) -> &ScopeGraph;
impl ComponentDb {
    #[verifier::external_body] pub fn scope_graph(&self) -> (r: &ScopeGraph) ensures r == db_graph(self) { unimplemented!() }
}
/// the direct parents of a scope, in the order `BTreeSet<ScopeId>` iterates them
pub uninterp spec fn parent_seq(g: &ScopeGraph, s: ScopeId) -> Seq<ScopeId>;
#[verifier::external_body] #[verifier::reject_recursive_types(T)]
pub struct BTreeSet<T> { _k: PhantomData<T> }
pub uninterp spec fn bts_seq<T>(b: &BTreeSet<T>) -> Seq<T>;
impl ScopeId {
    #[verifier::external_body] pub fn direct_parent_ids(&self, g: &ScopeGraph) -> (r: BTreeSet<ScopeId>)
        ensures bts_seq(&r) == parent_seq(g, *self) { unimplemented!() }
}
#[verifier::external_body] pub fn verif_extend(q: &mut VecDeque<ScopeId>, b: BTreeSet<ScopeId>)
    ensures final(q)@ == old(q)@ + bts_seq(&b) { unimplemented!() }

/// the error handlers registered in one scope: an uninterpreted lookup by error type
#[verifier::external_body] pub struct ErrorHandlersInScope { _p: u8 }
pub uninterp spec fn eh_lookup(h: &ErrorHandlersInScope, t: &Type) -> Option<ErrorHandlerEntry>;
impl ErrorHandlersInScope {
    /// ASSUMED: returns the scope's answer for the type; binding a templated handler only caches — no lookup's answer changes
    #[verifier::external_body] pub fn get_or_try_bind(&mut self, type_: &Type) -> (r: Option<ErrorHandlerEntry>)
        ensures r == eh_lookup(old(self), type_), forall |t: &Type| #[trigger] eh_lookup(final(self), t) == eh_lookup(old(self), t) { unimplemented!() }
}
#[verifier::external_body] #[verifier::reject_recursive_types(K)] #[verifier::accept_recursive_types(V)]
pub struct IndexMap<K, V> { _k: PhantomData<(K, V)> }
impl<K, V> View for IndexMap<K, V> { type V = Map<K, V>; uninterp spec fn view(&self) -> Map<K, V>; }
impl<K, V> IndexMap<K, V> {
    #[verifier::external_body] pub fn get_mut(&mut self, k: &K) -> (r: Option<&mut V>)
        ensures match r {
            Some(v) => old(self)@.contains_key(*k) && *v == old(self)@[*k] && final(self)@ == old(self)@.insert(*k, *final(v)),
            None => !old(self)@.contains_key(*k) && final(self)@ == old(self)@,
        } { unimplemented!() }
}
