// ======================================================================================
// C06 (which error handler is designated for an error type in a scope): the same breadth-first walk as C04's
// ======================================================================================
/// what scope `s` itself offers for error type `t`
pub open spec fn hit(db: &ErrorHandlersDb, s: ScopeId, t: &Type) -> Option<ErrorHandlerEntry> {
    if db.scope_id2error_handlers@.contains_key(s) { eh_lookup(&db.scope_id2error_handlers@[s], t) } else { None }
}
/// the tables answer every lookup as before (binding a template only caches)
pub open spec fn same_answers(a: &ErrorHandlersDb, b: &ErrorHandlersDb) -> bool {
    forall |s: ScopeId, t: &Type| #[trigger] hit(b, s, t) == hit(a, s, t)
}
pub open spec fn is_parent(g: &ScopeGraph, b: ScopeId, p: ScopeId) -> bool { parent_seq(g, b).contains(p) }
/// `path` climbs the scope graph one direct parent at a time
pub open spec fn is_path(g: &ScopeGraph, path: Seq<ScopeId>) -> bool {
    forall |i: int| 0 <= i < path.len() - 1 ==> is_parent(g, #[trigger] path[i], path[i + 1])
}
/// `p` is reached from `s0` in exactly `k` parent steps (k = 0: the scope itself; sibling scopes are never reached)
pub open spec fn anc(g: &ScopeGraph, s0: ScopeId, k: nat, p: ScopeId) -> bool {
    exists |path: Seq<ScopeId>| #[trigger] is_path(g, path) && path.len() == k + 1 && path[0] == s0 && path[k as int] == p
}
/// no scope exactly `j` steps above `s0` offers a constructor for `t`
pub open spec fn level_clear(db: &ErrorHandlersDb, g: &ScopeGraph, s0: ScopeId, t: &Type, j: nat) -> bool {
    forall |b: ScopeId| #[trigger] anc(g, s0, j, b) ==> hit(db, b, t) is None
}
pub open spec fn level_empty(g: &ScopeGraph, s0: ScopeId, k: nat) -> bool { forall |p: ScopeId| !#[trigger] anc(g, s0, k, p) }
/// `r` is what scope `a` offers, `a` is `k` parent steps above `s0`, and no scope fewer steps away offers anything for `t`
pub open spec fn nearest_hit(db: &ErrorHandlersDb, g: &ScopeGraph, s0: ScopeId, t: &Type, k: nat, a: ScopeId, r: Option<ErrorHandlerEntry>) -> bool {
    anc(g, s0, k, a) && hit(db, a, t) == r && forall |j: nat| j < k ==> #[trigger] level_clear(db, g, s0, t, j)
}
pub open spec fn anc_next(g: &ScopeGraph, s0: ScopeId, k: nat, p: ScopeId) -> bool { exists |b: ScopeId| #[trigger] anc(g, s0, k, b) && is_parent(g, b, p) }
pub open spec fn occurs(q: Seq<ScopeId>, lo: int, hi: int, b: ScopeId) -> bool { exists |i: int| lo <= i < hi && 0 <= i < q.len() && #[trigger] q[i] == b }

/// Representation invariant of a finished scope graph: every parent has a smaller id than its child (ids are handed out
/// in increasing order and a scope is attached to scopes that already exist) — in particular the graph is acyclic.
pub open spec fn wf_graph(g: &ScopeGraph) -> bool {
    forall |s: ScopeId, i: int| 0 <= i < parent_seq(g, s).len() ==> (#[trigger] parent_seq(g, s)[i]).0 < s.0
}

// ---- termination measure of the walk: the number of upward paths that start at a scope ---------------------------
pub open spec fn w(g: &ScopeGraph, s: ScopeId) -> nat decreases s.0, 1nat, 0nat { 1 + sum_w(g, s.0 as nat, parent_seq(g, s)) }
pub open spec fn sum_w(g: &ScopeGraph, bound: nat, q: Seq<ScopeId>) -> nat decreases bound, 0nat, q.len() {
    if q.len() == 0 { 0 } else { (if q[0].0 < bound { w(g, q[0]) } else { 0 }) + sum_w(g, bound, q.drop_first()) }
}
pub open spec fn sum_all(g: &ScopeGraph, q: Seq<ScopeId>) -> nat decreases q.len() {
    if q.len() == 0 { 0 } else { w(g, q[0]) + sum_all(g, q.drop_first()) }
}
pub proof fn sum_w_is_sum_all(g: &ScopeGraph, bound: nat, q: Seq<ScopeId>)
    requires forall |i: int| 0 <= i < q.len() ==> (#[trigger] q[i]).0 < bound
    ensures sum_w(g, bound, q) == sum_all(g, q)
    decreases q.len()
{
    if q.len() > 0 {
        assert(q[0].0 < bound);
        assert forall |i: int| 0 <= i < q.drop_first().len() implies (#[trigger] q.drop_first()[i]).0 < bound by { assert(q.drop_first()[i] == q[i + 1]); }
        sum_w_is_sum_all(g, bound, q.drop_first());
    }
}
pub proof fn sum_all_concat(g: &ScopeGraph, a: Seq<ScopeId>, b: Seq<ScopeId>)
    ensures sum_all(g, a + b) == sum_all(g, a) + sum_all(g, b)
    decreases a.len()
{
    if a.len() == 0 { assert(a + b =~= b); }
    else {
        assert((a + b).drop_first() =~= a.drop_first() + b);
        assert((a + b)[0] == a[0]);
        sum_all_concat(g, a.drop_first(), b);
    }
}

// ---- the walk as a function: WHICH registration is designated (first hit in breadth-first order) -----------------
/// popping `q[0]` and queueing its parents strictly decreases the measure (on a well-formed graph)
pub proof fn pop_decreases(g: &ScopeGraph, q: Seq<ScopeId>)
    requires wf_graph(g), q.len() > 0
    ensures sum_all(g, q.drop_first() + parent_seq(g, q[0])) < sum_all(g, q)
{
    sum_all_concat(g, q.drop_first(), parent_seq(g, q[0]));
    sum_w_is_sum_all(g, q[0].0 as nat, parent_seq(g, q[0]));
}
/// what the breadth-first walk returns when started with the queue `q`
pub open spec fn bfs(db: &ErrorHandlersDb, g: &ScopeGraph, t: &Type, q: Seq<ScopeId>) -> Option<ErrorHandlerEntry>
    decreases sum_all(g, q) when wf_graph(g) via bfs_decreases
{
    if q.len() == 0 { None }
    else if hit(db, q[0], t) is Some { hit(db, q[0], t) }
    else { bfs(db, g, t, q.drop_first() + parent_seq(g, q[0])) }
}
#[via_fn]
proof fn bfs_decreases(db: &ErrorHandlersDb, g: &ScopeGraph, t: &Type, q: Seq<ScopeId>) {
    if q.len() > 0 && !(hit(db, q[0], t) is Some) { pop_decreases(g, q); }
}
/// the registration the blueprint designates for type `t` as seen from scope `s` (None: no constructor in scope)
pub open spec fn designated(db: &ErrorHandlersDb, g: &ScopeGraph, s: ScopeId, t: &Type) -> Option<ErrorHandlerEntry> {
    bfs(db, g, t, seq![s])
}

// ---- facts about `anc` ----------------------------------------------------------------------------------------
pub proof fn anc_zero(g: &ScopeGraph, s0: ScopeId, p: ScopeId)
    ensures anc(g, s0, 0, p) == (p == s0)
{
    if p == s0 { let path = seq![s0]; assert(is_path(g, path)); assert(path[0] == s0); }
}
pub proof fn anc_step(g: &ScopeGraph, s0: ScopeId, k: nat, p: ScopeId)
    ensures anc(g, s0, k + 1, p) == anc_next(g, s0, k, p)
{
    if anc(g, s0, k + 1, p) {
        let path = choose |path: Seq<ScopeId>| #[trigger] is_path(g, path) && path.len() == k + 2 && path[0] == s0 && path[k as int + 1] == p;
        let pre = path.drop_last();
        assert(is_path(g, pre)) by { assert forall |i: int| 0 <= i < pre.len() - 1 implies is_parent(g, #[trigger] pre[i], pre[i + 1]) by { assert(pre[i] == path[i]); assert(pre[i+1] == path[i+1]); } }
        assert(pre[k as int] == path[k as int]);
        assert(anc(g, s0, k, path[k as int]));
        assert(is_parent(g, path[k as int], path[k as int + 1]));
    }
    if anc_next(g, s0, k, p) {
        let b = choose |b: ScopeId| #[trigger] anc(g, s0, k, b) && is_parent(g, b, p);
        let pre = choose |path: Seq<ScopeId>| #[trigger] is_path(g, path) && path.len() == k + 1 && path[0] == s0 && path[k as int] == b;
        let path = pre.push(p);
        assert(is_path(g, path)) by { assert forall |i: int| 0 <= i < path.len() - 1 implies is_parent(g, #[trigger] path[i], path[i + 1]) by { if i < k { assert(path[i] == pre[i]); assert(path[i+1] == pre[i+1]); } } }
        assert(path[0] == s0 && path[k as int + 1] == p);
    }
}
pub proof fn empty_levels_stay_empty(g: &ScopeGraph, s0: ScopeId, k: nat, j: nat)
    requires level_empty(g, s0, k), j >= k
    ensures level_empty(g, s0, j)
    decreases j
{
    if j > k {
        empty_levels_stay_empty(g, s0, k, (j - 1) as nat);
        assert forall |p: ScopeId| !#[trigger] anc(g, s0, j, p) by { anc_step(g, s0, (j - 1) as nat, p); }
    }
}

