fn main() {
    let (store, config) = (SessionStore, SessionConfig);
    let s = Session {
        id: CurrentSessionId::for_the_harness_only(),
        server_state: OnceCell::new(),
        client_state: ClientState,
        invalidated: InvalidationFlag,
        store: &store,
        config: &config,
        _unsend: (),
    };
    let out = format!("{:?}", s);
    // closed term: the value printed for the field named `id` is the constant "**redacted**"
    let ok = out.contains("id: \"**redacted**\"");
    println!("OB debug.id_field_is_redacted_literal {} output={:?}", if ok { "ok" } else { "FAIL" }, out);
    // non-vacuity of the frame: the other fields ARE printed through their Debug impls
    let nv = out.contains("ServerState") || out.contains("ClientState") || out.contains("server_state");
    println!("OB debug.frame_is_not_vacuous {}", if nv { "ok" } else { "FAIL" });
}
