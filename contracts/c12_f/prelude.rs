// C12-F: reads-frame of `impl Debug for Session` by typing.
// The field `id` keeps its real name and position, but its type is OPAQUE here: no Debug, no Display,
// no Clone/Copy, no accessor, no public constructor.  Any `fmt` body that formats the id, or anything derived
// from it, does not type-check — for all inputs.  (The real `SessionId` has no `Debug` impl either; the real
// `CurrentSessionId` offers `new_id()/old_id()`, which this stand-in deliberately withholds.)
#![allow(dead_code, unused)]
use std::cell::OnceCell;
mod opaque {
    pub struct CurrentSessionId(());
    impl CurrentSessionId { pub(super) fn for_the_harness_only() -> Self { CurrentSessionId(()) } }
}
use opaque::CurrentSessionId;
#[derive(Debug)] pub struct ServerState;
#[derive(Debug)] pub struct ClientState;
#[derive(Debug)] pub struct InvalidationFlag;
#[derive(Debug)] pub struct SessionStore;
#[derive(Debug)] pub struct SessionConfig;
type PhantomUnsend = ();
