// C12-F: reads-frame of `impl Debug for Session` by typing.
// The field `id` keeps its real name and position, but its type is OPAQUE here: no Debug, no Display,
// no Clone/Copy, no accessor, no public constructor.  Any `fmt` body that formats the id, or anything derived
// from it, does not type-check — for all inputs.  (The real `SessionId` has no `Debug` impl either; the real
// `CurrentSessionId` offers `new_id()/old_id()`, which this stand-in deliberately withholds.)
#![allow(dead_code, unused)]
use std::cell::OnceCell;
mod opaque {
    pub struct CurrentSessionId(());
    impl CurrentSessionId { pub(super) fn for_the_harness_only() -> Self { CurrentSessionId(()) } }
}
use opaque::CurrentSessionId;
#[derive(Debug)] pub struct ServerState;
#[derive(Debug)] pub struct ClientState;
#[derive(Debug)] pub struct InvalidationFlag;
#[derive(Debug)] pub struct SessionStore;
#[derive(Debug)] pub struct SessionConfig;
type PhantomUnsend = ();

/// uuid::Uuid: Copy, comparable, hashable, and — unlike SessionId — printable
#[derive(Clone, Copy, Eq, PartialEq, Hash, PartialOrd, Ord, Debug, Default)]
pub struct Uuid(pub u128);
impl core::fmt::Display for Uuid { fn fmt(&self, f: &mut core::fmt::Formatter<'_>) -> core::fmt::Result { write!(f, "{:032x}", self.0) } }
// The transitive half of the frame: every other field of `Session` is printed through its own `Debug`; none of them can
// print an id as long as the id TYPE itself cannot be formatted.  (static_assertions' `assert_not_impl_any!` trick:
// the call below is ambiguous, hence a compile error, iff SessionId implements the trait.)
trait SessionIdMustNotImplementDebug<A> { fn check() {} }
impl<T: ?Sized> SessionIdMustNotImplementDebug<()> for T {}
impl<T: ?Sized + core::fmt::Debug> SessionIdMustNotImplementDebug<u8> for T {}
trait SessionIdMustNotImplementDisplay<A> { fn check() {} }
impl<T: ?Sized> SessionIdMustNotImplementDisplay<()> for T {}
impl<T: ?Sized + core::fmt::Display> SessionIdMustNotImplementDisplay<u8> for T {}
fn the_id_type_cannot_be_formatted() {
    let _ = <SessionId as SessionIdMustNotImplementDebug<_>>::check;
    let _ = <SessionId as SessionIdMustNotImplementDisplay<_>>::check;
}
