// ======================================================================================
// C16 (thin slice) prelude: tokio inboxes as ghost queues
// ======================================================================================
use core::marker::PhantomData;
use vstd::std_specs::convert::FromSpecImpl;
pub enum Poll<T> { Ready(T), Pending }
#[verifier::external_body] pub struct TaskContext { _p: u8 }
#[verifier::external_body] pub struct TcpStream { _p: u8 }
#[verifier::external_body] pub struct SocketAddr { _p: u8 }
#[verifier::external_body] pub struct OneshotSender { _p: u8 }
#[verifier::external_body] pub struct Duration { _p: u8 }
#[verifier::external_body] pub struct IncomingStream { _p: u8 }
#[verifier::external_body] pub struct JoinError { _p: u8 }
#[verifier::external_body] pub struct Response { _p: u8 }
pub struct Worker<HandlerFuture, ApplicationState> { pub _p: PhantomData<(HandlerFuture, ApplicationState)> }
pub struct Acceptor<HandlerFuture, ApplicationState> { pub _p: PhantomData<(HandlerFuture, ApplicationState)> }
pub trait Future { type Output; }

/// tokio::sync::mpsc receivers: what is queued, first in first out
#[verifier::external_body] #[verifier::accept_recursive_types(T)] pub struct UnboundedReceiver<T> { _k: PhantomData<T> }
#[verifier::external_body] #[verifier::accept_recursive_types(T)] pub struct Receiver<T> { _k: PhantomData<T> }
#[verifier::external_body] #[verifier::accept_recursive_types(T)] pub struct JoinSet<T> { _k: PhantomData<T> }
impl<T> View for UnboundedReceiver<T> { type V = Seq<T>; uninterp spec fn view(&self) -> Seq<T>; }
impl<T> View for Receiver<T> { type V = Seq<T>; uninterp spec fn view(&self) -> Seq<T>; }
/// would a poll hand out a message now? (a fact of the receiver's state: something is queued and tokio's cooperative budget allows it)
pub uninterp spec fn yields_u<T>(r: &UnboundedReceiver<T>) -> bool;
pub uninterp spec fn yields_r<T>(r: &Receiver<T>) -> bool;
impl<T> UnboundedReceiver<T> {
    #[verifier::external_body] pub fn poll_recv(&mut self, cx: &mut TaskContext) -> (r: Poll<Option<T>>)
        ensures (r matches Poll::Ready(Some(m))) <==> yields_u(old(self)),
                match r { Poll::Ready(Some(m)) => old(self)@.len() > 0 && m == old(self)@[0] && final(self)@ == old(self)@.drop_first(), _ => final(self)@ == old(self)@ }
    { unimplemented!() }
}
impl<T> Receiver<T> {
    #[verifier::external_body] pub fn poll_recv(&mut self, cx: &mut TaskContext) -> (r: Poll<Option<T>>)
        ensures (r matches Poll::Ready(Some(m))) <==> yields_r(old(self)),
                match r { Poll::Ready(Some(m)) => old(self)@.len() > 0 && m == old(self)@[0] && final(self)@ == old(self)@.drop_first(), _ => final(self)@ == old(self)@ }
    { unimplemented!() }
}
/// the set of in-flight accept tasks: opaque, only "was it polled" matters here
pub uninterp spec fn js_state<T>(j: &JoinSet<T>) -> int;
impl<T> JoinSet<T> {
    #[verifier::external_body] pub fn poll_join_next(&mut self, cx: &mut TaskContext) -> (r: Poll<Option<Result<T, JoinError>>>)
        ensures r is Pending ==> js_state(final(self)) == js_state(old(self)) { unimplemented!() }
}
