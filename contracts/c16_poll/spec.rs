impl FromSpecImpl<ConnectionMessage> for WorkerInboxMessage {
    open spec fn obeys_from_spec() -> bool { true }
    open spec fn from_spec(c: ConnectionMessage) -> Self { WorkerInboxMessage::Connection(c) }
}
impl FromSpecImpl<ShutdownWorkerCommand> for WorkerInboxMessage {
    open spec fn obeys_from_spec() -> bool { true }
    open spec fn from_spec(c: ShutdownWorkerCommand) -> Self { WorkerInboxMessage::Shutdown(c) }
}
