// Native witness for the C16 slice (appended to runtime/pavex/src/server/worker.rs of the scratch copy): real tokio channels.
#[cfg(test)]
mod verif_witness_c16 {
    use super::*;
    type W = Worker<std::future::Ready<crate::Response>, ()>;

    /// None where the sandbox has no loopback networking: the test then covers the cases without queued connections only
    async fn a_connection() -> Option<ConnectionMessage> {
        let listener = tokio::net::TcpListener::bind("127.0.0.1:0").await.ok()?;
        let addr = listener.local_addr().ok()?;
        let (client, accepted) = tokio::join!(TcpStream::connect(addr), listener.accept());
        let keep = client.ok()?;
        let (connection, peer_addr) = accepted.ok()?;
        std::mem::forget(keep);
        Some(ConnectionMessage { connection, peer_addr })
    }

    #[test]
    fn a_queued_shutdown_command_is_taken_before_queued_connections_which_stay_in_the_inbox() {
        let rt = tokio::runtime::Builder::new_current_thread().enable_all().build().unwrap();
        rt.block_on(async {
            let mut evaluated = 0;
            for n_connections in 0..4usize {
                let (conn_tx, mut conn_rx) = tokio::sync::mpsc::channel::<ConnectionMessage>(8);
                let (shut_tx, mut shut_rx) = tokio::sync::mpsc::unbounded_channel::<ShutdownWorkerCommand>();
                // connections are queued FIRST, the shutdown command arrives later
                let mut queued = 0;
                for _ in 0..n_connections { if let Some(c) = a_connection().await { conn_tx.send(c).await.ok().unwrap(); queued += 1; } }
                let n_connections = queued;
                let (done_tx, _done_rx) = tokio::sync::oneshot::channel();
                shut_tx.send(ShutdownWorkerCommand { completion_notifier: done_tx, mode: ShutdownMode::Forced }).ok().unwrap();
                let first = poll_fn(|cx| W::poll_inboxes(cx, &mut shut_rx, &mut conn_rx)).await;
                assert!(matches!(first, WorkerInboxMessage::Shutdown(_)), "VERIF: with {n_connections} queued connection(s), the shutdown command must come out first");
                assert_eq!(conn_rx.len(), n_connections, "VERIF: no connection may leave the inbox while a shutdown command is ready");
                // afterwards the queued connections come out, in order
                for _ in 0..n_connections {
                    let next = poll_fn(|cx| W::poll_inboxes(cx, &mut shut_rx, &mut conn_rx)).await;
                    assert!(matches!(next, WorkerInboxMessage::Connection(_)));
                }
                evaluated += 1;
            }
            println!("VERIF-BOUNDED test=a_queued_shutdown_command_is_taken_before_queued_connections_which_stay_in_the_inbox evaluations={evaluated} bound=0..3 connections queued before the shutdown command, real tokio channels and loopback sockets (no connections where loopback is unavailable)");
        });
    }
}
