// ======================================================================================
// C11 prelude — stand-ins and ASSUMED contracts for everything `session_.rs` mentions that
// is not pavex_session's own code.  Reviewed by hand; every `external_body` / `uninterp`
// below is part of the trusted base and is listed verbatim in the evidence.
// ======================================================================================
use vstd::std_specs::convert::FromSpecImpl;
use vstd::std_specs::cmp::PartialEqSpecImpl;
use std::marker::PhantomData;

/// rule N14: an explicit `panic!` is a deliberate abort (never returns).
#[verifier::external_body] pub fn verif_abort() -> ! ensures false { panic!() }

/// std: `impl<T> From<T> for T { fn from(t: T) -> T { t } }` (used by the written-out `?`, rule N15)
pub assume_specification<T>[<T as From<T>>::from](t: T) -> (r: T) ensures r == t;

// ---- opaque payloads -------------------------------------------------------------------
/// serde_json::Value — opaque payload.
#[verifier::external_body] pub struct Value { _p: u8 }
/// Cow<'static, str> used as map key; modelled by its string content.
#[verifier::external_body] pub struct CowStr { _p: u8 }
pub uninterp spec fn cow_str_view(k: &CowStr) -> Seq<char>;
impl View for CowStr { type V = Seq<char>; open spec fn view(&self) -> Seq<char> { cow_str_view(self) } }
/// `key.into()` for `Key: Into<Cow<'static, str>>` goes through vstd's `IntoSpec` (requires obeys_into_spec()).
use vstd::std_specs::convert::IntoSpec;
/// std::time::Duration — opaque, compared through uninterpreted functions (float semantics not decided).
#[verifier::external_body] pub struct Duration { _p: u8 }
impl Clone for Duration { #[verifier::external_body] fn clone(&self) -> (r: Self) ensures r == *self { unimplemented!() } }
impl Copy for Duration {}
/// `a < b` etc. on Duration: an uninterpreted order (only its use is decided, not its arithmetic)
pub uninterp spec fn dur_cmp(a: Duration, b: Duration) -> Option<core::cmp::Ordering>;
pub uninterp spec fn dur_mul_f32(a: Duration, f: f32) -> Duration;
impl Duration {
    #[verifier::external_body] pub fn mul_f32(self, f: f32) -> (r: Duration) ensures r == dur_mul_f32(self, f) { unimplemented!() }
}
impl PartialEq for Duration { #[verifier::external_body] fn eq(&self, o: &Duration) -> (r: bool) { unimplemented!() } }
impl PartialEqSpecImpl for Duration {
    open spec fn obeys_eq_spec() -> bool { false }
    open spec fn eq_spec(&self, o: &Duration) -> bool { true }
}
impl PartialOrd for Duration { #[verifier::external_body] fn partial_cmp(&self, o: &Duration) -> (r: Option<core::cmp::Ordering>) { unimplemented!() } }
impl vstd::std_specs::cmp::PartialOrdSpecImpl for Duration {
    open spec fn obeys_partial_cmp_spec() -> bool { true }
    open spec fn partial_cmp_spec(&self, o: &Duration) -> Option<core::cmp::Ordering> { dur_cmp(*self, *o) }
}

/// borrowed forms a `HashMap<Cow<str>, _>` can be looked up by (std: `K: Borrow<Q>`): `&str` and `&Cow<str>` itself
pub trait KeyLike { spec fn key_text(&self) -> Seq<char>; }
impl KeyLike for str { open spec fn key_text(&self) -> Seq<char> { self@ } }
impl KeyLike for CowStr { open spec fn key_text(&self) -> Seq<char> { self@ } }

// ---- HashMap<CowStr, V> (std::collections::HashMap keyed by string content) --------------
#[verifier::external_body]
#[verifier::accept_recursive_types(K)]
#[verifier::accept_recursive_types(V)]
pub struct HashMap<K, V> { _k: PhantomData<K>, _v: PhantomData<V> }
pub uninterp spec fn hm_view<V>(m: &HashMap<CowStr, V>) -> Map<Seq<char>, V>;
impl<V> View for HashMap<CowStr, V> { type V = Map<Seq<char>, V>; open spec fn view(&self) -> Map<Seq<char>, V> { hm_view(self) } }
impl<V> HashMap<CowStr, V> {
    #[verifier::external_body]
    pub fn new() -> (r: Self) ensures r@ == Map::<Seq<char>, V>::empty() { unimplemented!() }
    #[verifier::external_body]
    pub fn is_empty(&self) -> (r: bool) ensures r == (self@ == Map::<Seq<char>, V>::empty()) { unimplemented!() }
    #[verifier::external_body]
    pub fn get<Q: KeyLike + ?Sized>(&self, k: &Q) -> (r: Option<&V>)
        ensures match r { Some(v) => self@.contains_key(k.key_text()) && self@[k.key_text()] == *v, None => !self@.contains_key(k.key_text()) }
    { unimplemented!() }
    #[verifier::external_body]
    pub fn insert(&mut self, k: CowStr, v: V) -> (r: Option<V>)
        ensures final(self)@ == old(self)@.insert(k@, v),
            match r { Some(o) => old(self)@.contains_key(k@) && old(self)@[k@] == o, None => !old(self)@.contains_key(k@) }
    { unimplemented!() }
    #[verifier::external_body]
    pub fn remove<Q: KeyLike + ?Sized>(&mut self, k: &Q) -> (r: Option<V>)
        ensures final(self)@ == old(self)@.remove(k.key_text()),
            match r { Some(o) => old(self)@.contains_key(k.key_text()) && old(self)@[k.key_text()] == o, None => !old(self)@.contains_key(k.key_text()) }
    { unimplemented!() }
    #[verifier::external_body]
    pub fn clear(&mut self) ensures final(self)@ == Map::<Seq<char>, V>::empty() { unimplemented!() }
    #[verifier::external_body]
    pub fn get_mut<Q: KeyLike + ?Sized>(&mut self, k: &Q) -> (r: Option<&mut V>)
        ensures match r {
            Some(v) => old(self)@.contains_key(k.key_text()) && *v == old(self)@[k.key_text()] && final(self)@ == old(self)@.insert(k.key_text(), *final(v)),
            None => !old(self)@.contains_key(k.key_text()) && final(self)@ == old(self)@,
        }
    { unimplemented!() }
    #[verifier::external_body]
    pub fn contains_key<Q: KeyLike + ?Sized>(&self, k: &Q) -> (r: bool) ensures r == self@.contains_key(k.key_text()) { unimplemented!() }
    #[verifier::external_body]
    pub fn len(&self) -> (r: usize) ensures (r == 0) == (self@ == Map::<Seq<char>, V>::empty()) { unimplemented!() }
    /// API neighbourhood (not called by the unchanged code).  std's bound is `FnMut(&K, &mut V) -> bool`; Verus has no
    /// contracts for FnMut closures, so the stand-in takes `Fn(&K, &V)` and promises only "nothing is added or altered".
    #[verifier::external_body]
    pub fn retain<F: Fn(&CowStr, &V) -> bool>(&mut self, f: F)
        ensures final(self)@.submap_of(old(self)@)
    { unimplemented!() }
}
impl Value {
    /// API neighbourhood (not called by the unchanged code): no postcondition.
    #[verifier::external_body] pub fn is_null(&self) -> (r: bool) { unimplemented!() }
}
/// `Option::filter` (API neighbourhood, not called by the unchanged code): keeps the value exactly when the predicate says so.
pub assume_specification<T, P: FnOnce(&T) -> bool>[Option::<T>::filter](o: Option<T>, p: P) -> (r: Option<T>)
    requires o matches Some(t) ==> p.requires((&t,)),
    ensures match o { None => r is None, Some(t) => (r == Some(t) && p.ensures((&t,), true)) || (r is None && p.ensures((&t,), false)) };
/// std::mem::replace
pub assume_specification<T>[std::mem::replace::<T>](dest: &mut T, src: T) -> (r: T) ensures r == *old(dest), *final(dest) == src;
impl<V> Default for HashMap<CowStr, V> {
    #[verifier::external_body]
    fn default() -> (r: Self) ensures r@ == Map::<Seq<char>, V>::empty() { unimplemented!() }
}
/// std::mem::take: returns the old value (what it leaves behind is not specified: every caller overwrites it).
pub assume_specification<T: Default>[std::mem::take::<T>](t: &mut T) -> (r: T) ensures r == *old(t);

// ---- std::borrow::Cow over a sized payload ----------------------------------------------------
pub enum Cow<'a, T> { Borrowed(&'a T), Owned(T) }
pub open spec fn cow_val<T>(c: Cow<'_, T>) -> T { match c { Cow::Borrowed(t) => *t, Cow::Owned(t) => t } }

// ---- std::cell::OnceCell with exclusive access (rule N6'(b)) -----------------------------------
pub struct OnceCell<T> { pub v: Option<T> }
impl<T> FromSpecImpl<T> for OnceCell<T> {
    open spec fn obeys_from_spec() -> bool { true }
    open spec fn from_spec(t: T) -> Self { OnceCell { v: Some(t) } }
}
impl<T> From<T> for OnceCell<T> { fn from(t: T) -> (r: Self) { OnceCell { v: Some(t) } } }
impl<T> OnceCell<T> {
    pub fn new() -> (r: Self) ensures r.v is None { OnceCell { v: None } }
    pub fn get(&self) -> (r: Option<&T>)
        ensures match r { Some(x) => self.v == Some(*x), None => self.v is None }
    { self.v.as_ref() }
    pub fn get_mut(&mut self) -> (r: Option<&mut T>)
        ensures match r {
            Some(x) => old(self).v == Some(*x) && final(self).v == Some(*final(x)),
            None => old(self).v is None && final(self).v is None }
    { self.v.as_mut() }
    pub fn set(&mut self, t: T) -> (r: Result<(), T>)
        ensures old(self).v is None ==> r is Ok && final(self).v == Some(t),
                old(self).v is Some ==> r == Err::<(), T>(t) && final(self).v == old(self).v
    { if self.v.is_none() { self.v = Some(t); Ok(()) } else { Err(t) } }
    pub fn take(&mut self) -> (r: Option<T>)
        ensures r == old(self).v, final(self).v is None
    { self.v.take() }
}

// ---- SessionId randomness ---------------------------------------------------------------------
impl SessionId {
    /// `uuid::Uuid::new_v4()` — OS randomness; no postcondition is assumed about the value.
    #[verifier::external_body] pub fn random() -> (r: SessionId) { unimplemented!() }
}

// ---- error payloads of third-party crates ------------------------------------------------------
#[verifier::external_body] pub struct SerdeJsonError { _p: u8 }
#[verifier::external_body] pub struct AnyhowError { _p: u8 }

// ---- the session store, seen through the C13 view (rule N6'(a): exclusive handle) ----------------
// `sv`  = id -> state of every *live* record; `sv_ttl` = id -> ttl most recently written.
// ASSUMED: "stable store" — each call obeys the C13 contract and no record appears/expires during the
// request except through this handle.  C13 proves these contracts for InMemorySessionStore.
#[verifier::external_body] pub struct SessionStore { _p: u8 }
pub uninterp spec fn sv(s: &SessionStore) -> Map<SessionId, Map<Seq<char>, Value>>;
pub uninterp spec fn sv_ttl(s: &SessionStore) -> Map<SessionId, Duration>;
impl SessionStore {
    #[verifier::external_body]
    pub fn create(&mut self, id: &SessionId, record: SessionRecordRef<'_>) -> (r: Result<(), CreateError>)
        ensures match r {
            Ok(_) => !sv(old(self)).contains_key(*id)
                && sv(final(self)) == sv(old(self)).insert(*id, cow_val(record.state)@)
                && sv_ttl(final(self)) == sv_ttl(old(self)).insert(*id, record.ttl),
            Err(CreateError::DuplicateId(_)) => sv(old(self)).contains_key(*id)
                && sv(final(self)) == sv(old(self)) && sv_ttl(final(self)) == sv_ttl(old(self)),
            Err(_) => true,
        }
    { unimplemented!() }
    #[verifier::external_body]
    pub fn update(&mut self, id: &SessionId, record: SessionRecordRef<'_>) -> (r: Result<(), UpdateError>)
        ensures match r {
            Ok(_) => sv(old(self)).contains_key(*id)
                && sv(final(self)) == sv(old(self)).insert(*id, cow_val(record.state)@)
                && sv_ttl(final(self)) == sv_ttl(old(self)).insert(*id, record.ttl),
            Err(UpdateError::UnknownIdError(_)) => !sv(old(self)).contains_key(*id)
                && sv(final(self)) == sv(old(self)) && sv_ttl(final(self)) == sv_ttl(old(self)),
            Err(_) => true,
        }
    { unimplemented!() }
    #[verifier::external_body]
    pub fn update_ttl(&mut self, id: &SessionId, ttl: Duration) -> (r: Result<(), UpdateTtlError>)
        ensures match r {
            Ok(_) => sv(old(self)).contains_key(*id) && sv(final(self)) == sv(old(self))
                && sv_ttl(final(self)) == sv_ttl(old(self)).insert(*id, ttl),
            Err(UpdateTtlError::UnknownId(_)) => !sv(old(self)).contains_key(*id)
                && sv(final(self)) == sv(old(self)) && sv_ttl(final(self)) == sv_ttl(old(self)),
            Err(_) => true,
        }
    { unimplemented!() }
    #[verifier::external_body]
    pub fn load(&mut self, id: &SessionId) -> (r: Result<Option<SessionRecord>, LoadError>)
        ensures sv(final(self)) == sv(old(self)), sv_ttl(final(self)) == sv_ttl(old(self)),
            match r {
                Ok(Some(rec)) => sv(old(self)).contains_key(*id) && sv(old(self))[*id] == rec.state@,
                Ok(None) => !sv(old(self)).contains_key(*id),
                Err(_) => true,
            }
    { unimplemented!() }
    #[verifier::external_body]
    pub fn delete(&mut self, id: &SessionId) -> (r: Result<(), DeleteError>)
        ensures match r {
            Ok(_) => sv(old(self)).contains_key(*id) && sv(final(self)) == sv(old(self)).remove(*id)
                && sv_ttl(final(self)) == sv_ttl(old(self)).remove(*id),
            Err(DeleteError::UnknownId(_)) => !sv(old(self)).contains_key(*id)
                && sv(final(self)) == sv(old(self)) && sv_ttl(final(self)) == sv_ttl(old(self)),
            Err(_) => true,
        }
    { unimplemented!() }
    #[verifier::external_body]
    pub fn change_id(&mut self, old_id: &SessionId, new_id: &SessionId) -> (r: Result<(), ChangeIdError>)
        ensures match r {
            Ok(_) => sv(old(self)).contains_key(*old_id) && !sv(old(self)).contains_key(*new_id)
                && sv(final(self)) == sv(old(self)).remove(*old_id).insert(*new_id, sv(old(self))[*old_id])
                && sv_ttl(final(self)) == sv_ttl(old(self)).remove(*old_id).insert(*new_id, sv_ttl(old(self))[*old_id]),
            Err(ChangeIdError::UnknownId(_)) => !sv(old(self)).contains_key(*old_id)
                && sv(final(self)) == sv(old(self)) && sv_ttl(final(self)) == sv_ttl(old(self)),
            Err(ChangeIdError::DuplicateId(_)) => sv(old(self)).contains_key(*new_id)
                && sv(final(self)) == sv(old(self)) && sv_ttl(final(self)) == sv_ttl(old(self)),
            Err(_) => true,
        }
    { unimplemented!() }
}

// ---- cookie configuration payloads -----------------------------------------------------------
/// pavex::cookie::SameSite (biscotti) — opaque, Copy.
#[verifier::external_body] pub struct SameSite { _p: u8 }
impl Clone for SameSite { #[verifier::external_body] fn clone(&self) -> (r: Self) ensures r == *self { unimplemented!() } }
impl Copy for SameSite {}

// ---- cookies (pavex::cookie = biscotti): a transparent model of the builder ---------------------
// ASSUMED: each setter changes exactly the attribute it names; `new` sets name and value only.
pub struct ResponseCookie<'a> {
    pub name: String, pub value: String,
    pub domain: Option<String>, pub path: Option<String>, pub same_site: Option<SameSite>,
    pub secure: Option<bool>, pub http_only: Option<bool>, pub max_age: Option<SignedDuration>,
    /// true for a cookie produced from a `RemovalCookie`
    pub removal: bool,
    pub _p: PhantomData<&'a ()>,
}
impl<'a> ResponseCookie<'a> {
    pub fn new(name: String, value: String) -> (r: Self)
        ensures r.name == name, r.value == value, r.domain is None, r.path is None, r.same_site is None,
            r.secure is None, r.http_only is None, r.max_age is None, !r.removal
    { ResponseCookie { name, value, domain: None, path: None, same_site: None, secure: None, http_only: None, max_age: None, removal: false, _p: PhantomData } }
    pub fn set_domain(self, d: String) -> (r: Self) ensures r == (ResponseCookie { domain: Some(d), ..self }) { ResponseCookie { domain: Some(d), ..self } }
    pub fn set_path(self, p: String) -> (r: Self) ensures r == (ResponseCookie { path: Some(p), ..self }) { ResponseCookie { path: Some(p), ..self } }
    pub fn set_same_site(self, s: SameSite) -> (r: Self) ensures r == (ResponseCookie { same_site: Some(s), ..self }) { ResponseCookie { same_site: Some(s), ..self } }
    pub fn set_secure(self, b: bool) -> (r: Self) ensures r == (ResponseCookie { secure: Some(b), ..self }) { ResponseCookie { secure: Some(b), ..self } }
    pub fn set_http_only(self, b: bool) -> (r: Self) ensures r == (ResponseCookie { http_only: Some(b), ..self }) { ResponseCookie { http_only: Some(b), ..self } }
    pub fn set_max_age(self, m: SignedDuration) -> (r: Self) ensures r == (ResponseCookie { max_age: Some(m), ..self }) { ResponseCookie { max_age: Some(m), ..self } }
    /// accessors (API neighbourhood, not called by the unchanged code)
    pub fn secure(&self) -> (r: Option<bool>) ensures r == self.secure { self.secure }
    pub fn http_only(&self) -> (r: Option<bool>) ensures r == self.http_only { self.http_only }
    #[verifier::external_body] pub fn max_age(&self) -> (r: Option<SignedDuration>) ensures r == self.max_age { unimplemented!() }
    #[verifier::external_body] pub fn same_site(&self) -> (r: Option<SameSite>) ensures r == self.same_site { unimplemented!() }
    pub fn value(&self) -> (r: &str) ensures r@ == self.value@ { self.value.as_str() }
}
pub struct RemovalCookie<'a> { pub name: String, pub domain: Option<String>, pub path: Option<String>, pub _p: PhantomData<&'a ()> }
impl<'a> RemovalCookie<'a> {
    pub fn new(name: String) -> (r: Self) ensures r.name == name, r.domain is None, r.path is None { RemovalCookie { name, domain: None, path: None, _p: PhantomData } }
    pub fn set_domain(self, d: String) -> (r: Self) ensures r == (RemovalCookie { domain: Some(d), ..self }) { RemovalCookie { domain: Some(d), ..self } }
    pub fn set_path(self, p: String) -> (r: Self) ensures r == (RemovalCookie { path: Some(p), ..self }) { RemovalCookie { path: Some(p), ..self } }
}
/// `RemovalCookie -> ResponseCookie`: keeps name, domain and path; marks the cookie as a removal (value irrelevant)
pub uninterp spec fn removal_value() -> String;
pub open spec fn removal_of<'a>(c: RemovalCookie<'a>) -> ResponseCookie<'a> {
    ResponseCookie { name: c.name, value: removal_value(), domain: c.domain, path: c.path, same_site: None, secure: None, http_only: None, max_age: None, removal: true, _p: PhantomData }
}
impl<'a> FromSpecImpl<RemovalCookie<'a>> for ResponseCookie<'a> {
    open spec fn obeys_from_spec() -> bool { true }
    open spec fn from_spec(c: RemovalCookie<'a>) -> Self { removal_of(c) }
}
impl<'a> From<RemovalCookie<'a>> for ResponseCookie<'a> {
    #[verifier::external_body]
    fn from(c: RemovalCookie<'a>) -> (r: Self) { unimplemented!() }
}

// ---- pavex::time::SignedDuration (jiff) ----------------------------------------------------------
/// modelled by a number of nanoseconds
pub struct SignedDuration { pub nanos: i128 }
impl SignedDuration {
    pub const MAX: SignedDuration = SignedDuration { nanos: i128::MAX };
    /// API neighbourhood (not called by the unchanged code): exact, over nanoseconds
    pub fn min(self, o: SignedDuration) -> (r: SignedDuration) ensures r == (if self.nanos <= o.nanos { self } else { o }) { if self.nanos <= o.nanos { self } else { o } }
    pub fn max(self, o: SignedDuration) -> (r: SignedDuration) ensures r == (if self.nanos >= o.nanos { self } else { o }) { if self.nanos >= o.nanos { self } else { o } }
    pub fn from_secs(s: i64) -> (r: SignedDuration) ensures r.nanos == s as int * 1_000_000_000 { SignedDuration { nanos: s as i128 * 1_000_000_000 } }
    pub fn from_mins(m: i64) -> (r: SignedDuration) ensures r.nanos == m as int * 60_000_000_000 { SignedDuration { nanos: m as i128 * 60_000_000_000 } }
    pub fn from_hours(h: i64) -> (r: SignedDuration) ensures r.nanos == h as int * 3_600_000_000_000 { SignedDuration { nanos: h as i128 * 3_600_000_000_000 } }
}
pub open spec fn signed_max() -> SignedDuration { SignedDuration { nanos: i128::MAX } }
pub uninterp spec fn dur_to_signed(d: Duration) -> Option<SignedDuration>;
pub struct TryFromDurationError;
impl vstd::std_specs::convert::TryFromSpecImpl<Duration> for SignedDuration {
    open spec fn obeys_try_from_spec() -> bool { true }
    open spec fn try_from_spec(d: Duration) -> Result<Self, TryFromDurationError> {
        match dur_to_signed(d) { Some(s) => Ok(s), None => Err(TryFromDurationError) }
    }
}
impl TryFrom<Duration> for SignedDuration {
    type Error = TryFromDurationError;
    #[verifier::external_body] fn try_from(d: Duration) -> (r: Result<Self, TryFromDurationError>) { unimplemented!() }
}

// ---- serde_json: the wire format of the cookie value ----------------------------------------------
/// `serde_json::to_string(&WireClientState { session_id, user_values })` — an uninterpreted, deterministic
/// function of the id and of the client-side key/values (ASSUMED: serde's derive writes exactly those two).
pub uninterp spec fn wire(id: SessionId, kv: Map<Seq<char>, Value>) -> Seq<char>;
pub mod serde_json {
    use super::*;
    #[verifier::external_body]
    pub fn to_string(v: &WireClientState<'_>) -> (r: Result<String, SerdeJsonError>)
        ensures r matches Ok(s) ==> s@ == wire(v.session_id, cow_val(v.user_values)@)
    { unimplemented!() }
}

// ---- std bits without a vstd spec -------------------------------------------------------------------
pub uninterp spec fn deref_of<T: core::ops::Deref>(t: &T) -> &<T as core::ops::Deref>::Target;
pub assume_specification<T: core::ops::Deref>[Option::<T>::as_deref](o: &Option<T>) -> (r: Option<&<T as core::ops::Deref>::Target>)
    ensures r == (match *o { Some(t) => Some(deref_of(&t)), None => None });
/// `String: Deref<Target = str>` keeps the characters
pub broadcast axiom fn deref_string(s: &String)
    ensures #[trigger] deref_of::<String>(s)@ == s@;
#[verifier::allow(undeclared_external_trait)]
pub assume_specification<T, E>[Result::<T, E>::unwrap_or](res: Result<T, E>, default: T) -> (r: T)
    where E: core::marker::Destruct, T: core::marker::Destruct
    ensures r == (match res { Ok(t) => t, Err(_) => default });


// ---- incoming cookies and the wire format (IncomingSession::extract) -------------------------------
#[verifier::external_body] pub struct RequestCookies<'a> { _p: &'a u8 }
#[verifier::external_body] pub struct RequestCookie<'a> { _p: &'a u8 }
/// the value of the (first) request cookie with that name, if any
pub uninterp spec fn req_cookie(c: &RequestCookies<'_>, name: Seq<char>) -> Option<Seq<char>>;
pub uninterp spec fn req_cookie_value(c: &RequestCookie<'_>) -> Seq<char>;
impl<'a> RequestCookies<'a> {
    #[verifier::external_body]
    pub fn get(&self, name: &String) -> (r: Option<RequestCookie<'a>>)
        ensures match r { Some(c) => req_cookie(self, name@) == Some(req_cookie_value(&c)), None => req_cookie(self, name@) is None }
    { unimplemented!() }
}
impl<'a> RequestCookie<'a> {
    #[verifier::external_body]
    pub fn value(&self) -> (r: &str) ensures r@ == req_cookie_value(self) { unimplemented!() }
}
/// what serde_json::from_str::<WireClientState> makes of a cookie value
pub uninterp spec fn wire_parse(s: Seq<char>) -> Option<(SessionId, Map<Seq<char>, Value>)>;
/// ASSUMED serde round trip for WireClientState: parsing what `to_string` wrote gives the same id and key/values
pub broadcast axiom fn wire_round_trip(id: SessionId, kv: Map<Seq<char>, Value>)
    ensures #[trigger] wire_parse(wire(id, kv)) == Some((id, kv));
/// types `serde_json::from_str` is asked for in this unit
pub trait FromWire: Sized { spec fn matches_wire(&self, p: (SessionId, Map<Seq<char>, Value>)) -> bool; }
impl<'a> FromWire for WireClientState<'a> {
    open spec fn matches_wire(&self, p: (SessionId, Map<Seq<char>, Value>)) -> bool { self.session_id == p.0 && cow_val(self.user_values)@ == p.1 }
}
pub mod serde_json_de {
    use super::*;
    #[verifier::external_body]
    pub fn from_str<T: FromWire>(s: &str) -> (r: Result<T, SerdeJsonError>)
        ensures match r { Ok(t) => wire_parse(s@) matches Some(p) && t.matches_wire(p), Err(_) => wire_parse(s@) is None }
    { unimplemented!() }
}
impl<'a> Cow<'a, HashMap<CowStr, Value>> {
    /// std: clones if borrowed
    #[verifier::external_body]
    pub fn into_owned(self) -> (r: HashMap<CowStr, Value>) ensures r@ == cow_val(self)@ { unimplemented!() }
}

// ---- the response side (finalize_session middleware) -----------------------------------------------
#[verifier::external_body] pub struct Response { _p: u8 }
#[verifier::external_body] pub struct ResponseCookies { _p: u8 }
#[verifier::external_body] pub struct Processor { _p: u8 }
pub uninterp spec fn cookies_view(c: &ResponseCookies) -> Seq<ResponseCookie<'static>>;
/// biscotti::Processor: whether the crypto rules will encrypt / sign a cookie is a pure function of its name.
/// (That the cookie of that name then really IS encrypted / signed is outside this unit; the pipeline witness probes it and
/// found it false for names that percent-encoding changes — biscotti 0.4.3, see known_findings.json.)
pub uninterp spec fn will_encrypt(p: &Processor, name: Seq<char>) -> bool;
pub uninterp spec fn will_sign(p: &Processor, name: Seq<char>) -> bool;
impl<'a> ResponseCookie<'a> {
    pub fn name(&self) -> (r: &str) ensures r@ == self.name@ { self.name.as_str() }
}
impl Processor {
    #[verifier::external_body]
    pub fn will_encrypt(&self, name: &str) -> (r: bool) ensures r == will_encrypt(self, name@) { unimplemented!() }
    #[verifier::external_body]
    pub fn will_sign(&self, name: &str) -> (r: bool) ensures r == will_sign(self, name@) { unimplemented!() }
}
impl ResponseCookies {
    /// the jar is only ever appended to by this unit (replacing a same-id cookie is modelled as push)
    #[verifier::external_body]
    pub fn insert(&mut self, c: ResponseCookie<'static>) -> (r: Option<ResponseCookie<'static>>)
        ensures cookies_view(final(self)) == cookies_view(old(self)).push(c)
    { unimplemented!() }
}

// ---- the typed wrappers: serde conversions around the raw operations ---------------------------------
/// serde::Serialize / DeserializeOwned for the values users store: conversion to/from serde_json::Value as
/// uninterpreted functions (serde_json::to_value / from_value)
pub trait Serialize: Sized { spec fn to_value_spec(&self) -> Option<Value>; }
pub trait DeserializeOwned: Sized { spec fn from_value_spec(v: Value) -> Option<Self>; }
impl Clone for Value { #[verifier::external_body] fn clone(&self) -> (r: Self) ensures r == *self { unimplemented!() } }
pub mod serde_json_values {
    use super::*;
    #[verifier::external_body]
    pub fn to_value<T: Serialize>(t: T) -> (r: Result<Value, SerdeJsonError>)
        ensures match r { Ok(v) => t.to_value_spec() == Some(v), Err(_) => t.to_value_spec() is None }
    { unimplemented!() }
    #[verifier::external_body]
    pub fn from_value<T: DeserializeOwned>(v: Value) -> (r: Result<T, SerdeJsonError>)
        ensures match r { Ok(t) => T::from_value_spec(v) == Some(t), Err(_) => T::from_value_spec(v) is None }
    { unimplemented!() }
}
/// String -> Cow<'static, str>
pub uninterp spec fn cow_of_string(s: String) -> CowStr;
pub broadcast axiom fn cow_of_string_text(s: String) ensures #[trigger] cow_of_string(s)@ == s@;
impl FromSpecImpl<String> for CowStr { open spec fn obeys_from_spec() -> bool { true } open spec fn from_spec(s: String) -> Self { cow_of_string(s) } }
impl From<String> for CowStr { #[verifier::external_body] fn from(s: String) -> (r: Self) { unimplemented!() } }
/// Option<Result<T, E>>::transpose
pub assume_specification<T, E>[Option::<Result<T, E>>::transpose](o: Option<Result<T, E>>) -> (r: Result<Option<T>, E>)
    ensures r == (match o { Some(Ok(t)) => Ok::<Option<T>, E>(Some(t)), Some(Err(e)) => Err::<Option<T>, E>(e), None => Ok::<Option<T>, E>(None) });
/// std: `impl<T> From<T> for T` (hence `Into<T> for T`) is the identity — stated for the key type, which `Session::insert`
/// converts once and then passes, already converted, to `insert_raw`.
pub axiom fn reflexive_into_cowstr(k: CowStr)
    ensures <CowStr as IntoSpec<CowStr>>::obeys_into_spec(), IntoSpec::<CowStr>::into_spec(k) == k;
