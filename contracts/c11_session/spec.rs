// ======================================================================================
// C11 spec functions: the abstract views the contracts are written in.
// ======================================================================================
pub open spec fn spec_old_id(id: CurrentSessionId) -> Option<SessionId> {
    match id {
        CurrentSessionId::Existing(i) => Some(i),
        CurrentSessionId::ToBeRenamed { old, .. } => Some(old),
        CurrentSessionId::NewlyGenerated(_) => None,
    }
}
pub open spec fn spec_new_id(id: CurrentSessionId) -> SessionId {
    match id {
        CurrentSessionId::Existing(i) => i,
        CurrentSessionId::ToBeRenamed { new, .. } => new,
        CurrentSessionId::NewlyGenerated(i) => i,
    }
}
pub type KV = Map<Seq<char>, Value>;
pub open spec fn empty_kv() -> KV { Map::<Seq<char>, Value>::empty() }

/// the lazily loaded cell
pub open spec fn cell(s: &Session<'_>) -> Option<ServerState> { s.server_state.v }
pub open spec fn invalidated(s: &Session<'_>) -> bool { s.invalidated.0.v is Some }
pub open spec fn store_of(s: &Session<'_>) -> Map<SessionId, KV> { sv(s.store) }

/// logical server-side map held by a cell value (None = no record)
pub open spec fn sstate(st: ServerState) -> Option<KV> {
    match st {
        ServerState::Unchanged { state, .. } => Some(state@),
        ServerState::Changed { state } => Some(state@),
        ServerState::DoesNotExist => None,
        ServerState::MarkedForDeletion => None,
    }
}
/// the record the store holds for this session's incoming id
pub open spec fn stored(s: &Session<'_>) -> Option<KV> {
    match spec_old_id(s.id) {
        Some(i) => if store_of(s).contains_key(i) { Some(store_of(s)[i]) } else { None },
        None => None,
    }
}
/// logical server-side view: what `get`/`is_empty` would observe (through the store when not yet loaded)
pub open spec fn lview(s: &Session<'_>) -> Option<KV> {
    match cell(s) { Some(st) => sstate(st), None => stored(s) }
}
pub open spec fn cstate(c: ClientState) -> KV {
    match c { ClientState::Unchanged { state } => state@, ClientState::Updated { state } => state@ }
}
/// client-side view: empty once invalidated
pub open spec fn cview(s: &Session<'_>) -> KV {
    if invalidated(s) { empty_kv() } else { cstate(s.client_state) }
}

/// Representation invariant (field comments of `Session` + the dirty discipline of `ServerState::Unchanged`).
pub open spec fn inv(s: &Session<'_>) -> bool {
    &&& (invalidated(s) ==> cell(s) == Some(ServerState::MarkedForDeletion))
    &&& (s.id is NewlyGenerated ==> cell(s) is Some)
    &&& (s.id matches CurrentSessionId::ToBeRenamed { old, new } ==> old != new)
    // dirty discipline: a state labelled `Unchanged` under an id the store knows equals the stored record
    &&& (cell(s) matches Some(ServerState::Unchanged { state, .. }) ==>
            (spec_old_id(s.id) matches Some(i) ==> store_of(s).contains_key(i) && store_of(s)[i] =~= state@))
    // a brand-new session has nothing stored yet: its state is never labelled `Unchanged`
    // (once `sync` has created its record the id is an existing one)
    &&& (s.id is NewlyGenerated ==> !(cell(s) matches Some(ServerState::Unchanged { .. })))
    // `DoesNotExist` means what it says: the store has no record under the incoming id
    &&& (cell(s) == Some(ServerState::DoesNotExist) ==>
            (spec_old_id(s.id) matches Some(i) ==> !store_of(s).contains_key(i)))
}

/// two-state dirty discipline: a state still labelled `Unchanged` has unchanged contents
pub open spec fn dirty_ok(pre: Option<ServerState>, post: Option<ServerState>) -> bool {
    pre matches Some(ServerState::Unchanged { state: s0, .. }) ==>
        (post matches Some(ServerState::Unchanged { state: s1, .. }) ==> s0@ =~= s1@)
}
pub open spec fn cdirty_ok(pre: ClientState, post: ClientState) -> bool {
    pre matches ClientState::Unchanged { state: s0 } ==>
        (post matches ClientState::Unchanged { state: s1 } ==> s0@ =~= s1@)
}

/// everything of the session except the lazily-loaded cell and the invalidation flag is untouched,
/// and the store is not written
pub open spec fn frame_load(pre: &Session<'_>, post: &Session<'_>) -> bool {
    &&& post.id == pre.id
    &&& post.client_state == pre.client_state
    &&& post.config == pre.config
    &&& sv(post.store) == sv(pre.store)
    &&& sv_ttl(post.store) == sv_ttl(pre.store)
}

/// relation between a session before a (possibly no-op) lazy load and the cell / flag after it
pub open spec fn loaded(pre: &Session<'_>, c: Option<ServerState>, invd: bool) -> bool {
    if cell(pre) is Some || spec_old_id(pre.id) is None {
        c == cell(pre) && invd == invalidated(pre)
    } else {
        let i = spec_old_id(pre.id)->0;
        let m = store_of(pre);
        match c {
            Some(ServerState::Unchanged { state, .. }) => m.contains_key(i) && m[i] == state@ && invd == invalidated(pre),
            Some(ServerState::DoesNotExist) => !m.contains_key(i) && pre.config.state.missing_server_state == MissingServerState::Allow && invd == invalidated(pre),
            Some(ServerState::MarkedForDeletion) => !m.contains_key(i) && pre.config.state.missing_server_state == MissingServerState::Reject && invd,
            _ => false,
        }
    }
}

/// is the session "marked for deletion" once the lazy load has happened?
pub open spec fn marked_after_load(pre: &Session<'_>) -> bool {
    cell(pre) == Some(ServerState::MarkedForDeletion)
    || (cell(pre) is None && spec_old_id(pre.id) is Some && stored(pre) is None
        && pre.config.state.missing_server_state == MissingServerState::Reject)
}
/// frame of a server-side mutator: id, client side, config, store contents
pub open spec fn frame_server_op(pre: &Session<'_>, post: &Session<'_>) -> bool { frame_load(pre, post) }
/// invalidation flag after an operation that may load: set iff it was set or the load found nothing under `Reject`
pub open spec fn invalidated_after_load(pre: &Session<'_>) -> bool {
    invalidated(pre) || (cell(pre) is None && marked_after_load(pre))
}
/// frame of a client-side mutator
pub open spec fn frame_client_op(pre: &Session<'_>, post: &Session<'_>) -> bool {
    &&& post.id == pre.id
    &&& post.server_state == pre.server_state
    &&& post.invalidated == pre.invalidated
    &&& post.config == pre.config
    &&& sv(post.store) == sv(pre.store)
    &&& sv_ttl(post.store) == sv_ttl(pre.store)
}

// ---- sync ------------------------------------------------------------------------------------
pub open spec fn create_if_empty(s: &Session<'_>) -> bool {
    (spec_old_id(s.id) is Some || s.client_state is Updated)
    && s.config.state.server_state_creation == ServerStateCreation::NeverSkip
}
/// RNG assumption, used only as a hypothesis of the totality obligations: an id drawn during this request
/// and not yet written by this session is not a key of the store.
pub open spec fn fresh(s: &Session<'_>) -> bool {
    (s.id is NewlyGenerated || s.id is ToBeRenamed) ==> !store_of(s).contains_key(spec_new_id(s.id))
}
/// errors that come from the session's own id book-keeping, not from a failing store
pub open spec fn logic_error(e: SyncError) -> bool {
    match e {
        SyncError::CreateError(CreateError::DuplicateId(_)) => true,
        SyncError::UpdateError(UpdateError::UnknownIdError(_)) => true,
        SyncError::DeleteError(DeleteError::UnknownId(_)) => true,
        SyncError::UpdateTtlError(UpdateTtlError::UnknownId(_)) => true,
        SyncError::ChangeIdError(ChangeIdError::UnknownId(_)) => true,
        SyncError::ChangeIdError(ChangeIdError::DuplicateId(_)) => true,
        _ => false,
    }
}
/// (a) what the store must hold under the session's (new) id after a successful sync
pub open spec fn synced_new_id(pre: &Session<'_>, m2: Map<SessionId, KV>) -> bool {
    let n = spec_new_id(pre.id);
    match lview(pre) {
        Some(kv) => m2.contains_key(n) && m2[n] =~= kv,
        None => if cell(pre) == Some(ServerState::MarkedForDeletion) { !m2.contains_key(n) }
                else { !m2.contains_key(n) || m2[n] =~= empty_kv() },
    }
}
/// (b) after a rename nothing is left under the old id
pub open spec fn synced_old_id(pre: &Session<'_>, m2: Map<SessionId, KV>) -> bool {
    spec_old_id(pre.id) matches Some(o) ==> (o != spec_new_id(pre.id) ==> !m2.contains_key(o))
}
/// (c) every other record of the store is untouched
pub open spec fn synced_frame(pre: &Session<'_>, m2: Map<SessionId, KV>) -> bool {
    forall |k: SessionId| #![auto] (k != spec_new_id(pre.id) && Some(k) != spec_old_id(pre.id)) ==>
        (m2.contains_key(k) == store_of(pre).contains_key(k)
         && (m2.contains_key(k) ==> m2[k] == store_of(pre)[k]))
}
/// key/values of a logical view (an absent record holds none)
pub open spec fn kvs(v: Option<KV>) -> KV { match v { Some(m) => m, None => empty_kv() } }
/// the clean-up `sync` performs on the cell once the store is up to date
pub open spec fn cell_after_sync(st: ServerState, ns: ServerState, fresh_ttl: Duration, invd: bool, cie: bool) -> bool {
    match st {
        ServerState::Changed { state } => ns == (ServerState::Unchanged { state, ttl: fresh_ttl }),
        ServerState::Unchanged { state, ttl } => ns == st,
        ServerState::MarkedForDeletion => ns == (if invd { ServerState::MarkedForDeletion } else { ServerState::DoesNotExist }),
        ServerState::DoesNotExist =>
            if cie { ns matches ServerState::Unchanged { state, ttl } && state@ =~= empty_kv() && ttl == fresh_ttl }
            else { ns == ServerState::DoesNotExist },
    }
}

/// (d) every TTL `sync` writes is the configured one: a record it touches stays alive for a full TTL.
/// (a renamed record keeps the deadline it had under the old id — `change_id` does not touch it)
pub open spec fn ttl_writes_ok(pre: &Session<'_>, t2: Map<SessionId, Duration>) -> bool {
    let t1 = sv_ttl(pre.store);
    forall |k: SessionId| #![auto] t2.contains_key(k) ==> (
        t2[k] == pre.config.state.ttl
        || t2[k] == t1[k]
        || (k == spec_new_id(pre.id) && (spec_old_id(pre.id) matches Some(o) && t2[k] == t1[o])))
}
/// when a loaded, untouched session must have its TTL extended (TtlExtensionTrigger + threshold)
pub open spec fn extension_due(cfg: &SessionStateConfig, remaining: Duration) -> bool {
    cfg.extend_ttl == TtlExtensionTrigger::OnStateLoadsAndChanges
    && match cfg.ttl_extension_threshold {
        None => true,
        Some(ratio) => dur_cmp(remaining, dur_mul_f32(cfg.ttl, ratio.0)) == Some(core::cmp::Ordering::Less),
    }
}
// ---- finalize ------------------------------------------------------------------------------------
pub open spec fn opt_str_eq(a: Option<String>, b: Option<String>) -> bool {
    match (a, b) { (Some(x), Some(y)) => x@ == y@, (None, None) => true, _ => false }
}
/// the attributes the property lists, as configured (C12)
pub open spec fn cookie_attributes_ok(ck: ResponseCookie<'static>, cfg: &SessionConfig) -> bool {
    &&& ck.name@ == cfg.cookie.name@
    &&& opt_str_eq(ck.domain, cfg.cookie.domain)
    &&& opt_str_eq(ck.path, cfg.cookie.path)
    &&& ck.same_site == cfg.cookie.same_site
    &&& ((ck.secure == Some(true)) == cfg.cookie.secure) && ck.secure != Some(false)
    &&& ((ck.http_only == Some(true)) == cfg.cookie.http_only) && ck.http_only != Some(false)
    &&& ck.max_age == (if cfg.cookie.kind == SessionCookieKind::Persistent {
            Some(match dur_to_signed(cfg.state.ttl) { Some(s) => s, None => signed_max() })
        } else { None::<SignedDuration> })
}
pub open spec fn removal_attributes_ok(ck: ResponseCookie<'static>, cfg: &SessionConfig) -> bool {
    &&& ck.removal
    &&& ck.name@ == cfg.cookie.name@
    &&& opt_str_eq(ck.domain, cfg.cookie.domain)
    &&& opt_str_eq(ck.path, cfg.cookie.path)
}
