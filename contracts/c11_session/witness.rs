// Native witness search / replay for the C11 obligations: drives the PUBLIC API of the real crates
// (pavex_session + pavex_session_memory_store) and asserts the property statement itself.
// Copied into <scratch copy>/runtime/sessions/pavex_session/tests/ by the runner.
use std::collections::HashMap;
use pavex_session::{IncomingSession, Session, SessionConfig, SessionId, SessionStore};
use pavex_session_memory_store::InMemorySessionStore;

fn incoming(cookie: &pavex::cookie::ResponseCookie<'static>) -> IncomingSession {
    let v: serde_json::Value = serde_json::from_str(cookie.value()).unwrap();
    let id: SessionId = serde_json::from_value(v["0"].clone()).unwrap();
    let state: HashMap<std::borrow::Cow<'static, str>, serde_json::Value> = match v.get("1") {
        Some(m) => serde_json::from_value(m.clone()).unwrap(),
        None => HashMap::new(),
    };
    IncomingSession::from_parts(id, state)
}


#[tokio::test]
async fn removed_server_key_stays_removed_on_next_request() {
    let store = SessionStore::new(InMemorySessionStore::new());
    let config = SessionConfig::default();

    // request 1: insert k
    let mut s1 = Session::new(&store, &config, None);
    s1.insert("k", "v").await.unwrap();
    let c1 = s1.finalize().await.unwrap().expect("cookie");

    // request 2: remove k
    let mut s2 = Session::new(&store, &config, Some(incoming(&c1)));
    let removed = s2.remove_raw("k").await.unwrap();
    assert!(removed.is_some(), "k was there");
    assert!(s2.get_raw("k").await.unwrap().is_none(), "request 2 ends without k");
    let c2 = s2.finalize().await.unwrap().expect("cookie");

    // request 3: must observe what request 2 ended with
    let s3 = Session::new(&store, &config, Some(incoming(&c2)));
    let seen = s3.get_raw("k").await.unwrap().cloned();
    assert!(seen.is_none(), "WITNESS: request 3 still sees k = {seen:?} although request 2 removed it");
}
