// Native witness search / replay for the C11 obligations: drives the PUBLIC API of the real crates
// (pavex_session + pavex_session_memory_store) and asserts the property statement itself.
// Copied into <scratch copy>/runtime/sessions/pavex_session/tests/ by the runner.
use std::collections::HashMap;
use pavex_session::{IncomingSession, Session, SessionConfig, SessionId, SessionStore};
use pavex_session_memory_store::InMemorySessionStore;

fn incoming(cookie: &pavex::cookie::ResponseCookie<'static>) -> IncomingSession {
    let v: serde_json::Value = serde_json::from_str(cookie.value()).unwrap();
    let id: SessionId = serde_json::from_value(v["0"].clone()).unwrap();
    let state: HashMap<std::borrow::Cow<'static, str>, serde_json::Value> = match v.get("1") {
        Some(m) => serde_json::from_value(m.clone()).unwrap(),
        None => HashMap::new(),
    };
    IncomingSession::from_parts(id, state)
}


/// number of records in the in-memory backend: a fresh id can be created iff no live record uses it, so we
/// count through `delete_expired` after shrinking every TTL is not possible from outside; instead we rely on
/// `InMemorySessionStore` being `Clone` over a shared map and on `delete_expired` returning what it removed
/// once the records have expired. Records here are written with a 1 ms TTL by the caller's config.
async fn count_records(backend: &InMemorySessionStore) -> usize {
    use pavex_session::store::SessionStorageBackend;
    backend.delete_expired(None).await.unwrap()
}
#[tokio::test]
async fn removed_server_key_stays_removed_on_next_request() {
    let store = SessionStore::new(InMemorySessionStore::new());
    let config = SessionConfig::default();

    // request 1: insert k
    let mut s1 = Session::new(&store, &config, None);
    s1.insert("k", "v").await.unwrap();
    let c1 = s1.finalize().await.unwrap().expect("cookie");

    // request 2: remove k
    let mut s2 = Session::new(&store, &config, Some(incoming(&c1)));
    let removed = s2.remove_raw("k").await.unwrap();
    assert!(removed.is_some(), "k was there");
    assert!(s2.get_raw("k").await.unwrap().is_none(), "request 2 ends without k");
    let c2 = s2.finalize().await.unwrap().expect("cookie");

    // request 3: must observe what request 2 ended with
    let s3 = Session::new(&store, &config, Some(incoming(&c2)));
    let seen = s3.get_raw("k").await.unwrap().cloned();
    assert!(seen.is_none(), "WITNESS: request 3 still sees k = {seen:?} although request 2 removed it");
}

async fn first_cookie(store: &SessionStore, config: &SessionConfig) -> pavex::cookie::ResponseCookie<'static> {
    let mut s1 = Session::new(store, config, None);
    s1.insert("k", "v").await.unwrap();
    s1.finalize().await.unwrap().expect("cookie")
}

#[tokio::test]
async fn cycle_then_explicit_sync_then_finalize() {
    let store = SessionStore::new(InMemorySessionStore::new());
    let config = SessionConfig::default();
    let c1 = first_cookie(&store, &config).await;
    let mut s2 = Session::new(&store, &config, Some(incoming(&c1)));
    s2.cycle_id();
    s2.sync().await.expect("first sync");
    let r = s2.finalize().await;
    println!("finalize after cycle_id+sync (state not loaded): {:?}", r.as_ref().map(|c| c.is_some()).map_err(|e| format!("{e:?}")));
    assert!(r.is_ok(), "WITNESS-A: finalize fails after cycle_id(); sync()");
}

#[tokio::test]
async fn cycle_load_then_explicit_sync_then_finalize() {
    let store = SessionStore::new(InMemorySessionStore::new());
    let config = SessionConfig::default();
    let c1 = first_cookie(&store, &config).await;
    let mut s2 = Session::new(&store, &config, Some(incoming(&c1)));
    let _ = s2.get_raw("k").await.unwrap();
    s2.cycle_id();
    s2.sync().await.expect("first sync");
    let r = s2.finalize().await;
    println!("finalize after load+cycle_id+sync: {:?}", r.as_ref().map(|c| c.is_some()).map_err(|e| format!("{e:?}")));
    assert!(r.is_ok(), "WITNESS-B: finalize fails after get; cycle_id(); sync()");
}

#[tokio::test]
async fn insert_sync_insert_finalize() {
    let store = SessionStore::new(InMemorySessionStore::new());
    let config = SessionConfig::default();
    let mut s1 = Session::new(&store, &config, None);
    s1.insert("a", 1).await.unwrap();
    s1.sync().await.expect("first sync");
    s1.insert("b", 2).await.unwrap();
    let r = s1.finalize().await;
    println!("new session insert+sync+insert+finalize: {:?}", r.as_ref().map(|c| c.is_some()).map_err(|e| format!("{e:?}")));
    assert!(r.is_ok(), "WITNESS-C: finalize fails after insert; sync; insert on a new session");
}

#[tokio::test]
async fn cycle_id_on_client_only_session() {
    use pavex_session::config::{MissingServerState, ServerStateCreation};
    let store = SessionStore::new(InMemorySessionStore::new());
    let mut config = SessionConfig::default();
    config.state.server_state_creation = ServerStateCreation::SkipIfEmpty;
    config.state.missing_server_state = MissingServerState::Allow;
    // request 1: client-side value only => cookie, no server record
    let mut s1 = Session::new(&store, &config, None);
    s1.client_mut().insert("c", 1).unwrap();
    let c1 = s1.finalize().await.unwrap().expect("cookie");
    // request 2: rotate the id (e.g. at login)
    let mut s2 = Session::new(&store, &config, Some(incoming(&c1)));
    s2.cycle_id();
    let r = s2.finalize().await;
    println!("cycle_id on client-only session: {:?}", r.as_ref().map(|c| c.is_some()).map_err(|e| format!("{e:?}")));
    assert!(r.is_ok(), "WITNESS-D: finalize fails after cycle_id() on a session that has no server record");
}

#[tokio::test]
async fn new_session_sync_then_invalidate_leaks_record() {
    let backend = InMemorySessionStore::new();
    let store = SessionStore::new(backend.clone());
    let mut config = SessionConfig::default();
    config.state.ttl = std::time::Duration::from_millis(1);
    let mut s1 = Session::new(&store, &config, None);
    s1.insert("a", 1).await.unwrap();
    s1.sync().await.unwrap();
    s1.invalidate();
    let r = s1.finalize().await;
    assert!(r.is_ok(), "finalize after invalidate must succeed");
    // every record created by this (new) session must be gone: expire everything and count what was still there
    tokio::time::sleep(std::time::Duration::from_millis(5)).await;
    let left = count_records(&backend).await;
    assert_eq!(left, 0, "WITNESS-LEAK: the record created by the explicit sync survives invalidate()");
}

#[tokio::test]
async fn new_session_insert_sync_finalize() {
    let store = SessionStore::new(InMemorySessionStore::new());
    let config = SessionConfig::default();
    let mut s1 = Session::new(&store, &config, None);
    s1.insert("a", 1).await.unwrap();
    s1.sync().await.expect("first sync");
    let r = s1.finalize().await;
    println!("new session insert+sync+finalize: {:?}", r.as_ref().map(|c| c.is_some()).map_err(|e| format!("{e:?}")));
    assert!(r.is_ok(), "WITNESS-E");
}

#[tokio::test]
async fn server_insert_on_client_only_session() {
    use pavex_session::config::{MissingServerState, ServerStateCreation};
    let store = SessionStore::new(InMemorySessionStore::new());
    let mut config = SessionConfig::default();
    config.state.server_state_creation = ServerStateCreation::SkipIfEmpty;
    config.state.missing_server_state = MissingServerState::Allow;
    let mut s1 = Session::new(&store, &config, None);
    s1.client_mut().insert("c", 1).unwrap();
    let c1 = s1.finalize().await.unwrap().expect("cookie");
    let mut s2 = Session::new(&store, &config, Some(incoming(&c1)));
    s2.insert("k", "v").await.unwrap();
    let r = s2.finalize().await;
    println!("server insert on client-only session: {:?}", r.as_ref().map(|c| c.is_some()).map_err(|e| format!("{e:?}")));
    assert!(r.is_ok(), "WITNESS-G: finalize fails after a server-side insert on an existing session that has no server record");
}

#[tokio::test]
async fn new_session_client_insert_sync_finalize() {
    let store = SessionStore::new(InMemorySessionStore::new());
    let config = SessionConfig::default();
    let mut s1 = Session::new(&store, &config, None);
    s1.client_mut().insert("c", 1).unwrap();
    s1.sync().await.expect("first sync");
    let r = s1.finalize().await;
    println!("new session client insert+sync+finalize: {:?}", r.as_ref().map(|c| c.is_some()).map_err(|e| format!("{e:?}")));
    assert!(r.is_ok(), "WITNESS-F");
}
