// Native witness search / replay for the C11 obligations: drives the PUBLIC API of the real crates
// (pavex_session + pavex_session_memory_store) and asserts the property statement itself.
// Copied into <scratch copy>/runtime/sessions/pavex_session/tests/ by the runner.
use std::collections::HashMap;
use pavex_session::{IncomingSession, Session, SessionConfig, SessionId, SessionStore};
use pavex_session_memory_store::InMemorySessionStore;

fn incoming(cookie: &pavex::cookie::ResponseCookie<'static>) -> IncomingSession {
    let v: serde_json::Value = serde_json::from_str(cookie.value()).unwrap();
    let id: SessionId = serde_json::from_value(v["0"].clone()).unwrap();
    let state: HashMap<std::borrow::Cow<'static, str>, serde_json::Value> = match v.get("1") {
        Some(m) => serde_json::from_value(m.clone()).unwrap(),
        None => HashMap::new(),
    };
    IncomingSession::from_parts(id, state)
}


/// number of records in the in-memory backend: a fresh id can be created iff no live record uses it, so we
/// count through `delete_expired` after shrinking every TTL is not possible from outside; instead we rely on
/// `InMemorySessionStore` being `Clone` over a shared map and on `delete_expired` returning what it removed
/// once the records have expired. Records here are written with a 1 ms TTL by the caller's config.
async fn count_records(backend: &InMemorySessionStore) -> usize {
    use pavex_session::store::SessionStorageBackend;
    backend.delete_expired(None).await.unwrap()
}
fn incoming_id(cookie: &pavex::cookie::ResponseCookie<'static>) -> String {
    let v: serde_json::Value = serde_json::from_str(cookie.value()).unwrap();
    v["0"].as_str().unwrap().to_string()
}

#[tokio::test]
async fn removed_server_key_stays_removed_on_next_request() {
    let store = SessionStore::new(InMemorySessionStore::new());
    let config = SessionConfig::default();

    // request 1: insert k
    let mut s1 = Session::new(&store, &config, None);
    s1.insert("k", "v").await.unwrap();
    let c1 = s1.finalize().await.unwrap().expect("cookie");

    // request 2: remove k
    let mut s2 = Session::new(&store, &config, Some(incoming(&c1)));
    let removed = s2.remove_raw("k").await.unwrap();
    assert!(removed.is_some(), "k was there");
    assert!(s2.get_raw("k").await.unwrap().is_none(), "request 2 ends without k");
    let c2 = s2.finalize().await.unwrap().expect("cookie");

    // request 3: must observe what request 2 ended with
    let s3 = Session::new(&store, &config, Some(incoming(&c2)));
    let seen = s3.get_raw("k").await.unwrap().cloned();
    assert!(seen.is_none(), "WITNESS: request 3 still sees k = {seen:?} although request 2 removed it");
}

async fn first_cookie(store: &SessionStore, config: &SessionConfig) -> pavex::cookie::ResponseCookie<'static> {
    let mut s1 = Session::new(store, config, None);
    s1.insert("k", "v").await.unwrap();
    s1.finalize().await.unwrap().expect("cookie")
}

#[tokio::test]
async fn cycle_then_explicit_sync_then_finalize() {
    let store = SessionStore::new(InMemorySessionStore::new());
    let config = SessionConfig::default();
    let c1 = first_cookie(&store, &config).await;
    let mut s2 = Session::new(&store, &config, Some(incoming(&c1)));
    s2.cycle_id();
    s2.sync().await.expect("first sync");
    let r = s2.finalize().await;
    println!("finalize after cycle_id+sync (state not loaded): {:?}", r.as_ref().map(|c| c.is_some()).map_err(|e| format!("{e:?}")));
    assert!(r.is_ok(), "WITNESS-A: finalize fails after cycle_id(); sync()");
}

#[tokio::test]
async fn cycle_load_then_explicit_sync_then_finalize() {
    let store = SessionStore::new(InMemorySessionStore::new());
    let config = SessionConfig::default();
    let c1 = first_cookie(&store, &config).await;
    let mut s2 = Session::new(&store, &config, Some(incoming(&c1)));
    let _ = s2.get_raw("k").await.unwrap();
    s2.cycle_id();
    s2.sync().await.expect("first sync");
    let r = s2.finalize().await;
    println!("finalize after load+cycle_id+sync: {:?}", r.as_ref().map(|c| c.is_some()).map_err(|e| format!("{e:?}")));
    assert!(r.is_ok(), "WITNESS-B: finalize fails after get; cycle_id(); sync()");
}

#[tokio::test]
async fn insert_sync_insert_finalize() {
    let store = SessionStore::new(InMemorySessionStore::new());
    let config = SessionConfig::default();
    let mut s1 = Session::new(&store, &config, None);
    s1.insert("a", 1).await.unwrap();
    s1.sync().await.expect("first sync");
    s1.insert("b", 2).await.unwrap();
    let r = s1.finalize().await;
    println!("new session insert+sync+insert+finalize: {:?}", r.as_ref().map(|c| c.is_some()).map_err(|e| format!("{e:?}")));
    assert!(r.is_ok(), "WITNESS-C: finalize fails after insert; sync; insert on a new session");
}

#[tokio::test]
async fn cycle_id_on_client_only_session() {
    use pavex_session::config::{MissingServerState, ServerStateCreation};
    let store = SessionStore::new(InMemorySessionStore::new());
    let mut config = SessionConfig::default();
    config.state.server_state_creation = ServerStateCreation::SkipIfEmpty;
    config.state.missing_server_state = MissingServerState::Allow;
    // request 1: client-side value only => cookie, no server record
    let mut s1 = Session::new(&store, &config, None);
    s1.client_mut().insert("c", 1).unwrap();
    let c1 = s1.finalize().await.unwrap().expect("cookie");
    // request 2: rotate the id (e.g. at login)
    let mut s2 = Session::new(&store, &config, Some(incoming(&c1)));
    s2.cycle_id();
    let r = s2.finalize().await;
    println!("cycle_id on client-only session: {:?}", r.as_ref().map(|c| c.is_some()).map_err(|e| format!("{e:?}")));
    assert!(r.is_ok(), "WITNESS-D: finalize fails after cycle_id() on a session that has no server record");
}

#[tokio::test]
async fn new_session_sync_then_invalidate_leaks_record() {
    let backend = InMemorySessionStore::new();
    let store = SessionStore::new(backend.clone());
    let mut config = SessionConfig::default();
    config.state.ttl = std::time::Duration::from_millis(1);
    let mut s1 = Session::new(&store, &config, None);
    s1.insert("a", 1).await.unwrap();
    s1.sync().await.unwrap();
    s1.invalidate();
    let r = s1.finalize().await;
    assert!(r.is_ok(), "finalize after invalidate must succeed");
    // every record created by this (new) session must be gone: expire everything and count what was still there
    tokio::time::sleep(std::time::Duration::from_millis(5)).await;
    let left = count_records(&backend).await;
    assert_eq!(left, 0, "WITNESS-LEAK: the record created by the explicit sync survives invalidate()");
}

#[tokio::test]
async fn new_session_insert_sync_finalize() {
    let store = SessionStore::new(InMemorySessionStore::new());
    let config = SessionConfig::default();
    let mut s1 = Session::new(&store, &config, None);
    s1.insert("a", 1).await.unwrap();
    s1.sync().await.expect("first sync");
    let r = s1.finalize().await;
    println!("new session insert+sync+finalize: {:?}", r.as_ref().map(|c| c.is_some()).map_err(|e| format!("{e:?}")));
    assert!(r.is_ok(), "WITNESS-E");
}

#[tokio::test]
async fn server_insert_on_client_only_session() {
    use pavex_session::config::{MissingServerState, ServerStateCreation};
    let store = SessionStore::new(InMemorySessionStore::new());
    let mut config = SessionConfig::default();
    config.state.server_state_creation = ServerStateCreation::SkipIfEmpty;
    config.state.missing_server_state = MissingServerState::Allow;
    let mut s1 = Session::new(&store, &config, None);
    s1.client_mut().insert("c", 1).unwrap();
    let c1 = s1.finalize().await.unwrap().expect("cookie");
    let mut s2 = Session::new(&store, &config, Some(incoming(&c1)));
    s2.insert("k", "v").await.unwrap();
    let r = s2.finalize().await;
    println!("server insert on client-only session: {:?}", r.as_ref().map(|c| c.is_some()).map_err(|e| format!("{e:?}")));
    assert!(r.is_ok(), "WITNESS-G: finalize fails after a server-side insert on an existing session that has no server record");
}

#[tokio::test]
async fn new_session_client_insert_sync_finalize() {
    let store = SessionStore::new(InMemorySessionStore::new());
    let config = SessionConfig::default();
    let mut s1 = Session::new(&store, &config, None);
    s1.client_mut().insert("c", 1).unwrap();
    s1.sync().await.expect("first sync");
    let r = s1.finalize().await;
    println!("new session client insert+sync+finalize: {:?}", r.as_ref().map(|c| c.is_some()).map_err(|e| format!("{e:?}")));
    assert!(r.is_ok(), "WITNESS-F");
}

// =====================================================================================================
// Bounded witness SEARCH (labelled bounded; never counted as proved): every history of up to 3 operations in
// request 1 × a probe request 2, under the four policy combinations, against a small reference model of the
// property statement. Finds failing inputs for the obligations above and backs the verifier when it is undecided.
// =====================================================================================================
mod search {
    use super::*;
    use pavex_session::config::{MissingServerState, ServerStateCreation};
    use std::collections::BTreeMap;

    #[derive(Clone, Copy, Debug, PartialEq)]
    pub enum Op { Get, InsA, InsB, OverA, RemA, Clear, Delete, Cycle, Sync, Invalidate, CIns, CRem, CClear }
    pub const OPS: [Op; 13] = [Op::Get, Op::InsA, Op::InsB, Op::OverA, Op::RemA, Op::Clear, Op::Delete, Op::Cycle, Op::Sync, Op::Invalidate, Op::CIns, Op::CRem, Op::CClear];

    /// what the property lets the next request observe
    #[derive(Clone, Debug, PartialEq, Default)]
    pub struct Obs { pub server: BTreeMap<String, i64>, pub client: BTreeMap<String, i64> }

    /// reference model of ONE request (statement-level semantics; `record` = server record at request start)
    pub struct Model {
        pub record: Option<BTreeMap<String, i64>>, // logical server record (None = no record)
        pub client: BTreeMap<String, i64>,
        pub marked: bool,       // delete() pending
        pub invalidated: bool,
        pub loaded: bool,
        pub reject: bool,
        pub existing: bool,
        pub client_updated: bool,
    }
    impl Model {
        fn load(&mut self) {
            if self.loaded { return; }
            self.loaded = true;
            if self.existing && self.record.is_none() && !self.marked && self.reject { self.invalidated = true; self.marked = true; }
        }
        pub fn apply(&mut self, op: Op) {
            match op {
                Op::Get => self.load(),
                Op::InsA | Op::InsB | Op::OverA => { self.load(); if !self.marked { let m = self.record.get_or_insert_with(Default::default);
                    match op { Op::InsA => { m.insert("a".into(), 1); } Op::InsB => { m.insert("b".into(), 2); } _ => { m.insert("a".into(), 9); } } } }
                Op::RemA => { self.load(); if !self.marked { if let Some(m) = &mut self.record { m.remove("a"); } } }
                Op::Clear => { self.load(); if !self.marked { if let Some(m) = &mut self.record { m.clear(); } } }
                Op::Delete => { self.marked = true; self.record = None; self.loaded = true; }
                Op::Invalidate => { self.marked = true; self.invalidated = true; self.record = None; self.loaded = true; }
                Op::Cycle => {}
                Op::Sync => { if self.marked && !self.invalidated { self.marked = false; } }
                Op::CIns => { if !self.invalidated { self.client.insert("c".into(), 7); self.client_updated = true; } }
                Op::CRem => { if !self.invalidated && self.client.remove("c").is_some() { self.client_updated = true; } }
                Op::CClear => { if !self.invalidated && !self.client.is_empty() { self.client.clear(); self.client_updated = true; } }
            }
        }
        pub fn end(&self) -> Obs {
            if self.invalidated { return Obs::default(); }
            Obs { server: self.record.clone().unwrap_or_default(), client: self.client.clone() }
        }
    }

    async fn apply_real(s: &mut Session<'_>, op: Op) -> Result<(), String> {
        match op {
            Op::Get => { let _ = s.get_raw("a").await.unwrap(); }
            Op::InsA => { s.insert("a", 1).await.unwrap(); }
            Op::InsB => { s.insert("b", 2).await.unwrap(); }
            Op::OverA => { s.insert("a", 9).await.unwrap(); }
            Op::RemA => {
                // alternate between the typed and the raw removal: both must return what was there and remove it
                let before = s.get_raw("a").await.unwrap().and_then(|v| v.as_i64());
                let marked_noop = before.is_none();
                let got = if before.map(|v| v % 2 == 1).unwrap_or(false) { s.remove::<i64>("a").await.unwrap() } else { s.remove_raw("a").await.unwrap().and_then(|v| v.as_i64()) };
                if !marked_noop && got != before { return Err(format!("remove returned {got:?}, the value was {before:?}")); }
            }
            Op::Clear => { s.clear().await.unwrap(); }
            Op::Delete => s.delete(),
            Op::Cycle => s.cycle_id(),
            Op::Sync => return s.sync().await.map_err(|e| format!("{e:?}")),
            Op::Invalidate => s.invalidate(),
            Op::CIns => { s.client_mut().insert("c", 7).unwrap(); }
            Op::CRem => { let before = s.client().get_raw("c").and_then(|v| v.as_i64()); let got: Option<i64> = s.client_mut().remove("c").unwrap();
                          if !s.is_invalidated() && got != before { return Err(format!("client remove returned {got:?}, the value was {before:?}")); } }
            Op::CClear => { s.client_mut().clear(); }
        }
        Ok(())
    }
    async fn observe(s: &Session<'_>) -> Obs {
        let mut o = Obs::default();
        for k in ["a", "b"] {
            let raw = s.get_raw(k).await.unwrap().map(|v| v.as_i64().unwrap());
            let typed: Option<i64> = s.get(k).await.unwrap();
            assert_eq!(raw, typed, "get and get_raw disagree on {k}");
            if let Some(v) = raw { o.server.insert(k.into(), v); }
        }
        assert_eq!(s.is_empty().await.unwrap(), o.server.is_empty(), "is_empty disagrees with the keys that can be read");
        let raw = s.client().get_raw("c").map(|v| v.as_i64().unwrap());
        let typed: Option<i64> = s.client().get("c").unwrap();
        assert_eq!(raw, typed, "client get and get_raw disagree");
        assert_eq!(s.client().is_empty(), raw.is_none(), "client is_empty disagrees");
        if let Some(v) = raw { o.client.insert("c".into(), v); }
        o
    }

    /// run `setup` as request 0 (to create the starting point), `ops` as request 1, then probe as request 2
    pub async fn run(setup: &[Op], ops: &[Op], creation: ServerStateCreation, missing: MissingServerState) -> Result<(), String> {
        let store = SessionStore::new(InMemorySessionStore::new());
        let mut config = SessionConfig::default();
        config.state.server_state_creation = creation.clone();
        config.state.missing_server_state = missing.clone();
        let reject = missing == MissingServerState::Reject;
        let tag = format!("setup={setup:?} ops={ops:?} creation={creation:?} missing={missing:?}");

        // request 0
        let mut cookie = None;
        let mut m0 = Model { record: None, client: Default::default(), marked: false, invalidated: false, loaded: true, reject, existing: false, client_updated: false };
        if !setup.is_empty() {
            let mut s0 = Session::new(&store, &config, None);
            for op in setup { apply_real(&mut s0, *op).await.map_err(|e| format!("{tag}: request 0: {e}"))?; m0.apply(*op); }
            cookie = s0.finalize().await.map_err(|e| format!("{tag}: request 0 failed: {e:?}"))?;
        }
        let e0 = m0.end();
        let had_cookie = cookie.is_some();
        // a record exists after request 0 iff it has state or the policy creates an empty one for a session with a cookie
        let rec0 = if !had_cookie { None } else if m0.record.is_some() { Some(e0.server.clone()) }
                   else if creation == ServerStateCreation::NeverSkip && m0.client_updated && !m0.marked { Some(Default::default()) } else { None };

        // request 1
        let inc = cookie.as_ref().map(incoming);
        let old_cookie = cookie.clone();
        let mut s1 = Session::new(&store, &config, inc);
        let mut m1 = Model { record: rec0, client: e0.client.clone(), marked: false, invalidated: false, loaded: !had_cookie, reject, existing: had_cookie, client_updated: false };
        // under `Reject`, a pre-existing session without a server record is to be rejected: operations may fail on it
        let doomed = reject && had_cookie && m1.record.is_none();
        for op in ops {
            if let Err(e) = apply_real(&mut s1, *op).await {
                return if doomed { Ok(()) } else { Err(format!("{tag}: {op:?} failed on a healthy store: {e}")) };
            }
            m1.apply(*op);
        }
        let seen_end = observe(&s1).await; m1.load();
        let want_end = m1.end();
        if seen_end != want_end { return Err(format!("{tag}: request 1 itself observes {seen_end:?}, the statement says {want_end:?}")); }
        let c1 = match s1.finalize().await {
            Ok(c) => c,
            Err(e) => return if doomed { Ok(()) } else { Err(format!("{tag}: finalize failed on a healthy store: {e:?}")) },
        };

        if m1.invalidated {
            // removal cookie iff it had a session; the old cookie yields nothing any more
            if had_cookie && c1.is_none() { return Err(format!("{tag}: invalidated a session the client holds a cookie for, but no removal cookie was returned")); }
            if let Some(old) = old_cookie {
                let s = Session::new(&store, &config, Some(incoming(&old)));
                if s.get_raw("a").await.unwrap().is_some() || s.get_raw("b").await.unwrap().is_some() {
                    return Err(format!("{tag}: the old cookie still yields server state after invalidate()"));
                }
            }
            return Ok(());
        }
        let Some(c1) = c1 else {
            if want_end != Obs::default() { return Err(format!("{tag}: no cookie although the request ended with {want_end:?}")); }
            // no Set-Cookie: the browser keeps presenting the cookie it already has — the next request must still observe
            // what this one ended with (nothing), not what the stale cookie carries
            if let Some(old) = old_cookie {
                let s = Session::new(&store, &config, Some(incoming(&old)));
                let seen = observe(&s).await;
                if seen != want_end { return Err(format!("{tag}: the response carried no session cookie, so the browser keeps the previous one, and the next request observes {seen:?} although this one ended with {want_end:?}")); }
            }
            return Ok(());
        };
        if c1.value().is_empty() { return Err(format!("{tag}: a removal cookie was returned although the session was not invalidated (the statement says it ends with {want_end:?})")); }
        // request 2: must observe exactly what request 1 ended with — unless the policy rejects a record-less session
        let s2 = Session::new(&store, &config, Some(incoming(&c1)));
        let seen = observe(&s2).await;
        let record_exists_after = m1.record.is_some()
            || (creation == ServerStateCreation::NeverSkip && !m1.marked && (had_cookie || m1.client_updated));
        let want = if reject && !record_exists_after { Obs::default() } else { want_end.clone() };
        if seen != want { return Err(format!("{tag}: the next request observes {seen:?}, the previous one ended with {want:?}")); }
        // after cycle_id the state is reachable only under the new id
        if ops.contains(&Op::Cycle) {
            if let Some(old) = old_cookie {
                let s = Session::new(&store, &config, Some(incoming(&old)));
                if !want.server.is_empty() && (s.get_raw("a").await.unwrap().is_some() || s.get_raw("b").await.unwrap().is_some()) {
                    return Err(format!("{tag}: after cycle_id the old id still yields server state"));
                }
            }
        }
        Ok(())
    }
}

#[tokio::test]
async fn bounded_search_over_histories() {
    use pavex_session::config::{MissingServerState, ServerStateCreation};
    use search::{Op, OPS};
    let setups: [&[Op]; 4] = [&[], &[Op::InsA], &[Op::InsA, Op::CIns], &[Op::CIns]];
    let mut failures = Vec::new();
    let mut n = 0usize;
    let thorough = std::env::var("VERIF_TIER").map(|t| t == "thorough").unwrap_or(false);
    for creation in [ServerStateCreation::NeverSkip, ServerStateCreation::SkipIfEmpty] {
        for missing in [MissingServerState::Reject, MissingServerState::Allow] {
            for setup in setups {
                let mut histories: Vec<Vec<Op>> = vec![vec![]];
                for a in OPS { histories.push(vec![a]); for b in OPS { histories.push(vec![a, b]); } }
                // length 3 only around the operations that interact (sync / cycle / delete / invalidate)
                let pivots = [Op::Sync, Op::Cycle, Op::Delete, Op::Invalidate];
                if !thorough {
                    for a in OPS { for b in pivots { for c in OPS { histories.push(vec![a, b, c]); } } }
                } else {
                    // thorough tier: every history up to length 4
                    for a in OPS { for b in OPS { for c in OPS { histories.push(vec![a, b, c]); } } }
                    for a in OPS { for b in OPS { for c in OPS { for d in OPS { histories.push(vec![a, b, c, d]); } } } }
                }
                for h in histories {
                    n += 1;
                    if let Err(e) = search::run(setup, &h, creation.clone(), missing.clone()).await { failures.push(e); }
                }
            }
        }
    }
    println!("VERIF-BOUNDED test=bounded_search_over_histories evaluations={n} bound=2 creation policies x 2 missing-state policies x 4 first requests x every second-request history of 13 operations up to length {} ({} failing)", if thorough { "4 (all of them)" } else { "2, and length 3 around sync/cycle_id/delete/invalidate" }, failures.len());
    assert!(failures.is_empty(), "{} failing histories, first 5:\n{}", failures.len(), failures.iter().take(5).cloned().collect::<Vec<_>>().join("\n"));
}

// =====================================================================================================
// End to end through the REAL cookie pipeline (biscotti processor, Set-Cookie / Cookie headers, IncomingSession::extract,
// finalize_session): probes the assumed contracts — the serde wire round trip, `Processor::will_*` really protecting the
// value, `extract` being the inverse of what `finalize` wrote — and the C12 protection matrix.
// =====================================================================================================
/// sync.every_ttl_written_is_the_configured_ttl / sync.ttl_extended_exactly_when_due: observed through the remaining
/// TTL the store reports (no clock dependence: "almost expired" is a record written with a tenth of the TTL).
#[tokio::test]
async fn ttl_is_extended_to_the_full_ttl_exactly_when_due() {
    use pavex_session::config::{TtlExtensionThreshold, TtlExtensionTrigger};
    use pavex_session::store::SessionRecordRef;
    let full = std::time::Duration::from_secs(1000);
    for (trigger, threshold, written, touch, expect_full) in [
        // (trigger, threshold, TTL the record has left, what the request does, is the deadline pushed to a full TTL?)
        (TtlExtensionTrigger::OnStateLoadsAndChanges, Some(0.8), full / 10, "read", true),
        (TtlExtensionTrigger::OnStateLoadsAndChanges, None, full / 10, "read", true),
        (TtlExtensionTrigger::OnStateLoadsAndChanges, None, full / 2, "read", true),
        (TtlExtensionTrigger::OnStateLoadsAndChanges, Some(0.3), full / 2, "read", false),
        (TtlExtensionTrigger::OnStateChanges, None, full / 10, "read", false),
        (TtlExtensionTrigger::OnStateChanges, None, full / 10, "write", true),
        (TtlExtensionTrigger::OnStateLoadsAndChanges, Some(0.3), full / 2, "write", true),
        (TtlExtensionTrigger::OnStateLoadsAndChanges, Some(0.8), full / 10, "cycle", false), // a renamed record keeps its deadline
    ] {
        let store = SessionStore::new(InMemorySessionStore::new());
        let mut config = SessionConfig::default();
        config.state.ttl = full;
        config.state.extend_ttl = trigger.clone();
        config.state.ttl_extension_threshold = threshold.map(|t| TtlExtensionThreshold::new(t).unwrap());
        let id = SessionId::random();
        let mut state = HashMap::new();
        state.insert("user_id".into(), serde_json::json!(42));
        store.create(&id, SessionRecordRef { state: std::borrow::Cow::Owned(state), ttl: written }).await.unwrap();
        let mut s = Session::new(&store, &config, Some(IncomingSession::from_parts(id, Default::default())));
        assert_eq!(s.get::<u64>("user_id").await.unwrap(), Some(42));
        if touch == "write" { s.insert("other", 1).await.unwrap(); }
        if touch == "cycle" { s.cycle_id(); }
        let cookie = s.finalize().await.unwrap().unwrap();
        let new_id: SessionId = serde_json::from_value(serde_json::from_str::<serde_json::Value>(cookie.value()).unwrap()["0"].clone()).unwrap();
        let left = store.load(&new_id).await.unwrap().expect("the record is there").ttl;
        // the record vanishes while the request is running (expiry, an operator): the response must not carry a cookie that
        // silently points at nothing — either finalize fails, or the next request still observes the state
        if touch == "read" && expect_full {
            let store2 = SessionStore::new(InMemorySessionStore::new());
            let id2 = SessionId::random();
            let mut st2 = HashMap::new(); st2.insert("user_id".into(), serde_json::json!(42));
            store2.create(&id2, SessionRecordRef { state: std::borrow::Cow::Owned(st2), ttl: written }).await.unwrap();
            let mut s2 = Session::new(&store2, &config, Some(IncomingSession::from_parts(id2, Default::default())));
            assert_eq!(s2.get::<u64>("user_id").await.unwrap(), Some(42));
            store2.delete(&id2).await.unwrap();
            if let Ok(Some(c2)) = s2.finalize().await {
                if !c2.value().is_empty() {
                    let s3 = Session::new(&store2, &config, Some(incoming(&c2)));
                    assert_eq!(s3.get::<u64>("user_id").await.unwrap(), Some(42), "trigger={trigger:?} threshold={threshold:?}: the record vanished during the request, finalize reported success, and the next request observes nothing");
                }
            }
        }
        let case = format!("trigger={trigger:?} threshold={threshold:?} remaining={written:?} request={touch}");
        if expect_full {
            assert!(left > full - std::time::Duration::from_secs(60) && left <= full, "{case}: the record must live for a full TTL ({full:?}) from now, the store reports {left:?}");
        } else {
            assert!(left <= written, "{case}: the deadline must not move, the store reports {left:?}");
        }
    }
}

mod pipeline {
    use super::*;
    use pavex::Response;
    use pavex::cookie::config::{CryptoAlgorithm, CryptoRule};
    use pavex::cookie::{Key, Processor, ProcessorConfig, RequestCookies, ResponseCookies};
    use pavex_session::{errors::FinalizeError, finalize_session};

    pub fn processor(cookie_name: &str, algorithm: Option<CryptoAlgorithm>) -> Processor {
        let mut config = ProcessorConfig::default();
        if let Some(algorithm) = algorithm {
            config.crypto_rules.push(CryptoRule { cookie_names: vec![cookie_name.to_owned()], algorithm, key: Key::generate(), fallbacks: vec![] });
        }
        config.into()
    }
    /// what a browser would send back: `name=value` of the Set-Cookie header
    pub fn cookie_header(set_cookie: &str) -> String { set_cookie.split(';').next().unwrap().trim().to_string() }

    #[tokio::test]
    async fn state_survives_the_real_cookie_pipeline_and_is_protected_on_the_wire() {
        for algorithm in [CryptoAlgorithm::Encryption, CryptoAlgorithm::Signing] {
            let store = SessionStore::new(InMemorySessionStore::new());
            let config = SessionConfig::default();
            let p = processor(&config.cookie.name, Some(algorithm));
            // request 1: server state always; client state only when the cookie will be encrypted
            let mut s1 = Session::new(&store, &config, None);
            s1.insert("srv", "server-secret-value").await.unwrap();
            let with_client = matches!(algorithm, CryptoAlgorithm::Encryption);
            if with_client { s1.client_mut().insert("cli", "client-secret-value").unwrap(); }
            let mut jar = ResponseCookies::new();
            finalize_session(Response::ok(), &mut jar, &p, s1).await.expect("protected cookie must be accepted");
            let headers: Vec<String> = jar.header_values(&p).collect();
            assert_eq!(headers.len(), 1, "exactly one session cookie");
            assert!(!headers[0].contains("server-secret-value"), "server-side state must never travel in the cookie");
            if with_client { assert!(!headers[0].contains("client-secret-value"), "will_encrypt promised encryption but the client state is readable: {}", headers[0]); }
            // request 2: the browser presents it; the real extractor must recover id + client state
            let h = cookie_header(&headers[0]);
            let cookies = RequestCookies::parse_header(&h, &p).expect("our own cookie must parse");
            let inc = IncomingSession::extract(&cookies, &config.cookie).expect("extract must invert what finalize wrote");
            let s2 = Session::new(&store, &config, Some(inc));
            assert_eq!(s2.get_raw("srv").await.unwrap().and_then(|v| v.as_str().map(str::to_owned)).as_deref(), Some("server-secret-value"));
            assert_eq!(s2.client().get_raw("cli").and_then(|v| v.as_str()).is_some(), with_client);
            // a tampered cookie is not accepted as a session
            let tampered = format!("{}x", h);
            let accepted = RequestCookies::parse_header(&tampered, &p).ok().and_then(|c| IncomingSession::extract(&c, &config.cookie));
            assert!(accepted.is_none(), "a tampered {algorithm:?} cookie was accepted");
        }
    }

    /// extract.inverse_of_the_wire_format on the real pipeline: every JSON shape a client-side value can take
    /// (null included) and awkward keys come back exactly, through finalize -> Set-Cookie -> Cookie -> extract.
    #[tokio::test]
    async fn every_json_shape_survives_the_real_cookie_pipeline() {
        use serde_json::json;
        let values = [json!(null), json!(true), json!(0), json!(-1.5), json!(""), json!("a \"quoted\" ; , = value"), json!([]), json!([null, 1, "x"]),
            json!({}), json!({"nested": {"null": null, "list": [1, 2]}}), json!("ünïcödé ✓")];
        let keys = ["k", "", "a key with spaces", "ключ", "0", "1", "null"];
        let store = SessionStore::new(InMemorySessionStore::new());
        let config = SessionConfig::default();
        let p = processor(&config.cookie.name, Some(CryptoAlgorithm::Encryption));
        for (n, v) in values.iter().enumerate() {
            let mut s1 = Session::new(&store, &config, None);
            let mut expected: HashMap<String, serde_json::Value> = HashMap::new();
            for (m, k) in keys.iter().enumerate() {
                let val = if m % 2 == 0 { v.clone() } else { values[(n + m) % values.len()].clone() };
                s1.client_mut().insert_raw(k.to_string(), val.clone());
                expected.insert(k.to_string(), val);
            }
            let mut jar = ResponseCookies::new();
            finalize_session(Response::ok(), &mut jar, &p, s1).await.unwrap();
            let headers: Vec<String> = jar.header_values(&p).collect();
            let h = cookie_header(&headers[0]);
            let cookies = RequestCookies::parse_header(&h, &p).expect("our own cookie must parse");
            let inc = IncomingSession::extract(&cookies, &config.cookie).expect("extract must invert what finalize wrote");
            let s2 = Session::new(&store, &config, Some(inc));
            for (k, val) in &expected {
                assert_eq!(s2.client().get_raw(k), Some(val), "client-side key {k:?}: the next request does not observe the value the previous one ended with");
            }
            assert!(!s2.client().is_empty());
        }
    }

    /// Probe of the ASSUMED contract "what `will_encrypt` / `will_sign` promise for a name is what happens to the cookie of
    /// that name": for a session cookie name that percent-encoding changes, biscotti 0.4.3 looks the crypto rule up under
    /// the ENCODED name when the cookie goes out (`process_outgoing`) but under the raw name in `will_*` — the middleware is
    /// told "will be encrypted" and the cookie leaves in clear. Reported as a NAMED deviation (known_findings.json); a name
    /// that encoding leaves alone must be protected, and any other outcome than {request fails, protected, this deviation} fails.
    #[tokio::test]
    async fn a_cookie_the_processor_promised_to_protect_is_protected_on_the_wire_whatever_its_name() {
        for name in ["sid", "__Host-session", "my session", "s;id", "sïd", "a=b", "per%cent"] {
            for algorithm in [CryptoAlgorithm::Encryption, CryptoAlgorithm::Signing] {
                let store = SessionStore::new(InMemorySessionStore::new());
                let mut config = SessionConfig::default();
                config.cookie.name = name.to_string();
                let p = processor(name, Some(algorithm));
                let mut s = Session::new(&store, &config, None);
                s.insert("srv", "server-secret-value").await.unwrap();
                let with_client = matches!(algorithm, CryptoAlgorithm::Encryption);
                if with_client { s.client_mut().insert("cli", "client-secret-value").unwrap(); }
                let mut jar = ResponseCookies::new();
                match finalize_session(Response::ok(), &mut jar, &p, s).await {
                    Err(_) => assert_eq!(jar.iter().count(), 0, "name {name:?}: the request failed but a cookie was set"),
                    Ok(_) => {
                        let headers: Vec<String> = jar.header_values(&p).collect();
                        assert_eq!(headers.len(), 1);
                        let h = &headers[0];
                        // in clear, the value is the percent-encoded JSON `{"0":"<uuid>"..}`; a signed value carries the JSON base64-encoded after the tag
                        let in_clear = h.contains("%7B%220%22%3A%22") || h.contains("{\"0\":\"") || h.contains("client-secret-value");
                        let name_needs_encoding = pavex::cookie::ResponseCookie::new(name.to_string(), "").to_string().split('=').next() != Some(name)
                            || name.chars().any(|c| !c.is_ascii_alphanumeric() && !"-_.".contains(c));
                        if in_clear && name_needs_encoding {
                            println!("VERIF-DEVIATION id=cookie_name_changed_by_percent_encoding_is_sent_unprotected @C12 session cookie name {name:?} with a {algorithm:?} rule for exactly that name: will_encrypt={} will_sign={}, finalize_session attached the cookie, and it left as {h:?}", p.will_encrypt(name), p.will_sign(name));
                        } else {
                            assert!(!in_clear, "name {name:?} ({algorithm:?}): the middleware attached the cookie because the processor promised to protect it, and it left in clear: {h}");
                        }
                    }
                }
            }
        }
    }

    #[tokio::test]
    async fn protection_matrix_of_the_middleware() {
        // (processor, client state non-empty?) -> must the middleware accept?
        for (alg, name) in [(None, "plain"), (Some(CryptoAlgorithm::Signing), "signed"), (Some(CryptoAlgorithm::Encryption), "encrypted")] {
            for client_kind in ["empty", "inserted-now", "pre-existing-untouched", "pre-existing-then-cleared"] {
                let store = SessionStore::new(InMemorySessionStore::new());
                let config = SessionConfig::default();
                let p = processor(&config.cookie.name, alg);
                let inc = match client_kind {
                    "pre-existing-untouched" | "pre-existing-then-cleared" => {
                        let mut st = HashMap::new(); st.insert(std::borrow::Cow::Borrowed("email"), serde_json::Value::String("a@b.c".into()));
                        Some(IncomingSession::from_parts(SessionId::random(), st))
                    }
                    _ => None,
                };
                let mut s = Session::new(&store, &config, inc);
                s.insert("k", 1).await.unwrap();
                if client_kind == "inserted-now" { s.client_mut().insert("email", "a@b.c").unwrap(); }
                if client_kind == "pre-existing-then-cleared" { s.client_mut().clear(); }
                let non_empty = !s.client().is_empty();
                let mut jar = ResponseCookies::new();
                let r = finalize_session(Response::ok(), &mut jar, &p, s).await;
                let attached = jar.iter().count();
                let tag = format!("processor={name} client={client_kind}");
                match (&r, name, non_empty) {
                    (Ok(_), "encrypted", _) | (Ok(_), "signed", false) => assert_eq!(attached, 1, "{tag}"),
                    (Ok(_), _, _) => panic!("{tag}: an unprotected (or merely signed, with client state) session cookie was attached"),
                    (Err(FinalizeError::EncryptionRequired { .. }), "signed", true) | (Err(FinalizeError::EncryptionRequired { .. }), "plain", true)
                    | (Err(FinalizeError::CryptoRequired { .. }), "plain", false) => assert_eq!(attached, 0, "{tag}: the request failed but a cookie was set"),
                    (Err(e), _, _) => panic!("{tag}: unexpected error {e:?}"),
                }
            }
        }
    }

    /// the configuration as an application gets it — deserialized, with parts left out — has the documented defaults
    /// (Secure and HttpOnly on, SameSite=Lax, Path=/), and a persistent cookie's Max-Age is the configured TTL however large
    #[tokio::test]
    async fn deserialized_configurations_and_large_ttls_reach_the_cookie() {
        for text in [r#"{}"#, r#"{"cookie": {}}"#, r#"{"cookie": {"name": "sid"}}"#, r#"{"cookie": {"name": "sid", "domain": "example.com"}, "state": {}}"#, r#"{"state": {"ttl": 3600}}"#] {
            let Ok(config) = serde_json::from_str::<SessionConfig>(text) else { continue }; // a shape serde rejects is not this test's business
            assert!(config.cookie.secure && config.cookie.http_only, "{text}: the documented default of `secure` and `http_only` is true, got secure={} http_only={}", config.cookie.secure, config.cookie.http_only);
            let store = SessionStore::new(InMemorySessionStore::new());
            let mut s = Session::new(&store, &config, None);
            s.insert("k", 1).await.unwrap();
            let c = s.finalize().await.unwrap().expect("cookie");
            assert_eq!((c.secure(), c.http_only()), (Some(true), Some(true)), "{text}: Secure / HttpOnly missing from the cookie");
        }
        for days in [1u64, 399, 400, 401, 1000, 36500] {
            let store = SessionStore::new(InMemorySessionStore::new());
            let mut config = SessionConfig::default();
            config.state.ttl = std::time::Duration::from_secs(days * 86400 + 1);
            let mut s = Session::new(&store, &config, None);
            s.insert("k", 1).await.unwrap();
            let c = s.finalize().await.unwrap().expect("cookie");
            assert_eq!(c.max_age(), Some(pavex::time::SignedDuration::try_from(config.state.ttl).unwrap()), "ttl of {days} days and a second: max-age is not the configured TTL");
        }
    }

    /// the cookie follows the configuration AS IT IS when the session is finalized: one configuration object changed in
    /// place between two requests, and a changed clone of it
    #[tokio::test]
    async fn a_configuration_changed_between_requests_is_honoured() {
        use pavex::cookie::SameSite;
        let store = SessionStore::new(InMemorySessionStore::new());
        let mut config = SessionConfig::default();
        async fn issue(store: &SessionStore, config: &SessionConfig) -> pavex::cookie::ResponseCookie<'static> {
            let mut s = Session::new(store, config, None);
            s.insert("k", 1).await.unwrap();
            s.finalize().await.unwrap().expect("cookie")
        }
        let c1 = issue(&store, &config).await;
        assert_eq!((c1.name(), c1.path(), c1.secure()), ("id", Some("/"), Some(true)));
        config.cookie.name = "renamed".into(); config.cookie.domain = Some("example.com".into()); config.cookie.path = Some("/app".into());
        config.cookie.same_site = Some(SameSite::Strict); config.cookie.secure = false; config.cookie.http_only = false;
        let c2 = issue(&store, &config).await;
        assert_eq!((c2.name(), c2.domain(), c2.path(), c2.same_site(), c2.secure().unwrap_or(false), c2.http_only().unwrap_or(false)), ("renamed", Some("example.com"), Some("/app"), Some(SameSite::Strict), false, false), "the configuration was changed in place after a first cookie had been issued");
        let mut other = config.clone();
        other.cookie.name = "clone".into(); other.cookie.path = None; other.cookie.domain = None;
        let c3 = issue(&store, &other).await;
        assert_eq!((c3.name(), c3.domain(), c3.path()), ("clone", None, None), "a changed clone of a configuration that had already issued a cookie");
        // and the protection decision is taken for the name actually used
        let p = processor("clone", Some(CryptoAlgorithm::Signing));
        let mut s = Session::new(&store, &other, None); s.insert("k", 1).await.unwrap();
        let mut jar = ResponseCookies::new();
        finalize_session(Response::ok(), &mut jar, &p, s).await.expect("the cookie named `clone` is covered by the signing rule");
        let mut s = Session::new(&store, &config, None); s.insert("k", 1).await.unwrap();
        let mut jar = ResponseCookies::new();
        assert!(finalize_session(Response::ok(), &mut jar, &p, s).await.is_err() && jar.iter().count() == 0, "the cookie named `renamed` has no crypto rule");
    }

    #[tokio::test]
    async fn cookie_attributes_follow_the_configuration_and_debug_never_shows_the_id() {
        use pavex::cookie::SameSite;
        use pavex_session::config::SessionCookieKind;
        for domain in [None, Some("example.com")] { for path in [None, Some("/app")] { for secure in [true, false] { for http_only in [true, false] {
        for same_site in [None, Some(SameSite::Strict)] { for kind in [SessionCookieKind::Persistent, SessionCookieKind::Session] {
            let store = SessionStore::new(InMemorySessionStore::new());
            let mut config = SessionConfig::default();
            config.cookie.name = "sid".into(); config.cookie.domain = domain.map(Into::into); config.cookie.path = path.map(Into::into);
            config.cookie.secure = secure; config.cookie.http_only = http_only; config.cookie.same_site = same_site; config.cookie.kind = kind.clone();
            let mut s = Session::new(&store, &config, None);
            s.insert("k", 1).await.unwrap();
            let c = s.finalize().await.unwrap().expect("cookie");
            let id = incoming_id(&c);
            assert_eq!((c.name(), c.domain(), c.path(), c.same_site()), ("sid", domain, path, same_site));
            assert_eq!((c.secure().unwrap_or(false), c.http_only().unwrap_or(false), c.max_age().is_some()), (secure, http_only, kind == SessionCookieKind::Persistent));
            // max-age is the CONFIGURED ttl, exactly — also for a request that only reads a state loaded from the store
            let want_max_age = pavex::time::SignedDuration::try_from(config.state.ttl).unwrap();
            if kind == SessionCookieKind::Persistent { assert_eq!(c.max_age(), Some(want_max_age), "max-age of a new session"); }
            for touch in ["read", "write", "nothing"] {
                let mut s3 = Session::new(&store, &config, Some(incoming(&c)));
                if touch == "read" { let _ = s3.get_raw("k").await.unwrap(); }
                if touch == "write" { s3.insert("other", 1).await.unwrap(); }
                let c3 = s3.finalize().await.unwrap().expect("cookie");
                assert_eq!(c3.max_age(), if kind == SessionCookieKind::Persistent { Some(want_max_age) } else { None }, "max-age after a request that did: {touch}");
                assert_eq!((c3.name(), c3.domain(), c3.path(), c3.same_site(), c3.secure().unwrap_or(false), c3.http_only().unwrap_or(false)), ("sid", domain, path, same_site, secure, http_only), "attributes after a request that did: {touch}");
            }
            // the removal cookie targets the same (name, domain, path); Debug never shows the id in any state
            let mut s2 = Session::new(&store, &config, Some(incoming(&c)));
            let shows = |s: &Session<'_>| { let d = format!("{s:?}\n{s:#?}"); d.contains(&id) || d.contains(&id.replace('-', "")) };
            assert!(!shows(&s2)); let _ = s2.get_raw("k").await.unwrap(); assert!(!shows(&s2));
            s2.cycle_id(); assert!(!shows(&s2)); s2.delete(); assert!(!shows(&s2)); s2.invalidate(); assert!(!shows(&s2));
            let r = s2.finalize().await.unwrap().expect("removal cookie");
            assert!(!shows(&s2));
            assert_eq!((r.name(), r.domain(), r.path()), ("sid", domain, path), "removal cookie scope");
            // the errors that carry an id do not print it either (neither Debug, pretty Debug nor Display; nor wrapped)
            let sid: SessionId = serde_json::from_value(serde_json::Value::String(id.clone())).unwrap();
            use pavex_session::store::errors::{ChangeIdError, DeleteError, DuplicateIdError, UnknownIdError, UpdateError};
            for text in [format!("{:?}", UnknownIdError { id: sid }), format!("{:#?}", UnknownIdError { id: sid }), format!("{}", UnknownIdError { id: sid }),
                         format!("{:?}", DuplicateIdError { id: sid }), format!("{:#?}", DuplicateIdError { id: sid }), format!("{}", DuplicateIdError { id: sid }),
                         format!("{:?}", UpdateError::UnknownIdError(UnknownIdError { id: sid })), format!("{:?}", DeleteError::UnknownId(UnknownIdError { id: sid })),
                         format!("{:?}", ChangeIdError::DuplicateId(DuplicateIdError { id: sid }))] {
                assert!(!text.contains(&id) && !text.contains(&id.replace('-', "")), "an error type shows the session id: {text}");
            }
        }}}}}}
    }
}
