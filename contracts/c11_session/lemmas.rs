// ======================================================================================
// C11 property lemmas: the statement of the property, derived from the function contracts.
// Each hypothesis is, verbatim, a postcondition discharged above on the real code (named in the comment),
// or an environment assumption (named ASSUMPTION).  Nothing here mentions the code.
// ======================================================================================

/// Sentence 1 — "If a response's session cookie is presented on the next request, that request observes precisely
/// the client-side and server-side key/values the previous request ended with".
///   e   : the session of request k when `finalize` is entered (whatever operations produced it: every operation
///         preserves `inv`, see the `*.inv` obligations; `sync` re-establishes it, see sync.reestablishes_inv)
///   m2  : the store after `finalize`;   ck : the cookie `finalize` returned
///   jar : the cookies of request k+1;   inc: what `IncomingSession::extract` made of them
///   s2  : the session `Session::new` built in request k+1
pub proof fn carry_over_to_the_next_request(
    e: &Session<'_>, m2: Map<SessionId, KV>, ck: ResponseCookie<'static>,
    jar: &RequestCookies<'_>, inc: Option<IncomingSession>, s2: &Session<'_>,
)
    requires
        inv(e), !invalidated(e),
        fresh(e),                                                       // ASSUMPTION (RNG): a drawn id is not a key of the store
        // finalize.store_effect.* / finalize.cookie_carries_new_id_and_client_state / finalize.cookie_attributes
        synced_new_id(e, m2), synced_old_id(e, m2), synced_frame(e, m2),
        !ck.removal, ck.value@ == wire(spec_new_id(e.id), cstate(e.client_state)), ck.name@ == e.config.cookie.name@,
        // ASSUMPTION (client): the cookie is presented unchanged under its name
        req_cookie(jar, s2.config.cookie.name@) == Some(ck.value@),
        // extract.inverse_of_the_wire_format
        match req_cookie(jar, s2.config.cookie.name@) {
            Some(v) => match wire_parse(v) {
                Some(p) => inc matches Some(s) && s.id == p.0 && s.client_state@ == p.1,
                None => inc is None,
            },
            None => inc is None,
        },
        // new.client_state_is_the_incoming_one / new.id_and_cell / new.not_invalidated_and_wired
        cstate(s2.client_state) == (match inc { Some(s) => s.client_state@, None => empty_kv() }),
        match inc {
            Some(s) => s2.id == CurrentSessionId::Existing(s.id) && cell(s2) is None,
            None => s2.id is NewlyGenerated && cell(s2) == Some(ServerState::DoesNotExist),
        },
        !invalidated(s2), s2.config == e.config,
        // ASSUMPTION (stable store): nobody else touched this session's record between the two requests
        store_of(s2) == m2,
    ensures
        // the client-side key/values are exactly those request k ended with
        cview(s2) =~= cview(e),
        // the session continues under the id request k ended with
        spec_old_id(s2.id) == Some(spec_new_id(e.id)),
        // whatever the lazy load then puts in the cell holds exactly the server-side key/values request k ended with
        forall |c: Option<ServerState>, invd: bool| #![auto] loaded(s2, c, invd) ==>
            (c matches Some(st) && kvs(sstate(st)) =~= kvs(lview(e)) && (lview(e) is Some ==> !invd)),
{
    broadcast use wire_round_trip;
}

/// Sentence 2 — "after invalidate() the client receives a removal cookie (if it had a session), the server record is
/// gone and the old cookie no longer yields any state".
pub proof fn invalidate_removes_everything(e: &Session<'_>, m2: Map<SessionId, KV>, c: Option<ResponseCookie<'static>>, s3: &Session<'_>)
    requires
        inv(e), invalidated(e), fresh(e),
        // finalize.store_effect.* / finalize.removal_cookie_when_invalidated
        synced_new_id(e, m2), synced_old_id(e, m2), synced_frame(e, m2),
        match c { Some(ck) => removal_attributes_ok(ck, e.config), None => spec_old_id(e.id) is None },
        // a later request that still presents the OLD cookie
        spec_old_id(e.id) matches Some(o) && s3.id == CurrentSessionId::Existing(o) && cell(s3) is None && store_of(s3) == m2,
    ensures
        c matches Some(ck) && ck.removal && ck.name@ == e.config.cookie.name@,
        !m2.contains_key(spec_new_id(e.id)),
        stored(s3) is None,
        forall |c3: Option<ServerState>, invd: bool| #![auto] loaded(s3, c3, invd) ==> (c3 matches Some(st) && sstate(st) is None),
{
}

/// Sentence 3 — "after cycle_id() the state is reachable only under the new id".
pub proof fn cycled_state_only_under_the_new_id(e: &Session<'_>, m2: Map<SessionId, KV>, s3: &Session<'_>)
    requires
        inv(e), fresh(e), !invalidated(e),
        e.id matches CurrentSessionId::ToBeRenamed { old, new },
        synced_new_id(e, m2), synced_old_id(e, m2), synced_frame(e, m2),
        // a later request presenting the cookie with the OLD id
        spec_old_id(e.id) matches Some(o) && s3.id == CurrentSessionId::Existing(o) && cell(s3) is None && store_of(s3) == m2,
    ensures
        stored(s3) is None,
        lview(e) matches Some(kv) ==> m2.contains_key(spec_new_id(e.id)) && m2[spec_new_id(e.id)] =~= kv,
{
}
