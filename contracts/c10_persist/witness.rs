#[cfg(test)]
mod verif_witness {
    //! Native witness/replay for C10 (idempotence and `--check`): the real persistence glue on a real directory.
    use super::AppDiagnostics;
    use crate::AppWriter;
    use persist_if_changed::persist_if_changed;
    use std::path::PathBuf;
    use std::time::{Duration, SystemTime};

    fn dir(tag: &str) -> PathBuf {
        let d = std::env::temp_dir().join(format!("verif-c10-{}-{tag}", std::process::id()));
        let _ = std::fs::remove_dir_all(&d);
        std::fs::create_dir_all(&d).unwrap();
        d
    }
    /// set the mtime far in the past so that any rewrite is visible whatever the clock granularity
    fn age(p: &std::path::Path) -> SystemTime {
        let t = SystemTime::UNIX_EPOCH + Duration::from_secs(1_000_000_000);
        std::fs::File::options().write(true).open(p).unwrap().set_modified(t).unwrap();
        std::fs::metadata(p).unwrap().modified().unwrap()
    }
    fn mtime(p: &std::path::Path) -> SystemTime { std::fs::metadata(p).unwrap().modified().unwrap() }

    #[test]
    fn rerunning_on_unchanged_content_modifies_no_file() {
        let d = dir("idem");
        let f = d.join("lib.rs");
        persist_if_changed(&f, b"fn main() {}").unwrap();
        assert_eq!(std::fs::read(&f).unwrap(), b"fn main() {}");
        let t0 = age(&f);
        persist_if_changed(&f, b"fn main() {}").unwrap();
        assert_eq!(mtime(&f), t0, "identical bytes were rewritten (mtime moved)");
        let mut w = AppWriter::update_mode();
        w.persist_if_changed(&f, b"fn main() {}").unwrap();
        assert_eq!(mtime(&f), t0, "identical bytes were rewritten through the writer");
        w.persist_if_changed(&f, b"fn main() { }").unwrap();
        assert_ne!(mtime(&f), t0); assert_eq!(std::fs::read(&f).unwrap(), b"fn main() { }");
        // shrinking content: nothing of the old file may survive, and the next run is a no-op again
        w.persist_if_changed(&f, b"fn m(){}").unwrap();
        assert_eq!(std::fs::read(&f).unwrap(), b"fn m(){}", "a stale tail of the longer old content survived");
        let t_short = age(&f);
        w.persist_if_changed(&f, b"fn m(){}").unwrap();
        assert_eq!(mtime(&f), t_short, "re-running after a shrinking write rewrote the file");
        w.persist_if_changed(&f, b"fn main() { }").unwrap();
        // same length, different content: the checksum must notice
        let t1 = age(&f);
        w.persist_if_changed(&f, b"fn mian() { }").unwrap();
        assert_ne!(mtime(&f), t1); assert_eq!(std::fs::read(&f).unwrap(), b"fn mian() { }");
        let _ = std::fs::remove_dir_all(d);
    }

    #[test]
    fn check_mode_never_modifies_and_reports_exactly_the_outdated_files() {
        let d = dir("check");
        let (same, stale, missing) = (d.join("same"), d.join("stale"), d.join("missing"));
        std::fs::write(&same, b"A").unwrap(); std::fs::write(&stale, b"old").unwrap();
        let (t_same, t_stale) = (age(&same), age(&stale));
        let mut w = AppWriter::check_mode();
        w.persist_if_changed(&same, b"A").unwrap();
        assert!(w.verify().is_ok(), "an up-to-date file was reported");
        w.persist_if_changed(&stale, b"new").unwrap();
        w.persist_if_changed(&missing, b"x").unwrap();
        assert_eq!(std::fs::read(&stale).unwrap(), b"old", "--check modified a file");
        assert_eq!((mtime(&same), mtime(&stale)), (t_same, t_stale), "--check touched a file");
        assert!(!missing.exists(), "--check created a file");
        assert_eq!(w.verify().unwrap_err().len(), 2, "exactly the two outdated files must be reported");
        let _ = std::fs::remove_dir_all(d);
    }

    /// "`--check` exits 0 exactly when a normal run would change nothing": files that differ from the generated content
    /// only slightly — a line-wise prefix or extension of it, other line endings, same length, a difference far into a
    /// large file, an empty file — are all outdated: check mode reports each one, update mode replaces each one.
    #[test]
    fn every_near_miss_of_the_generated_content_is_outdated() {
        let generated: Vec<u8> = b"[package]\nname = \"application\"\nedition = \"2024\"\n\n[dependencies]\nhttp = \"1\"\npavex = \"0.2\"\n".to_vec();
        let text = String::from_utf8(generated.clone()).unwrap();
        let mut big = vec![b'x'; 3 * 8192 + 17]; let big_generated = big.clone(); let n = big.len(); big[n - 3] = b'y';
        let mut big_mid = big_generated.clone(); big_mid[8192 + 5] = b'y';
        let variants: Vec<(&str, Vec<u8>, Vec<u8>)> = vec![
            ("empty file", vec![], generated.clone()),
            ("line-wise prefix (last dependency missing)", text.lines().take(6).map(|l| format!("{l}\n")).collect::<String>().into_bytes(), generated.clone()),
            ("line-wise extension (leftover trailing dependency)", format!("{text}serde = \"1\"\n").into_bytes(), generated.clone()),
            ("CRLF line endings", text.replace('\n', "\r\n").into_bytes(), generated.clone()),
            ("no trailing newline", text.trim_end().as_bytes().to_vec(), generated.clone()),
            ("same length, other edition", text.replace("2024", "2021").into_bytes(), generated.clone()),
            ("same length, last byte differs", { let mut v = generated.clone(); *v.last_mut().unwrap() = b' '; v }, generated.clone()),
            ("large file, difference in the last partial block", big, big_generated.clone()),
            ("large file, difference in the second block", big_mid, big_generated.clone()),
        ];
        let d = dir("nearmiss");
        for (i, (what, on_disk, want)) in variants.iter().enumerate() {
            let f = d.join(format!("f{i}"));
            std::fs::write(&f, on_disk).unwrap(); let t = age(&f);
            let mut c = AppWriter::check_mode();
            c.persist_if_changed(&f, want).unwrap();
            assert!(c.verify().is_err(), "{what}: --check exits 0 although a normal run would rewrite the file");
            assert_eq!((std::fs::read(&f).unwrap(), mtime(&f)), (on_disk.clone(), t), "{what}: --check touched the file");
            let mut u = AppWriter::update_mode();
            u.persist_if_changed(&f, want).unwrap();
            assert_eq!(&std::fs::read(&f).unwrap(), want, "{what}: a normal run left the stale content in place");
            let t2 = age(&f);
            u.persist_if_changed(&f, want).unwrap();
            assert_eq!(mtime(&f), t2, "{what}: re-running on unchanged content rewrote the file");
            let mut c = AppWriter::check_mode();
            c.persist_if_changed(&f, want).unwrap();
            assert!(c.verify().is_ok(), "{what}: --check fails right after a normal run");
        }
        // an output path that is a symbolic link to an up-to-date file is up to date (and is written THROUGH when it is not)
        #[cfg(unix)]
        {
            let real = d.join("real_lib.rs"); let link = d.join("lib.rs");
            std::fs::write(&real, &generated).unwrap(); std::os::unix::fs::symlink(&real, &link).unwrap();
            let t = age(&real);
            let mut c = AppWriter::check_mode(); c.persist_if_changed(&link, &generated).unwrap();
            assert!(c.verify().is_ok(), "symlinked output: --check reports an up-to-date file as outdated");
            let mut u = AppWriter::update_mode(); u.persist_if_changed(&link, &generated).unwrap();
            assert_eq!(mtime(&real), t, "symlinked output: re-running on unchanged content rewrote the file behind the link");
            u.persist_if_changed(&link, b"changed").unwrap();
            assert_eq!(std::fs::read(&real).unwrap(), b"changed", "symlinked output: the new content did not reach the file");
        }
        println!("VERIF-BOUNDED test=every_near_miss_of_the_generated_content_is_outdated evaluations={} bound=hand-picked near misses of the generated content (prefix, extension, CRLF, same length, large-file tail/middle, empty)", variants.len());
        let _ = std::fs::remove_dir_all(d);
    }

    /// The tail of `pavexc_cli::generate` for `--check --diagnostics <f>`, transcribed call for call (main.rs, from the
    /// choice of the writer on; code generation itself is skipped).  Before fix 'C10 diagnostics' the diagnostics were
    /// persisted before the writer was chosen, through `persist_if_changed` directly.
    #[test]
    fn check_with_diagnostics_does_not_modify_the_diagnostics_file() {
        let d = dir("diag");
        let f = d.join("diagnostics.dot");
        std::fs::write(&f, b"digraph outdated {}").unwrap();
        let t0 = age(&f);
        let app_diagnostics = AppDiagnostics { handlers: vec![vec!["digraph \"GET /\" {}".to_string()]], application_state: "digraph app_state {}".to_string() };
        let check = true;
        // --- generate() ---
        let mut writer = if check { AppWriter::check_mode() } else { AppWriter::update_mode() };
        app_diagnostics.persist_flat(&f, &mut writer).unwrap();
        let exit_ok = writer.verify().is_ok();
        // --- the property ---
        assert_eq!(std::fs::read(&f).unwrap(), b"digraph outdated {}", "WITNESS: `--check --diagnostics f` rewrote the diagnostics file");
        assert_eq!(mtime(&f), t0);
        assert!(!exit_ok, "`--check` must not exit 0 when a normal run would change the diagnostics file");
        let _ = std::fs::remove_dir_all(d);
    }
}
