#[cfg(test)]
mod verif_witness_generated_app {
    //! Native witness for GeneratedApp::persist_manifest (private): check mode never touches the directory; update
    //! mode converges (a second run rewrites nothing).
    use super::{GeneratedApp, GeneratedManifest};
    use crate::AppWriter;
    use std::time::{Duration, SystemTime};

    fn dir(tag: &str) -> std::path::PathBuf {
        let d = std::env::temp_dir().join(format!("verif-c10-ga-{}-{tag}", std::process::id()));
        let _ = std::fs::remove_dir_all(&d); std::fs::create_dir_all(&d).unwrap(); d
    }
    fn manifest() -> GeneratedManifest { GeneratedManifest { dependencies: Default::default(), edition: cargo_manifest::Edition::E2021 } }
    fn snapshot(d: &std::path::Path) -> Vec<(String, Vec<u8>, SystemTime)> {
        let mut v: Vec<_> = std::fs::read_dir(d).unwrap().map(|e| { let e = e.unwrap(); let p = e.path();
            (e.file_name().to_string_lossy().into_owned(), if p.is_file() { std::fs::read(&p).unwrap() } else { vec![] }, e.metadata().unwrap().modified().unwrap()) }).collect();
        v.sort_by(|a, b| a.0.cmp(&b.0)); v
    }
    fn age(p: &std::path::Path) { std::fs::File::options().write(true).open(p).unwrap().set_modified(SystemTime::UNIX_EPOCH + Duration::from_secs(1_000_000_000)).unwrap(); }

    #[test]
    fn persist_manifest_in_check_mode_never_touches_the_directory() {
        // (a) no manifest yet: nothing may be created, and the missing manifest is reported
        let d = dir("fresh");
        let before = snapshot(&d);
        let mut w = AppWriter::check_mode();
        GeneratedApp::persist_manifest(&manifest(), &d, &mut w).unwrap();
        assert_eq!(snapshot(&d), before, "--check created or modified something in an empty crate directory");
        assert!(w.verify().is_err(), "--check must report the missing manifest");
        // (b) an outdated manifest: untouched, reported
        std::fs::write(d.join("Cargo.toml"), "[package]\nname = \"application\"\nversion = \"0.1.0\"\nedition = \"2018\"\n").unwrap();
        age(&d.join("Cargo.toml"));
        let before = snapshot(&d);
        let mut w = AppWriter::check_mode();
        GeneratedApp::persist_manifest(&manifest(), &d, &mut w).unwrap();
        assert_eq!(snapshot(&d), before, "--check modified an outdated manifest");
        assert!(w.verify().is_err());
        let _ = std::fs::remove_dir_all(d);
    }
    #[test]
    fn persist_manifest_converges() {
        let d = dir("conv");
        let mut w = AppWriter::update_mode();
        GeneratedApp::persist_manifest(&manifest(), &d, &mut w).unwrap();
        age(&d.join("Cargo.toml"));
        let after_first = snapshot(&d);
        GeneratedApp::persist_manifest(&manifest(), &d, &mut w).unwrap();
        assert_eq!(snapshot(&d), after_first, "re-running on unchanged inputs rewrote the manifest");
        let mut c = AppWriter::check_mode();
        GeneratedApp::persist_manifest(&manifest(), &d, &mut c).unwrap();
        assert!(c.verify().is_ok(), "--check fails right after a normal run");
        let _ = std::fs::remove_dir_all(d);
    }
    /// "Re-running on unchanged inputs modifies no file": the manifest with a path dependency, written through a
    /// symlinked project directory, first when the crate directory does not exist yet and then again — in the order
    /// GeneratedApp::persist uses (normalize_path_dependencies, create_dir_all, persist_manifest).
    #[cfg(unix)]
    #[test]
    fn the_manifest_with_path_dependencies_converges_through_a_symlink() {
        use cargo_manifest::{Dependency, DependencyDetail};
        let scratch = dir("symlink");
        let real = scratch.join("real").join("project");
        std::fs::create_dir_all(real.join("dep")).unwrap();
        let link = scratch.join("project");
        std::os::unix::fs::symlink(&real, &link).unwrap();
        for (what, project) in [("through the symlink", link.clone()), ("through the real path", real.clone())] {
            let pkg = project.join(format!("server_sdk_{}", what.len()));
            let fresh_manifest = || {
                let mut m = manifest();
                m.dependencies.insert("dep".to_string(), Dependency::Detailed(DependencyDetail { path: Some(project.join("dep").to_str().unwrap().to_owned()), ..Default::default() }));
                m.dependencies.insert("http".to_string(), Dependency::Simple("1".into()));
                m
            };
            let run = |first: bool| {
                let mut m = fresh_manifest();
                GeneratedApp::normalize_path_dependencies(&mut m, &pkg).unwrap();
                if first { std::fs::create_dir_all(pkg.join("src")).unwrap(); }
                let mut w = AppWriter::update_mode();
                GeneratedApp::persist_manifest(&m, &pkg, &mut w).unwrap();
            };
            run(true);
            age(&pkg.join("Cargo.toml"));
            let after_first = (std::fs::read(pkg.join("Cargo.toml")).unwrap(), std::fs::metadata(pkg.join("Cargo.toml")).unwrap().modified().unwrap());
            run(false);
            let after_second = (std::fs::read(pkg.join("Cargo.toml")).unwrap(), std::fs::metadata(pkg.join("Cargo.toml")).unwrap().modified().unwrap());
            assert_eq!(String::from_utf8_lossy(&after_first.0), String::from_utf8_lossy(&after_second.0), "{what}: the second run on unchanged inputs generated a different manifest");
            assert_eq!(after_first.1, after_second.1, "{what}: the second run on unchanged inputs rewrote the manifest");
            let mut m = fresh_manifest();
            GeneratedApp::normalize_path_dependencies(&mut m, &pkg).unwrap();
            let mut c = AppWriter::check_mode();
            GeneratedApp::persist_manifest(&m, &pkg, &mut c).unwrap();
            assert!(c.verify().is_ok(), "{what}: --check fails right after a normal run");
        }
        let _ = std::fs::remove_dir_all(scratch);
    }
}
