#[cfg(test)]
mod verif_witness_generated_app {
    //! Native witness for GeneratedApp::persist_manifest (private): check mode never touches the directory; update
    //! mode converges (a second run rewrites nothing).
    use super::{GeneratedApp, GeneratedManifest};
    use crate::AppWriter;
    use std::time::{Duration, SystemTime};

    fn dir(tag: &str) -> std::path::PathBuf {
        let d = std::env::temp_dir().join(format!("verif-c10-ga-{}-{tag}", std::process::id()));
        let _ = std::fs::remove_dir_all(&d); std::fs::create_dir_all(&d).unwrap(); d
    }
    fn manifest() -> GeneratedManifest { GeneratedManifest { dependencies: Default::default(), edition: cargo_manifest::Edition::E2021 } }
    fn snapshot(d: &std::path::Path) -> Vec<(String, Vec<u8>, SystemTime)> {
        let mut v: Vec<_> = std::fs::read_dir(d).unwrap().map(|e| { let e = e.unwrap(); let p = e.path();
            (e.file_name().to_string_lossy().into_owned(), if p.is_file() { std::fs::read(&p).unwrap() } else { vec![] }, e.metadata().unwrap().modified().unwrap()) }).collect();
        v.sort_by(|a, b| a.0.cmp(&b.0)); v
    }
    fn age(p: &std::path::Path) { std::fs::File::options().write(true).open(p).unwrap().set_modified(SystemTime::UNIX_EPOCH + Duration::from_secs(1_000_000_000)).unwrap(); }

    #[test]
    fn persist_manifest_in_check_mode_never_touches_the_directory() {
        // (a) no manifest yet: nothing may be created, and the missing manifest is reported
        let d = dir("fresh");
        let before = snapshot(&d);
        let mut w = AppWriter::check_mode();
        GeneratedApp::persist_manifest(&manifest(), &d, &mut w).unwrap();
        assert_eq!(snapshot(&d), before, "--check created or modified something in an empty crate directory");
        assert!(w.verify().is_err(), "--check must report the missing manifest");
        // (b) an outdated manifest: untouched, reported
        std::fs::write(d.join("Cargo.toml"), "[package]\nname = \"application\"\nversion = \"0.1.0\"\nedition = \"2018\"\n").unwrap();
        age(&d.join("Cargo.toml"));
        let before = snapshot(&d);
        let mut w = AppWriter::check_mode();
        GeneratedApp::persist_manifest(&manifest(), &d, &mut w).unwrap();
        assert_eq!(snapshot(&d), before, "--check modified an outdated manifest");
        assert!(w.verify().is_err());
        let _ = std::fs::remove_dir_all(d);
    }
    /// an SDK manifest with a history (obsolete dependencies next to each other, a user-added key, stale values) is brought up
    /// to date by ONE normal run: the next run changes nothing and `--check` is satisfied
    #[test]
    fn a_manifest_with_a_history_is_fixed_by_one_run() {
        use cargo_manifest::Dependency;
        let histories = [
            "[package]\nname = \"application\"\nversion = \"0.1.0\"\nedition = \"2018\"\n\n[dependencies]\nold_a = \"1\"\nold_b = \"2\"\nold_c = \"3\"\nhttp = \"0.2\"\n",
            "[package]\nname = \"application\"\nversion = \"0.1.0\"\n\n[dependencies]\nold_a = \"1\"\nold_b = { version = \"2\", features = [\"x\"] }\n\n[dev-dependencies]\ninsta = \"1\"\n",
            "[package]\nname = \"application\"\nversion = \"0.1.0\"\nedition = \"2021\"\n\n[dependencies]\n",
        ];
        for (n, old) in histories.iter().enumerate() {
            let d = dir(&format!("hist{n}"));
            std::fs::write(d.join("Cargo.toml"), old).unwrap();
            let m = || { let mut m = manifest(); m.dependencies.insert("http".to_string(), Dependency::Simple("1".into())); m.dependencies.insert("pavex".to_string(), Dependency::Simple("0.2".into())); m };
            let mut w = AppWriter::update_mode();
            GeneratedApp::persist_manifest(&m(), &d, &mut w).unwrap();
            let text = std::fs::read_to_string(d.join("Cargo.toml")).unwrap();
            assert!(!text.contains("old_a") && !text.contains("old_b") && !text.contains("old_c"), "history {n}: obsolete dependencies survive a normal run:\n{text}");
            age(&d.join("Cargo.toml"));
            let after_first = snapshot(&d);
            let mut c = AppWriter::check_mode();
            GeneratedApp::persist_manifest(&m(), &d, &mut c).unwrap();
            assert!(c.verify().is_ok(), "history {n}: --check fails right after a normal run:\n{text}");
            let mut w = AppWriter::update_mode();
            GeneratedApp::persist_manifest(&m(), &d, &mut w).unwrap();
            assert_eq!(snapshot(&d), after_first, "history {n}: re-running on unchanged inputs rewrote the manifest");
            let _ = std::fs::remove_dir_all(d);
        }
    }
    #[test]
    fn persist_manifest_converges() {
        let d = dir("conv");
        let mut w = AppWriter::update_mode();
        GeneratedApp::persist_manifest(&manifest(), &d, &mut w).unwrap();
        age(&d.join("Cargo.toml"));
        let after_first = snapshot(&d);
        GeneratedApp::persist_manifest(&manifest(), &d, &mut w).unwrap();
        assert_eq!(snapshot(&d), after_first, "re-running on unchanged inputs rewrote the manifest");
        let mut c = AppWriter::check_mode();
        GeneratedApp::persist_manifest(&manifest(), &d, &mut c).unwrap();
        assert!(c.verify().is_ok(), "--check fails right after a normal run");
        let _ = std::fs::remove_dir_all(d);
    }
    /// "Re-running on unchanged inputs modifies no file": the manifest with a path dependency, written through a
    /// symlinked project directory, first when the crate directory does not exist yet and then again — in the order
    /// GeneratedApp::persist uses (normalize_path_dependencies, create_dir_all, persist_manifest).
    #[cfg(unix)]
    #[test]
    fn the_manifest_with_path_dependencies_converges_through_a_symlink() {
        use cargo_manifest::{Dependency, DependencyDetail};
        let scratch = dir("symlink");
        let real = scratch.join("real").join("project");
        std::fs::create_dir_all(real.join("dep")).unwrap();
        let link = scratch.join("project");
        std::os::unix::fs::symlink(&real, &link).unwrap();
        for (what, project) in [("through the symlink", link.clone()), ("through the real path", real.clone())] {
            let pkg = project.join(format!("server_sdk_{}", what.len()));
            let fresh_manifest = || {
                let mut m = manifest();
                m.dependencies.insert("dep".to_string(), Dependency::Detailed(DependencyDetail { path: Some(project.join("dep").to_str().unwrap().to_owned()), ..Default::default() }));
                m.dependencies.insert("http".to_string(), Dependency::Simple("1".into()));
                m
            };
            let run = |first: bool| {
                let mut m = fresh_manifest();
                GeneratedApp::normalize_path_dependencies(&mut m, &pkg).unwrap();
                if first { std::fs::create_dir_all(pkg.join("src")).unwrap(); }
                let mut w = AppWriter::update_mode();
                GeneratedApp::persist_manifest(&m, &pkg, &mut w).unwrap();
            };
            run(true);
            age(&pkg.join("Cargo.toml"));
            let after_first = (std::fs::read(pkg.join("Cargo.toml")).unwrap(), std::fs::metadata(pkg.join("Cargo.toml")).unwrap().modified().unwrap());
            run(false);
            let after_second = (std::fs::read(pkg.join("Cargo.toml")).unwrap(), std::fs::metadata(pkg.join("Cargo.toml")).unwrap().modified().unwrap());
            assert_eq!(String::from_utf8_lossy(&after_first.0), String::from_utf8_lossy(&after_second.0), "{what}: the second run on unchanged inputs generated a different manifest");
            assert_eq!(after_first.1, after_second.1, "{what}: the second run on unchanged inputs rewrote the manifest");
            let mut m = fresh_manifest();
            GeneratedApp::normalize_path_dependencies(&mut m, &pkg).unwrap();
            let mut c = AppWriter::check_mode();
            GeneratedApp::persist_manifest(&m, &pkg, &mut c).unwrap();
            assert!(c.verify().is_ok(), "{what}: --check fails right after a normal run");
        }
        let _ = std::fs::remove_dir_all(scratch);
    }
    /// The whole of GeneratedApp::persist on real scratch projects (package graph from `cargo metadata --offline`), for three
    /// shapes of the root manifest: `--check` on a project that has no SDK yet creates and modifies nothing and reports; a
    /// normal run writes; `--check` right after is satisfied and touches nothing; a second normal run touches nothing.
    #[test]
    fn the_whole_persist_converges_and_check_mode_touches_nothing() {
        use cargo_manifest::{Dependency, DependencyDetail};
        fn tree(root: &std::path::Path) -> Vec<(String, Vec<u8>, SystemTime)> {
            fn walk(d: &std::path::Path, root: &std::path::Path, out: &mut Vec<(String, Vec<u8>, SystemTime)>) {
                for e in std::fs::read_dir(d).unwrap() { let e = e.unwrap(); let p = e.path();
                    if p.file_name().unwrap() == "target" || p.file_name().unwrap() == "Cargo.lock" { continue; }
                    let rel = p.strip_prefix(root).unwrap().to_string_lossy().into_owned();
                    if p.is_dir() { out.push((rel + "/", vec![], SystemTime::UNIX_EPOCH)); walk(&p, root, out); }
                    else { out.push((rel, std::fs::read(&p).unwrap(), e.metadata().unwrap().modified().unwrap())); } }
            }
            let mut v = vec![]; walk(root, root, &mut v); v.sort_by(|a, b| a.0.cmp(&b.0)); v
        }
        fn age_all(root: &std::path::Path) { for (rel, _, _) in tree(root) { if !rel.ends_with('/') { age(&root.join(rel)); } } }
        let roots = [
            ("plain package", "[package]\nname = \"demo_project\"\nversion = \"0.1.0\"\nedition = \"2021\"\n\n[dependencies]\ndep = { path = \"dep\" }\n"),
            ("workspace without the sdk", "[package]\nname = \"demo_project\"\nversion = \"0.1.0\"\nedition = \"2021\"\n\n[dependencies]\ndep = { path = \"dep\" }\n\n[workspace]\nmembers = [\".\", \"dep\"]\n"),
            ("workspace without a members key", "[package]\nname = \"demo_project\"\nversion = \"0.1.0\"\nedition = \"2021\"\n\n[dependencies]\ndep = { path = \"dep\" }\n\n[workspace]\nresolver = \"2\"\n"),
        ];
        for (n, (what, root_manifest)) in roots.iter().enumerate() {
            let project = dir(&format!("whole{n}"));
            std::fs::create_dir_all(project.join("src")).unwrap(); std::fs::create_dir_all(project.join("dep/src")).unwrap();
            std::fs::write(project.join("Cargo.toml"), root_manifest).unwrap();
            std::fs::write(project.join("src/lib.rs"), "").unwrap();
            std::fs::write(project.join("dep/Cargo.toml"), "[package]\nname = \"dep\"\nversion = \"0.1.0\"\nedition = \"2021\"\n").unwrap();
            std::fs::write(project.join("dep/src/lib.rs"), "").unwrap();
            let app = || {
                let package_graph = guppy::MetadataCommand::new().manifest_path(project.join("Cargo.toml")).other_options(["--offline".to_string()]).exec()
                    .expect("cargo metadata --offline on the scratch project").build_graph().unwrap();
                let root = package_graph.workspace().root().as_std_path().to_path_buf();
                let mut m = manifest();
                m.dependencies.insert("dep".to_string(), Dependency::Detailed(DependencyDetail { path: Some(root.join("dep").to_str().unwrap().to_owned()), ..Default::default() }));
                m.dependencies.insert("http".to_string(), Dependency::Simple("1".into()));
                GeneratedApp { lib_rs: quote::quote! { pub fn run() -> u8 { 1 } }, cargo_toml: m, package_graph }
            };
            // the package graph as computed BEFORE the first generation (`--precomputed-metadata`): reused by every later step
            let stale_graph_app = app();
            // (1) --check before anything was generated
            age_all(&project);
            let before = tree(&project);
            let mut w = AppWriter::check_mode();
            let r = app().persist(std::path::Path::new("server_sdk"), &mut w);
            let after_check = tree(&project).into_iter().filter(|(rel, _, _)| !rel.ends_with('/')).collect::<Vec<_>>();
            assert_eq!(after_check, before.iter().cloned().filter(|(rel, _, _)| !rel.ends_with('/')).collect::<Vec<_>>(), "{what}: --check created or modified a FILE before the first generation");
            if r.is_ok() { assert!(w.verify().is_err(), "{what}: --check exits 0 although nothing has been generated yet"); }
            let _ = std::fs::remove_dir_all(project.join("server_sdk"));
            // (2) a normal run
            let mut w = AppWriter::update_mode();
            app().persist(std::path::Path::new("server_sdk"), &mut w).unwrap();
            assert!(project.join("server_sdk/Cargo.toml").is_file() && project.join("server_sdk/src/lib.rs").is_file(), "{what}: the SDK was not written");
            let root_now = std::fs::read_to_string(project.join("Cargo.toml")).unwrap();
            assert!(root_now.contains("server_sdk"), "{what}: the generated crate was not added to the workspace members: {root_now}");
            age_all(&project);
            let first = tree(&project);
            // (3) --check right after: satisfied, and nothing is touched
            let mut w = AppWriter::check_mode();
            app().persist(std::path::Path::new("server_sdk"), &mut w).unwrap();
            assert!(w.verify().is_ok(), "{what}: --check fails right after a normal run");
            assert_eq!(tree(&project), first, "{what}: --check touched something");
            // (4) a second normal run on unchanged inputs
            let mut w = AppWriter::update_mode();
            app().persist(std::path::Path::new("server_sdk"), &mut w).unwrap();
            let second = tree(&project);
            for (a, b) in first.iter().zip(&second) { assert_eq!((&a.0, String::from_utf8_lossy(&a.1), a.2), (&b.0, String::from_utf8_lossy(&b.1), b.2), "{what}: re-running on unchanged inputs modified {}", a.0); }
            assert_eq!(first.len(), second.len(), "{what}: re-running on unchanged inputs created or removed files");
            // (5) the same again with the metadata that was computed before the SDK existed, and with a stray file in the SDK
            std::fs::write(project.join("server_sdk/src/notes_by_the_user.rs"), "// mine\n").unwrap();
            age_all(&project);
            let third = tree(&project);
            let mut w = AppWriter::check_mode();
            stale_graph_app.clone().persist(std::path::Path::new("server_sdk"), &mut w).unwrap();
            assert_eq!(tree(&project), third, "{what}: --check (precomputed metadata, stray file in src) touched something");
            assert!(w.verify().is_ok(), "{what}: --check (precomputed metadata) fails although a normal run changes nothing");
            let mut w = AppWriter::update_mode();
            stale_graph_app.clone().persist(std::path::Path::new("server_sdk"), &mut w).unwrap();
            let fourth = tree(&project);
            for (a, b) in third.iter().zip(&fourth) { assert_eq!((&a.0, String::from_utf8_lossy(&a.1), a.2), (&b.0, String::from_utf8_lossy(&b.1), b.2), "{what}: a run with precomputed metadata on unchanged inputs modified {}", a.0); }
            assert_eq!(third.len(), fourth.len(), "{what}: a run on unchanged inputs created or removed files");
            let _ = std::fs::remove_dir_all(project);
        }
        println!("VERIF-BOUNDED test=the_whole_persist_converges_and_check_mode_touches_nothing evaluations=3 bound=three root-manifest shapes (plain package, workspace without the sdk, workspace without members) x (check, run, check, run) on real scratch projects");
    }
}
