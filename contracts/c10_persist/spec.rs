// C10 spec (see prelude): checksums of the two sides
/// the writer's mode agrees with the run: check mode <=> nothing may be written
pub open spec fn writer_wf(w: &AppWriter) -> bool { (w.mode is Update) == writes_allowed() }
pub open spec fn outdated_ids(w: &AppWriter) -> Set<int> {
    match w.mode { WriterMode::CheckOnly { outdated } => set_ids(&outdated), WriterMode::Update => Set::<int>::empty() }
}
/// ASSUMED contracts of two toml-massaging helpers of GeneratedApp (persist_manifest is extracted and proved)
impl GeneratedApp {
    #[verifier::external_body]
    pub fn normalize_path_dependencies(cargo_toml: &mut GeneratedManifest, pkg_directory: &Path) -> (r: Result<(), AnyhowError>) { unimplemented!() }
    #[verifier::external_body]
    pub fn inject_app_into_workspace_members(workspace: &Workspace<'_>, generated_crate_directory: &Path, writer: &mut AppWriter) -> (r: Result<(), AnyhowError>)
        requires writer_wf(old(writer)),
        ensures writer_wf(final(writer)), (final(writer).mode is Update) == (old(writer).mode is Update),
            old(writer).mode is CheckOnly ==> outdated_ids(old(writer)).subset_of(outdated_ids(final(writer)))
    { unimplemented!() }
}
