// C10 spec (see prelude): checksums of the two sides
/// compute_file_checksum / compute_buffer_checksum: SHA-256 of the bytes, as a hex string (not extracted:
/// sha2 + BufReader; their contract is ASSUMED)
#[verifier::external_body]
pub fn compute_file_checksum(file: File) -> (r: Result<String, IoError>)
    // ASSUMED: no transient I/O failure while reading a file that was just opened
    ensures r matches Ok(s) && s@ == sha256_hex(fs_content(file.id@))
{ unimplemented!() }
#[verifier::external_body]
pub fn compute_buffer_checksum(buffer: &[u8]) -> (r: String)
    ensures r@ == sha256_hex(buffer@)
{ unimplemented!() }
/// the writer's mode agrees with the run: check mode <=> nothing may be written
pub open spec fn writer_wf(w: &AppWriter) -> bool { (w.mode is Update) == writes_allowed() }
pub open spec fn outdated_ids(w: &AppWriter) -> Set<int> {
    match w.mode { WriterMode::CheckOnly { outdated } => set_ids(&outdated), WriterMode::Update => Set::<int>::empty() }
}
