// ======================================================================================
// C10 prelude — the file system as a READ-ONLY SNAPSHOT plus PROTOCOL PRECONDITIONS on every primitive that
// modifies it (DESIGN §3/C10).  `writes_allowed()` is a ghost constant of the run: false under `--check`.
//   * every modifying primitive requires writes_allowed()            ("--check never modifies a file")
//   * the byte-writing primitive requires that the bytes differ from what the snapshot holds
//                                                                      ("re-running on unchanged inputs modifies no file")
// ======================================================================================
use vstd::std_specs::convert::FromSpecImpl;
use vstd::std_specs::cmp::PartialEqSpecImpl;
pub assume_specification<T>[<T as From<T>>::from](t: T) -> (r: T) ensures r == t;
#[verifier::allow(undeclared_external_trait)]
pub assume_specification<T, E>[Result::<T, E>::unwrap_or](res: Result<T, E>, default: T) -> (r: T)
    where E: core::marker::Destruct, T: core::marker::Destruct
    ensures r == (match res { Ok(t) => t, Err(_) => default });

pub uninterp spec fn writes_allowed() -> bool;

// ---- paths --------------------------------------------------------------------------------------------
/// std::path::PathBuf; `Path` (always used behind `&`) is the same stand-in, so `&PathBuf` is a `&Path` as in std (Deref)
#[verifier::external_body] pub struct PathBuf { _p: u8 }
pub type Path = PathBuf;
/// identity of the file a path denotes
pub uninterp spec fn path_id(p: &PathBuf) -> int;
pub open spec fn pathbuf_id(p: &PathBuf) -> int { path_id(p) }
pub uninterp spec fn joined<A>(p: int, s: A) -> int;
/// `impl AsRef<Path>` arguments that denote a file
pub trait PathRef: Sized { spec fn pid(&self) -> int; }
impl PathRef for &PathBuf { open spec fn pid(&self) -> int { path_id(*self) } }
impl PathRef for PathBuf { open spec fn pid(&self) -> int { path_id(self) } }
/// things a path can be joined with (`impl AsRef<Path>`)
pub trait PathArg: Sized {}
impl PathArg for &str {}
impl PathArg for &PathBuf {}
impl PathArg for String {}
impl PathBuf {
    #[verifier::external_body] pub fn to_path_buf(&self) -> (r: PathBuf) ensures path_id(&r) == path_id(self) { unimplemented!() }
    #[verifier::external_body] pub fn join<A: PathArg>(&self, s: A) -> (r: PathBuf) ensures path_id(&r) == joined(path_id(self), s) { unimplemented!() }
    #[verifier::external_body] pub fn is_relative(&self) -> (r: bool) { unimplemented!() }
    #[verifier::external_body] pub fn exists(&self) -> (r: bool) { unimplemented!() }
    #[verifier::external_body] pub fn is_file(&self) -> (r: bool) ensures r ==> fs_readable(path_id(self)) { unimplemented!() }
}

// ---- the snapshot -------------------------------------------------------------------------------------
/// can the file be opened for reading / what it holds (the state of the disk when the run starts)
pub uninterp spec fn fs_readable(p: int) -> bool;
pub uninterp spec fn fs_content(p: int) -> Seq<u8>;
/// "the file already holds exactly these bytes"
pub open spec fn up_to_date(p: int, bytes: Seq<u8>) -> bool { fs_readable(p) && fs_content(p) == bytes }

// ---- errors ---------------------------------------------------------------------------------------------
#[verifier::external_body] pub struct AnyhowError { _p: u8 }
#[derive(PartialEq, Eq)]
pub enum ErrorKind { NotFound, PermissionDenied, Other }
impl PartialEqSpecImpl for ErrorKind {
    open spec fn obeys_eq_spec() -> bool { true }
    open spec fn eq_spec(&self, o: &ErrorKind) -> bool { *self == *o }
}
#[verifier::external_body] pub struct IoError { _p: u8 }
pub uninterp spec fn io_kind(e: &IoError) -> ErrorKind;
impl IoError { #[verifier::external_body] pub fn kind(&self) -> (r: ErrorKind) ensures r == io_kind(self) { unimplemented!() } }
pub uninterp spec fn anyhow_of_io(e: IoError) -> AnyhowError;
impl FromSpecImpl<IoError> for AnyhowError {
    open spec fn obeys_from_spec() -> bool { true }
    open spec fn from_spec(e: IoError) -> Self { anyhow_of_io(e) }
}
impl From<IoError> for AnyhowError { #[verifier::external_body] fn from(e: IoError) -> (r: Self) { unimplemented!() } }

// ---- fs_err ------------------------------------------------------------------------------------------------
pub struct Metadata { pub len: u64 }
impl Metadata { pub fn len(&self) -> (r: u64) ensures r == self.len { self.len } }
/// an open file: which file, and whether it was opened for writing
pub struct File { pub id: Ghost<int>, pub for_write: Ghost<bool>, pub truncated: Ghost<bool> }
impl File {
    /// fs_err::File::open — read-only. Ok iff readable; NotFound is one way of not being readable.
    #[verifier::external_body]
    pub fn open(path: &Path) -> (r: Result<File, IoError>)
        ensures match r { Ok(f) => fs_readable(path_id(path)) && f.id@ == path_id(path) && !f.for_write@, Err(_) => !fs_readable(path_id(path)) }
    { unimplemented!() }
    #[verifier::external_body]
    pub fn metadata(&self) -> (r: Result<Metadata, IoError>)
        // ASSUMED: no transient I/O failure on a file that was just opened
        ensures r matches Ok(m) && m.len as int == fs_content(self.id@).len()
    { unimplemented!() }
    /// std::io::Write::write_all on a file opened for writing: THE byte-writing primitive
    #[verifier::external_body]
    pub fn write_all(&mut self, content: &[u8]) -> (r: Result<(), IoError>)
        requires
            old(self).for_write@,
            // a byte write must start from an empty file, else a stale tail of the old content survives it
            old(self).truncated@,
            writes_allowed(),
            !up_to_date(old(self).id@, content@),
    { unimplemented!() }
}
pub mod fs_err {
    use super::*;
    pub struct OpenOptions { pub write: bool, pub truncate: bool, pub create: bool, pub read: bool }
    impl OpenOptions {
        pub fn new() -> (r: Self) ensures !r.write && !r.truncate && !r.create && !r.read { OpenOptions { write: false, truncate: false, create: false, read: false } }
        pub fn write(self, b: bool) -> (r: Self) ensures r == (OpenOptions { write: b, ..self }) { OpenOptions { write: b, ..self } }
        pub fn truncate(self, b: bool) -> (r: Self) ensures r == (OpenOptions { truncate: b, ..self }) { OpenOptions { truncate: b, ..self } }
        pub fn create(self, b: bool) -> (r: Self) ensures r == (OpenOptions { create: b, ..self }) { OpenOptions { create: b, ..self } }
        pub fn read(self, b: bool) -> (r: Self) ensures r == (OpenOptions { read: b, ..self }) { OpenOptions { read: b, ..self } }
        /// opening with write/truncate/create set modifies the file system (creates or truncates the file)
        #[verifier::external_body]
        pub fn open<A: PathRef>(&self, path: A) -> (r: Result<File, IoError>)
            requires (self.write || self.truncate || self.create) ==> writes_allowed(),
            ensures r matches Ok(f) ==> f.id@ == path.pid() && f.for_write@ == self.write && f.truncated@ == self.truncate
        { unimplemented!() }
    }
    /// fs_err::write / std::fs::write: create-or-truncate and write — a modifying primitive
    pub trait Bytes: Sized {}
    impl Bytes for String {}
    impl Bytes for &str {}
    impl Bytes for &[u8] {}
    impl Bytes for Vec<u8> {}
    #[verifier::external_body]
    pub fn write<A: PathRef, C: Bytes>(path: A, contents: C) -> (r: Result<(), IoError>)
        requires writes_allowed()
    { unimplemented!() }
    #[verifier::external_body]
    pub fn remove_file<A: PathRef>(path: A) -> (r: Result<(), IoError>)
        requires writes_allowed()
    { unimplemented!() }
    /// `fs_err::metadata(path)` / `fs_err::symlink_metadata(path)` (API neighbourhood, not called by the unchanged code):
    /// a size reported for a PATH says nothing here about the content behind it (the path may be a symbolic link)
    #[verifier::external_body] pub fn metadata<A: PathRef>(path: A) -> (r: Result<Metadata, IoError>) { unimplemented!() }
    #[verifier::external_body] pub fn symlink_metadata<A: PathRef>(path: A) -> (r: Result<Metadata, IoError>) { unimplemented!() }
    /// fs_err::copy overwrites the destination
    #[verifier::external_body]
    pub fn copy(from: &Path, to: &Path) -> (r: Result<u64, IoError>)
        requires writes_allowed(), !(fs_readable(path_id(from)) && up_to_date(path_id(to), fs_content(path_id(from))))
    { unimplemented!() }
}

// ---- SHA-256 as hex strings ------------------------------------------------------------------------------
pub uninterp spec fn sha256_hex(b: Seq<u8>) -> Seq<char>;
/// ASSUMED: no SHA-256 collision between two inputs this program ever compares
pub broadcast axiom fn sha256_injective(a: Seq<u8>, b: Seq<u8>)
    ensures #[trigger] sha256_hex(a) == #[trigger] sha256_hex(b) ==> a == b;

// ---- indexmap::IndexSet<PathBuf> (insertion-ordered set), by the ids of the paths it holds ------------
/// stand-in: the elements in insertion order; `set_ids` is the set of files they denote
pub struct IndexSet<T> { pub v: Vec<T> }
pub uninterp spec fn set_ids(s: &IndexSet<PathBuf>) -> Set<int>;
impl IndexSet<PathBuf> {
    #[verifier::external_body]
    pub fn insert(&mut self, p: PathBuf) -> (r: bool)
        ensures set_ids(final(self)) == set_ids(old(self)).insert(pathbuf_id(&p))
    { unimplemented!() }
    #[verifier::external_body]
    pub fn is_empty(&self) -> (r: bool) ensures r == (set_ids(self) =~= Set::<int>::empty()) { unimplemented!() }
    /// `for o in &index_set` is `for o in index_set.iter()` (indexmap's IntoIterator for &IndexSet)
    pub fn iter(&self) -> (r: std::slice::Iter<'_, PathBuf>) { self.v.iter() }
}
impl Default for IndexSet<PathBuf> {
    /// indexmap: the default set is empty
    #[verifier::external_body] fn default() -> (r: Self) ensures set_ids(&r) =~= Set::<int>::empty() { unimplemented!() }
}

// ---- diagnostics plumbing of AppWriter::verify (values are irrelevant to C10; only Ok/Err is) ---------------
#[verifier::external_body] pub struct MietteError { _p: u8 }
#[verifier::external_body] pub struct CompilerDiagnostic { _p: u8 }
#[verifier::external_body] pub struct CompilerDiagnosticBuilder { _p: u8 }
impl CompilerDiagnostic { #[verifier::external_body] pub fn builder(e: AnyhowError) -> (r: CompilerDiagnosticBuilder) { unimplemented!() } }
impl CompilerDiagnosticBuilder {
    #[verifier::external_body] pub fn help(self, s: String) -> (r: Self) { unimplemented!() }
    #[verifier::external_body] pub fn build(self) -> (r: CompilerDiagnostic) { unimplemented!() }
}
impl From<CompilerDiagnostic> for MietteError { #[verifier::external_body] fn from(d: CompilerDiagnostic) -> (r: Self) { unimplemented!() } }
/// `anyhow::anyhow!("`{}` is not up-to-date.", o.display())`
#[verifier::external_body] pub fn anyhow_outdated(p: &PathBuf) -> (r: AnyhowError) { unimplemented!() }
#[verifier::external_body] pub fn help_text() -> (r: String) { unimplemented!() }

// ---- AppDiagnostics::persist_flat: Vec<u8> as std::io::Write ------------------------------------------
pub trait WriteAll { fn write_all(&mut self, b: &[u8]) -> (r: Result<(), IoError>); }
impl WriteAll for Vec<u8> {
    /// std: `impl Write for Vec<u8>` appends and never fails
    #[verifier::external_body]
    fn write_all(&mut self, b: &[u8]) -> (r: Result<(), IoError>)
        ensures r is Ok, final(self)@ == old(self)@ + b@
    { unimplemented!() }
}
/// UTF-8 bytes of a string (uninterpreted)
pub uninterp spec fn utf8(s: Seq<char>) -> Seq<u8>;
pub assume_specification[String::as_bytes](s: &String) -> (r: &[u8]) ensures r@ == utf8(s@);

// ---- GeneratedApp::persist: guppy / toml / syn / prettyplease are pure term builders here ---------------
#[verifier::external_body] pub struct TokenStream { _p: u8 }
#[verifier::external_body] pub struct PackageGraph { _p: u8 }
#[verifier::external_body] pub struct Workspace<'g> { _p: &'g u8 }
#[verifier::external_body] pub struct Utf8Path { _p: u8 }
#[verifier::external_body] pub struct SynFile { _p: u8 }
#[verifier::external_body] pub struct SynError { _p: u8 }
impl From<SynError> for AnyhowError { #[verifier::external_body] fn from(e: SynError) -> (r: Self) { unimplemented!() } }
impl PackageGraph { #[verifier::external_body] pub fn workspace(&self) -> (r: Workspace<'_>) { unimplemented!() } }
impl<'g> Workspace<'g> { #[verifier::external_body] pub fn root(&self) -> (r: &'g Utf8Path) { unimplemented!() } }
impl Utf8Path { #[verifier::external_body] pub fn as_std_path(&self) -> (r: &Path) { unimplemented!() } }
pub mod syn { use super::*; #[verifier::external_body] pub fn parse2(t: TokenStream) -> (r: Result<SynFile, SynError>) { unimplemented!() } }
pub mod prettyplease { use super::*; #[verifier::external_body] pub fn unparse(f: &SynFile) -> (r: String) { unimplemented!() } }
/// fs_err::create_dir_all: creating a directory is not counted as "modifying a file" (see unit.json/not_decided)
pub mod fs_err_dirs { use super::*;
    #[verifier::external_body] pub fn create_dir_all(p: &PathBuf) -> (r: Result<(), IoError>) { unimplemented!() }
}
/// `GeneratedManifest`, `normalize_path_dependencies`, `persist_manifest`, `inject_app_into_workspace_members`:
/// toml_edit manipulation.  ASSUMED contracts (not extracted — toml_edit indexing/iterators): they touch the file system
/// only through `fs_err::read_to_string` and the writer they are handed.
#[verifier::external_body] pub struct GeneratedManifest { _p: u8 }

// ---- pavexc_cli::generate: the compiler proper is an opaque oracle; only the persistence glue is decided ----------
// (rustdoc caches, `cargo rustdoc` output and the terminal are not among the files the property speaks about)
#[verifier::external_body] pub struct Color { _p: u8 }
pub struct Blueprint { pub creation_location: Location }
pub struct Location { pub file: String }
#[verifier::external_body] pub struct RonError { _p: u8 }
impl From<RonError> for AnyhowError { #[verifier::external_body] fn from(e: RonError) -> (r: Self) { unimplemented!() } }
pub mod ron { pub mod de { use super::super::*;
    #[verifier::external_body] pub fn from_reader(f: &File) -> (r: Result<Blueprint, RonError>) { unimplemented!() } } }
#[verifier::external_body] pub struct DiagnosticReporter { _p: u8 }
/// miette::Report is miette::Error
pub type Report = MietteError;
#[derive(PartialEq, Eq)] pub enum Severity { Advice, Warning, Error }
impl PartialEqSpecImpl for Severity { open spec fn obeys_eq_spec() -> bool { true } open spec fn eq_spec(&self, o: &Severity) -> bool { *self == *o } }
pub uninterp spec fn report_severity(r: &Report) -> Option<Severity>;
impl Report { #[verifier::external_body] pub fn severity(&self) -> (r: Option<Severity>) ensures r == report_severity(self) { unimplemented!() } }
impl DiagnosticReporter {
    #[verifier::external_body] pub fn new() -> (r: Self) { unimplemented!() }
    #[verifier::external_body] pub fn print_report(&mut self, e: &Report) { unimplemented!() }
}
#[verifier::external_body] pub struct DiagnosticSink { _p: u8 }
pub uninterp spec fn sink_reports(s: &DiagnosticSink) -> Seq<Report>;
impl DiagnosticSink {
    #[verifier::external_body] pub fn new(g: PackageGraph) -> (r: Self) { unimplemented!() }
    #[verifier::external_body] pub fn drain(&self) -> (r: Vec<Report>) ensures r@ == sink_reports(self) { unimplemented!() }
}
impl Clone for DiagnosticSink { #[verifier::external_body] fn clone(&self) -> (r: Self) { unimplemented!() } }
impl Clone for PackageGraph { #[verifier::external_body] fn clone(&self) -> (r: Self) { unimplemented!() } }
pub mod package_graph { use super::*;
    #[verifier::external_body] pub fn retrieve_or_compute_package_graph(p: Option<PathBuf>) -> (r: Result<PackageGraph, AnyhowError>) { unimplemented!() } }
#[verifier::external_body] pub struct CrateCollection { _p: u8 }
impl CrateCollection {
    #[verifier::external_body]
    pub fn new_pavex(toolchain: String, g: PackageGraph, f: String, cache: bool, sink: DiagnosticSink) -> (r: Result<Self, AnyhowError>) { unimplemented!() }
}
/// C09 "fails atomically": ghost constants of one `pavexc generate` run — did the analysis accept the blueprint, did code
/// generation succeed. The SDK may be touched only when both hold (protocol precondition of GeneratedApp::persist).
pub uninterp spec fn analysis_accepted() -> bool;
pub uninterp spec fn codegen_succeeded() -> bool;
pub open spec fn sdk_may_be_written() -> bool { analysis_accepted() && codegen_succeeded() }
#[verifier::external_body] pub struct App { _p: u8 }
impl App {
    /// pavexc::App::build: on success the sink holds warnings only (that is what `generate` asserts)
    #[verifier::external_body]
    pub fn build(bp: Blueprint, c: CrateCollection, sink: DiagnosticSink) -> (r: Result<(App, DiagnosticSink), DiagnosticSink>)
        ensures r matches Ok(p) ==> forall |i: int| 0 <= i < sink_reports(&p.1).len() ==> report_severity(&#[trigger] sink_reports(&p.1)[i]) == Some(Severity::Warning),
            // C09: the verdict of the analysis is a ghost constant of the run (App::build is the compiler proper: an oracle here)
            (r is Ok) == analysis_accepted(),
    { unimplemented!() }
    #[verifier::external_body] pub fn diagnostic_representation(&self) -> (r: AppDiagnostics) { unimplemented!() }
    #[verifier::external_body] pub fn codegen(&self) -> (r: Result<GeneratedApp, AnyhowError>) ensures (r is Ok) == codegen_succeeded() { unimplemented!() }
}
/// anyhow::Context on Result<T, anyhow::Error>
pub trait Context<T> { fn context(self, msg: &str) -> Result<T, AnyhowError>; }
impl<T> Context<T> for Result<T, AnyhowError> {
    #[verifier::external_body]
    fn context(self, msg: &str) -> (r: Result<T, AnyhowError>) ensures (r is Ok) == (self is Ok), self matches Ok(t) ==> r == Ok::<T, AnyhowError>(t) { unimplemented!() }
}
/// std::process::ExitCode
#[derive(PartialEq, Eq)] pub struct ExitCode { pub code: u8 }
impl ExitCode { pub const SUCCESS: ExitCode = ExitCode { code: 0 }; pub const FAILURE: ExitCode = ExitCode { code: 1 }; }


// ---- sha2 + std::io::BufReader, for the two checksum helpers (now extracted, not assumed) -----------------
pub mod sha2 { use super::*;
    /// a running SHA-256: `absorbed` is everything fed to it so far
    pub struct Sha256 { pub absorbed: Ghost<Seq<u8>> }
    pub struct Digest { pub of: Ghost<Seq<u8>> }
    impl Sha256 {
        #[verifier::external_body] pub fn new() -> (r: Self) ensures r.absorbed@ == Seq::<u8>::empty() { unimplemented!() }
        #[verifier::external_body] pub fn update(&mut self, data: &[u8]) ensures final(self).absorbed@ == old(self).absorbed@ + data@ { unimplemented!() }
        #[verifier::external_body] pub fn finalize(self) -> (r: Digest) ensures r.of@ == self.absorbed@ { unimplemented!() }
    }
}
/// `format!("{result:x}")` of a digest: its lower-case hex string
#[verifier::external_body] pub fn digest_hex(d: &sha2::Digest) -> (r: String) ensures r@ == sha256_hex(d.of@) { unimplemented!() }
/// std::io::BufReader<fs_err::File> read sequentially: `pos` bytes consumed so far
pub struct BufReader { pub id: Ghost<int>, pub pos: Ghost<int> }
impl BufReader {
    #[verifier::external_body]
    pub fn new(file: File) -> (r: Self) ensures r.id@ == file.id@, r.pos@ == 0 { unimplemented!() }
    /// std::io::Read::read: copies the next n <= buf.len() bytes; Ok(0) on a non-empty buffer means end of file.
    /// ASSUMED: no transient I/O failure while reading a file that was just opened.
    #[verifier::external_body]
    pub fn read(&mut self, buf: &mut [u8; 8192]) -> (r: Result<usize, IoError>)
        requires 0 <= old(self).pos@ <= fs_content(old(self).id@).len(),
        ensures
            final(self).id@ == old(self).id@,
            r matches Ok(n) && n <= 8192
              && final(self).pos@ == old(self).pos@ + n
              && final(self).pos@ <= fs_content(old(self).id@).len()
              && final(buf)@.subrange(0, n as int) == fs_content(old(self).id@).subrange(old(self).pos@, old(self).pos@ + n)
              && ((n == 0) == (old(self).pos@ == fs_content(old(self).id@).len())),
    { unimplemented!() }
}
/// `&buffer[..n]`
#[verifier::external_body]
pub fn prefix_of(buf: &[u8; 8192], n: usize) -> (r: &[u8]) requires n <= 8192 ensures r@ == buf@.subrange(0, n as int) { unimplemented!() }

// ---- toml_edit, for GeneratedApp::persist_manifest (pure document manipulation) ---------------------------
pub mod toml_edit { use super::*;
    #[verifier::external_body] pub struct DocumentMut { _p: u8 }
    #[verifier::external_body] pub struct Item { _p: u8 }
    #[verifier::external_body] pub struct Table { _p: u8 }
    #[verifier::external_body] pub struct TomlError { _p: u8 }
    impl DocumentMut {
        #[verifier::external_body] pub fn new() -> (r: Self) { unimplemented!() }
        #[verifier::external_body] pub fn as_table_mut(&mut self) -> (r: &mut Table) { unimplemented!() }
        /// Display for DocumentMut
        #[verifier::external_body] pub fn to_string(&self) -> (r: String) { unimplemented!() }
    }
    impl Table { #[verifier::external_body] pub fn insert(&mut self, k: &str, v: Item) -> (r: Option<Item>) { unimplemented!() } }
    #[verifier::external_body] pub fn table() -> (r: Item) { unimplemented!() }
    #[verifier::external_body] pub fn value(s: &str) -> (r: Item) { unimplemented!() }
    impl core::ops::Index<&str> for Item { type Output = Item; #[verifier::external_body] fn index(&self, k: &str) -> &Item { unimplemented!() } }
    impl core::ops::IndexMut<&str> for Item { #[verifier::external_body] fn index_mut(&mut self, k: &str) -> &mut Item { unimplemented!() } }
    impl vstd::std_specs::core::IndexSpecImpl<&str> for Item { open spec fn index_req(&self, k: &&str) -> bool { true } }
    impl core::str::FromStr for DocumentMut { type Err = TomlError; #[verifier::external_body] fn from_str(s: &str) -> (r: Result<Self, TomlError>) { unimplemented!() } }
    impl From<TomlError> for AnyhowError { #[verifier::external_body] fn from(e: TomlError) -> (r: Self) { unimplemented!() } }
}
#[verifier::external_trait_specification]
pub trait ExFromStr: Sized { type ExternalTraitSpecificationFor: core::str::FromStr; type Err; }
pub assume_specification<F: core::str::FromStr>[str::parse::<F>](s: &str) -> (r: Result<F, <F as core::str::FromStr>::Err>);
/// fs_err::read_to_string: read-only
pub mod fs_err_read { use super::*;
    #[verifier::external_body] pub fn read_to_string(p: &PathBuf) -> (r: Result<String, IoError>) { unimplemented!() }
}
impl GeneratedManifest {
    /// sets dependencies and edition of a TOML document in memory (iterator adapters + serde: ASSUMED pure)
    #[verifier::external_body] pub fn overwrite(&self, m: &mut toml_edit::DocumentMut) { unimplemented!() }
}
