#[cfg(test)]
mod verif_witness_app_state {
    //! Bounded probe (labelled bounded) of ONE place where the determinism clause of C10 is decided by hand-written
    //! ordering code: the fields of the `ApplicationState` initializer (they drive the parameter order of the generated
    //! `ApplicationState::new`, the field order of its struct literal and the `app_state` diagnostics graph) must not
    //! depend on the hash seed of the map that holds the bindings. Every `assign_field_names` call builds a fresh
    //! hash map, i.e. a new seed — what happens across `pavexc` processes.
    use super::*;

    fn singleton_type(krate: &str, name: &str) -> Type {
        Type::Path(crate::language::PathType {
            package_id: PackageId::new(format!("{krate} 0.1.0 (path+file:///{krate})")),
            rustdoc_id: None,
            base_type: vec![krate.into(), name.into()],
            generic_arguments: vec![],
        })
    }
    fn state(names: &[(&str, &str)]) -> ApplicationState {
        let type2id: IndexSet<(Type, ComponentId)> = names.iter().enumerate()
            .map(|(i, (k, n))| (singleton_type(k, n), ComponentId::from_raw(la_arena::RawIdx::from(i as u32)))).collect();
        let bindings = ApplicationState::assign_field_names(&type2id);
        ApplicationState { type2id, bindings }
    }
    fn fields(s: &ApplicationState) -> Vec<String> {
        let Callable::StructLiteralInit(init) = s.initializer() else { panic!("the initializer must be a struct literal") };
        init.fields.iter().map(|f| f.name.as_str().to_owned()).collect()
    }
    #[test]
    fn the_application_state_initializer_does_not_depend_on_the_hash_seed() {
        let sets: [&[(&str, &str)]; 3] = [
            &[("app", "Zebra"), ("app", "HttpClient"), ("app", "DbPool"), ("app", "Mailer"), ("app", "Cache"), ("app", "TokenSigner"), ("app", "AuditLog"), ("app", "Metrics"), ("app", "RateLimiter"), ("app", "Queue"), ("app", "Clock")],
            &[("app", "Config"), ("dep", "Config"), ("app", "Pool")],
            &[("app", "B"), ("app", "A")],
        ];
        let mut runs = 0;
        for set in sets {
            let reference = fields(&state(set));
            assert_eq!(reference.len(), set.len());
            for run in 0..24 {
                runs += 1;
                assert_eq!(fields(&state(set)), reference, "run #{run}: the fields of `ApplicationState` come in another order for the same singletons (hash-seed dependent output)");
            }
        }
        println!("VERIF-BOUNDED test=the_application_state_initializer_does_not_depend_on_the_hash_seed evaluations={runs} bound=3 sets of runtime singletons (11, 3 with a name clash, 2) x 24 fresh hash seeds each; one function of the determinism clause only");
    }
}
