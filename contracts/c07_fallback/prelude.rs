// ======================================================================================
// C07 prelude — the run-time half of "the path matches but no method does": http as stand-ins.
// Which handler a request reaches is decided by GENERATED code (the matchit router emitted by pavexc): not within reach.
// ======================================================================================
#[verifier::external_body] pub struct HeaderValue { _p: u8 }
pub uninterp spec fn header_text(h: &HeaderValue) -> Seq<char>;
impl HeaderValue {
    /// API neighbourhood (not called by the unchanged code)
    #[verifier::external_body] pub fn from_static(s: &'static str) -> (r: HeaderValue) ensures header_text(&r) == s@ { unimplemented!() }
}
#[verifier::external_body] pub struct HeaderName { _p: u8 }
#[verifier::external_body] pub const fn allow_header() -> HeaderName { unimplemented!() }
/// pavex::Response: status code + the Allow header, if any (nothing else is this unit's business)
pub struct Response { pub status: u16, pub allow: Option<HeaderValue> }
impl Response {
    pub fn method_not_allowed() -> (r: Response) ensures r.status == 405 && r.allow is None { Response { status: 405, allow: None } }
    pub fn not_found() -> (r: Response) ensures r.status == 404 && r.allow is None { Response { status: 404, allow: None } }
    /// the only header this unit inserts is Allow
    pub fn insert_header(self, n: HeaderName, v: HeaderValue) -> (r: Response) ensures r.status == self.status && r.allow == Some(v) { Response { status: self.status, allow: Some(v) } }
}
/// MethodAllowList: the methods registered for the matched path, in registration order
#[verifier::external_body] pub struct MethodAllowList { _p: u8 }
pub uninterp spec fn method_names(l: &MethodAllowList) -> Seq<Seq<char>>;
/// the names joined by "," — what an Allow header lists
pub uninterp spec fn comma_joined(names: Seq<Seq<char>>) -> Seq<char>;
impl MethodAllowList {
    /// ASSUMED here, checked by the bounded native stand-in (witness.rs): the body (`join` over `iter().map(..)` with an FnMut
    /// `for_each`, `write!`) is outside what Verus accepts.
    #[verifier::external_body]
    pub fn allow_header_value(&self) -> (r: Option<HeaderValue>)
        ensures match r { None => method_names(self).len() == 0, Some(h) => method_names(self).len() > 0 && header_text(&h) == comma_joined(method_names(self)) }
    { unimplemented!() }
}
