#[cfg(test)]
mod verif_witness_c07 {
    //! Bounded stand-in for the assumed contract of MethodAllowList::allow_header_value and probe of the real default_fallback:
    //! every list of up to 4 distinct methods out of the 9 standard ones plus two extension methods, in every order.
    use super::{AllowedMethods, MethodAllowList};
    use crate::http::Method;
    use crate::router::default_fallback;

    fn block_on<F: std::future::Future>(f: F) -> F::Output {
        tokio::runtime::Builder::new_current_thread().build().unwrap().block_on(f)
    }
    #[test]
    fn the_default_fallback_answers_405_with_exactly_the_registered_methods_or_404() {
        let all: Vec<Method> = vec![Method::GET, Method::POST, Method::PUT, Method::DELETE, Method::HEAD, Method::OPTIONS, Method::CONNECT, Method::PATCH, Method::TRACE,
            Method::from_bytes(b"PROPFIND").unwrap(), Method::from_bytes(b"M-SEARCH").unwrap()];
        let mut lists: Vec<Vec<Method>> = vec![vec![]];
        let mut frontier: Vec<Vec<Method>> = vec![vec![]];
        for _ in 0..4 {
            let mut next = Vec::new();
            for l in &frontier { for m in &all { if !l.contains(m) { let mut n = l.clone(); n.push(m.clone()); next.push(n); } } }
            lists.extend(next.iter().cloned()); frontier = next;
        }
        let n = lists.len();
        for methods in lists {
            let want: String = methods.iter().map(|m| m.as_str()).collect::<Vec<_>>().join(",");
            let list: MethodAllowList = methods.iter().cloned().collect();
            assert_eq!((list.len(), list.is_empty()), (methods.len(), methods.is_empty()));
            match list.allow_header_value() {
                None => assert!(methods.is_empty(), "no Allow value for {methods:?}"),
                Some(h) => { assert!(!methods.is_empty()); assert_eq!(h.to_str().unwrap(), want, "the Allow value must list exactly the registered methods, in order"); }
            }
            let r = block_on(default_fallback(&AllowedMethods::Some(list)));
            if methods.is_empty() {
                assert_eq!(r.status(), http::StatusCode::NOT_FOUND); assert!(r.headers().get(http::header::ALLOW).is_none());
            } else {
                assert_eq!(r.status(), http::StatusCode::METHOD_NOT_ALLOWED, "{methods:?}");
                let allow: Vec<_> = r.headers().get_all(http::header::ALLOW).iter().collect();
                assert_eq!(allow.len(), 1); assert_eq!(allow[0].to_str().unwrap(), want);
            }
        }
        let r = block_on(default_fallback(&AllowedMethods::All));
        assert_eq!(r.status(), http::StatusCode::NOT_FOUND); assert!(r.headers().get(http::header::ALLOW).is_none());
        println!("VERIF-BOUNDED test=the_default_fallback_answers_405_with_exactly_the_registered_methods_or_404 evaluations={n} bound=every ordered list of up to 4 distinct methods out of 11 (the 9 standard ones, PROPFIND, M-SEARCH), exhaustive");
    }
}
