// SessionStore is `Box<dyn SessionStorageBackend>`: every method must hand its arguments to the backend's method of the
// same name, unchanged, and return its answer unchanged.  The backend is an uninterpreted oracle with a history-free
// answer function per operation; the contract of each wrapper is "exactly one call of the like-named backend method on
// exactly these arguments".
pub struct SessionId(pub u128);
#[verifier::external_body] pub struct Duration { _p: u8 }
#[verifier::external_body] pub struct SessionRecordRef<'a> { _p: &'a u8 }
#[verifier::external_body] pub struct SessionRecord { _p: u8 }
#[verifier::external_body] pub struct NonZeroUsize { _p: u8 }
#[verifier::external_body] pub struct CreateError { _p: u8 }
#[verifier::external_body] pub struct UpdateError { _p: u8 }
#[verifier::external_body] pub struct UpdateTtlError { _p: u8 }
#[verifier::external_body] pub struct LoadError { _p: u8 }
#[verifier::external_body] pub struct DeleteError { _p: u8 }
#[verifier::external_body] pub struct ChangeIdError { _p: u8 }
#[verifier::external_body] pub struct DeleteExpiredError { _p: u8 }
/// the backend behind the handle (dyn SessionStorageBackend)
#[verifier::external_body] pub struct Backend { _p: u8 }
pub uninterp spec fn b_create(b: &Backend, id: SessionId, r: SessionRecordRef<'_>) -> Result<(), CreateError>;
pub uninterp spec fn b_update(b: &Backend, id: SessionId, r: SessionRecordRef<'_>) -> Result<(), UpdateError>;
pub uninterp spec fn b_update_ttl(b: &Backend, id: SessionId, ttl: Duration) -> Result<(), UpdateTtlError>;
pub uninterp spec fn b_load(b: &Backend, id: SessionId) -> Result<Option<SessionRecord>, LoadError>;
pub uninterp spec fn b_delete(b: &Backend, id: SessionId) -> Result<(), DeleteError>;
pub uninterp spec fn b_change_id(b: &Backend, old: SessionId, new: SessionId) -> Result<(), ChangeIdError>;
pub uninterp spec fn b_delete_expired(b: &Backend, n: Option<NonZeroUsize>) -> Result<usize, DeleteExpiredError>;
impl Backend {
    #[verifier::external_body] pub fn create(&self, id: &SessionId, record: SessionRecordRef<'_>) -> (r: Result<(), CreateError>) ensures r == b_create(self, *id, record) { unimplemented!() }
    #[verifier::external_body] pub fn update(&self, id: &SessionId, record: SessionRecordRef<'_>) -> (r: Result<(), UpdateError>) ensures r == b_update(self, *id, record) { unimplemented!() }
    #[verifier::external_body] pub fn update_ttl(&self, id: &SessionId, ttl: Duration) -> (r: Result<(), UpdateTtlError>) ensures r == b_update_ttl(self, *id, ttl) { unimplemented!() }
    #[verifier::external_body] pub fn load(&self, id: &SessionId) -> (r: Result<Option<SessionRecord>, LoadError>) ensures r == b_load(self, *id) { unimplemented!() }
    #[verifier::external_body] pub fn delete(&self, id: &SessionId) -> (r: Result<(), DeleteError>) ensures r == b_delete(self, *id) { unimplemented!() }
    #[verifier::external_body] pub fn change_id(&self, old_id: &SessionId, new_id: &SessionId) -> (r: Result<(), ChangeIdError>) ensures r == b_change_id(self, *old_id, *new_id) { unimplemented!() }
    #[verifier::external_body] pub fn delete_expired(&self, batch_size: Option<NonZeroUsize>) -> (r: Result<usize, DeleteExpiredError>) ensures r == b_delete_expired(self, batch_size) { unimplemented!() }
}
