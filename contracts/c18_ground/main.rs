fn main() {
    // the key that `load` hands to `Env::ignore` is exactly "PROFILE": PX_PROFILE is never a configuration key
    let stripped = PROFILE_ENV_VAR.strip_prefix(VERIF_LOCAL_prefix);
    println!("OB ground.px_profile_minus_prefix_is_PROFILE {} got={:?}", if stripped == Some("PROFILE") { "ok" } else { "FAIL" }, stripped);
    let names = PROFILE_ENV_VAR == "PX_PROFILE" && VERIF_LOCAL_prefix == "PX_";
    println!("OB ground.documented_names_PX_and_PX_PROFILE {} var={:?} prefix={:?}", if names { "ok" } else { "FAIL" }, PROFILE_ENV_VAR, VERIF_LOCAL_prefix);
}
