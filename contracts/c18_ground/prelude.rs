// C18-G: a closed term has no inputs to quantify over, so evaluation decides it.
#![allow(non_upper_case_globals, dead_code)]
