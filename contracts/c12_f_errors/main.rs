fn main() {
    let u = format!("{:?} {:#?}", UnknownIdError { id: SessionId::for_the_harness_only() }, UnknownIdError { id: SessionId::for_the_harness_only() });
    let d = format!("{:?} {:#?}", DuplicateIdError { id: SessionId::for_the_harness_only() }, DuplicateIdError { id: SessionId::for_the_harness_only() });
    // closed terms: the Debug output of either error is a constant
    println!("OB debug.unknown_id_error_prints_a_constant {} output={:?}", if u == "UnknownIdError UnknownIdError" { "ok" } else { "FAIL" }, u);
    println!("OB debug.duplicate_id_error_prints_a_constant {} output={:?}", if d == "DuplicateIdError DuplicateIdError" { "ok" } else { "FAIL" }, d);
}
