// C12-F (errors): reads-frame of the hand-written `Debug` impls of the error types that CARRY a session id
// (store::errors::UnknownIdError, DuplicateIdError).  The field `id` keeps its real name, but its type is OPAQUE here:
// no Debug, no Display, no accessor (the real `SessionId::inner()` is deliberately withheld).  A `fmt` body that
// formats the id, or anything derived from it, does not type-check — for all inputs.
#![allow(dead_code, unused)]
mod opaque {
    pub struct SessionId(());
    impl SessionId { pub(super) fn for_the_harness_only() -> Self { SessionId(()) } }
}
use opaque::SessionId;
