// C17 (binding) prelude: opaque leaves of the rustdoc_ir type tree, structural Clone, the bindings map
use core::marker::PhantomData;
#[verifier::external_body] pub struct PackageId { _p: u8 }
#[verifier::external_body] pub struct NamedLifetime { _p: u8 }
#[verifier::external_body] pub struct GenericLifetimeParameter { _p: u8 }
#[verifier::external_body] pub struct ConstGenericArgument { _p: u8 }
#[verifier::external_body] pub struct Abi { _p: u8 }
#[verifier::external_body] pub struct ScalarPrimitive { _p: u8 }
#[derive(Clone, Copy)] pub struct RustdocId { pub raw: u32 }
impl Clone for PackageId { #[verifier::external_body] fn clone(&self) -> (r: Self) ensures r == *self { unimplemented!() } }
impl Clone for NamedLifetime { #[verifier::external_body] fn clone(&self) -> (r: Self) ensures r == *self { unimplemented!() } }
impl Clone for GenericLifetimeParameter { #[verifier::external_body] fn clone(&self) -> (r: Self) ensures r == *self { unimplemented!() } }
impl Clone for ConstGenericArgument { #[verifier::external_body] fn clone(&self) -> (r: Self) ensures r == *self { unimplemented!() } }
impl Clone for Abi { #[verifier::external_body] fn clone(&self) -> (r: Self) ensures r == *self { unimplemented!() } }
impl Clone for ScalarPrimitive { #[verifier::external_body] fn clone(&self) -> (r: Self) ensures r == *self { unimplemented!() } }
impl Clone for Lifetime { #[verifier::external_body] fn clone(&self) -> (r: Self) ensures r == *self { unimplemented!() } }
impl Clone for GenericArgument { #[verifier::external_body] fn clone(&self) -> (r: Self) ensures r == *self { unimplemented!() } }
impl Clone for Type { #[verifier::external_body] fn clone(&self) -> (r: Self) ensures r == *self { unimplemented!() } }
impl Clone for Generic { #[verifier::external_body] fn clone(&self) -> (r: Self) ensures r == *self { unimplemented!() } }
#[verifier::external_body] pub struct BindingsMap { _p: u8 }
impl View for BindingsMap { type V = Map<Seq<char>, Type>; uninterp spec fn view(&self) -> Map<Seq<char>, Type>; }
impl BindingsMap {
    #[verifier::external_body] pub fn get(&self, k: &String) -> (r: Option<&Type>)
        ensures match r { Some(v) => self@.contains_key(k@) && *v == self@[k@], None => !self@.contains_key(k@) } { unimplemented!() }
}
pub assume_specification<T: Clone>[<T as std::borrow::ToOwned>::to_owned](t: &T) -> (r: T)
    ensures call_ensures(T::clone, (t,), r);
