// Native witness for the C17 binding sliver (appended to rustdoc/rustdoc_ir/src/type_.rs of the scratch copy): the real
// Type::bind_generic_type_parameters against a reference substitution written from the statement — bounded, but DEEP
// (every nested position), which the deductive part is not.
#[cfg(test)]
mod verif_witness_c17_bind {
    use super::*;
    use crate::{Array, FunctionPointer, FunctionPointerInput, Generic, RawPointer, ScalarPrimitive, Slice, Tuple, Lifetime, TypeReference, PathType, GenericArgument, GenericLifetimeParameter};
    struct Rng(u64);
    impl Rng { fn next(&mut self) -> u64 { self.0 ^= self.0 << 13; self.0 ^= self.0 >> 7; self.0 ^= self.0 << 17; self.0 } fn below(&mut self, n: usize) -> usize { (self.next() % n as u64) as usize } }
    const NAMES: [&str; 4] = ["T", "U", "V", "W"];

    fn gen_type(rng: &mut Rng, depth: usize) -> Type {
        let k = if depth == 0 { rng.below(2) } else { rng.below(10) };
        match k {
            0 => Type::ScalarPrimitive(if rng.below(2) == 0 { ScalarPrimitive::U8 } else { ScalarPrimitive::Bool }),
            1 => Type::Generic(Generic { name: NAMES[rng.below(NAMES.len())].to_string() }),
            2 => Type::Reference(TypeReference { is_mutable: rng.below(2) == 0, lifetime: if rng.below(2) == 0 { Lifetime::Static } else { Lifetime::Elided }, inner: Box::new(gen_type(rng, depth - 1)) }),
            3 => Type::Tuple(Tuple { elements: (0..rng.below(4)).map(|_| gen_type(rng, depth - 1)).collect() }),
            4 => Type::Slice(Slice { element_type: Box::new(gen_type(rng, depth - 1)) }),
            5 => Type::Array(Array { element_type: Box::new(gen_type(rng, depth - 1)), len: rng.below(9) }),
            6 => Type::RawPointer(RawPointer { is_mutable: rng.below(2) == 0, inner: Box::new(gen_type(rng, depth - 1)) }),
            7 | 8 => {
                let p = PathType {
                    package_id: guppy::PackageId::new("verif 0.1.0"), rustdoc_id: None,
                    base_type: vec!["verif".into(), format!("S{}", rng.below(3))],
                    generic_arguments: (0..rng.below(4)).map(|_| if rng.below(4) == 0 { GenericArgument::Lifetime(GenericLifetimeParameter::Static) } else { GenericArgument::TypeParameter(gen_type(rng, depth - 1)) }).collect(),
                };
                if k == 7 { Type::Path(p) } else { Type::TypeAlias(p) }
            }
            _ => Type::FunctionPointer(FunctionPointer {
                inputs: (0..rng.below(3)).map(|i| FunctionPointerInput { name: if i == 0 { Some("a".into()) } else { None }, type_: gen_type(rng, depth - 1) }).collect(),
                output: if rng.below(2) == 0 { Some(Box::new(gen_type(rng, depth - 1))) } else { None },
                abi: rustdoc_types::Abi::Rust, is_unsafe: rng.below(2) == 0,
            }),
        }
    }
    /// the statement: every generic parameter that has a binding is replaced by it (once), everything else is kept as it is
    fn model(t: &Type, b: &HashMap<String, Type>) -> Type {
        match t {
            Type::Generic(g) => b.get(&g.name).cloned().unwrap_or_else(|| t.clone()),
            Type::ScalarPrimitive(_) => t.clone(),
            Type::Reference(r) => Type::Reference(TypeReference { is_mutable: r.is_mutable, lifetime: r.lifetime.clone(), inner: Box::new(model(&r.inner, b)) }),
            Type::Tuple(x) => Type::Tuple(Tuple { elements: x.elements.iter().map(|e| model(e, b)).collect() }),
            Type::Slice(s) => Type::Slice(Slice { element_type: Box::new(model(&s.element_type, b)) }),
            Type::Array(a) => Type::Array(Array { element_type: Box::new(model(&a.element_type, b)), len: a.len }),
            Type::RawPointer(p) => Type::RawPointer(RawPointer { is_mutable: p.is_mutable, inner: Box::new(model(&p.inner, b)) }),
            Type::Path(p) | Type::TypeAlias(p) => {
                let q = PathType { package_id: p.package_id.clone(), rustdoc_id: p.rustdoc_id, base_type: p.base_type.clone(),
                    generic_arguments: p.generic_arguments.iter().map(|g| match g { GenericArgument::TypeParameter(x) => GenericArgument::TypeParameter(model(x, b)), other => other.clone() }).collect() };
                if matches!(t, Type::Path(_)) { Type::Path(q) } else { Type::TypeAlias(q) }
            }
            Type::FunctionPointer(f) => Type::FunctionPointer(FunctionPointer {
                inputs: f.inputs.iter().map(|i| FunctionPointerInput { name: i.name.clone(), type_: model(&i.type_, b) }).collect(),
                output: f.output.as_ref().map(|o| Box::new(model(o, b))), abi: f.abi.clone(), is_unsafe: f.is_unsafe }),
        }
    }
    #[test]
    fn binding_replaces_exactly_the_bound_parameters_at_every_depth_and_keeps_everything_else() {
        let thorough = std::env::var("VERIF_TIER").map(|t| t == "thorough").unwrap_or(false);
        let runs = if thorough { 300_000 } else { 20_000 };
        let mut rng = Rng(0x9E37_79B9_7F4A_7C15);
        for _ in 0..runs {
            let t = gen_type(&mut rng, 3);
            let mut b: HashMap<String, Type> = HashMap::new();
            for name in NAMES { if rng.below(2) == 0 { b.insert(name.to_string(), gen_type(&mut rng, 2)); } } // bindings may mention bound names themselves
            let got = t.bind_generic_type_parameters(&b);
            let want = model(&t, &b);
            assert!(got == want, "VERIF: bind({t:?}, {b:?})\n  = {got:?}\n  expected {want:?}");
        }
        println!("VERIF-BOUNDED test=binding_replaces_exactly_the_bound_parameters_at_every_depth_and_keeps_everything_else evaluations={runs} bound={runs} pseudo-random types of depth <= 3 over all ten kinds x bindings of up to 4 names (values may mention bound names)");
    }
}

// ---- the LAWS of the statement, bounded (property-based over the public API; never counted as proved) ----------------------
#[cfg(test)]
mod verif_witness_c17_laws {
    use super::*;
    use crate::{Array, FunctionPointer, FunctionPointerInput, Generic, RawPointer, ScalarPrimitive, Slice, Tuple, Lifetime, TypeReference, PathType, GenericArgument, GenericLifetimeParameter};
    struct Rng(u64);
    impl Rng { fn next(&mut self) -> u64 { self.0 ^= self.0 << 13; self.0 ^= self.0 >> 7; self.0 ^= self.0 << 17; self.0 } fn below(&mut self, n: usize) -> usize { (self.next() % n as u64) as usize } }
    const NAMES: [&str; 3] = ["T", "U", "V"];

    fn gen_type(rng: &mut Rng, depth: usize, generics: bool) -> Type {
        let k = if depth == 0 { rng.below(2) } else { rng.below(9) };
        match k {
            0 => Type::ScalarPrimitive(if rng.below(2) == 0 { ScalarPrimitive::U8 } else { ScalarPrimitive::Bool }),
            1 => if generics { Type::Generic(Generic { name: NAMES[rng.below(NAMES.len())].to_string() }) } else { Type::ScalarPrimitive(ScalarPrimitive::U16) },
            2 => Type::Reference(TypeReference { is_mutable: rng.below(2) == 0, lifetime: if rng.below(3) == 0 { Lifetime::Static } else { Lifetime::Elided }, inner: Box::new(gen_type(rng, depth - 1, generics)) }),
            3 => Type::Tuple(Tuple { elements: (0..rng.below(3)).map(|_| gen_type(rng, depth - 1, generics)).collect() }),
            4 => Type::Slice(Slice { element_type: Box::new(gen_type(rng, depth - 1, generics)) }),
            5 => Type::Array(Array { element_type: Box::new(gen_type(rng, depth - 1, generics)), len: rng.below(3) }),
            6 => Type::RawPointer(RawPointer { is_mutable: rng.below(2) == 0, inner: Box::new(gen_type(rng, depth - 1, generics)) }),
            _ => Type::Path(PathType { package_id: guppy::PackageId::new("verif 0.1.0"), rustdoc_id: None, base_type: vec!["verif".into(), format!("S{}", rng.below(2))],
                    generic_arguments: (0..rng.below(3)).map(|_| GenericArgument::TypeParameter(gen_type(rng, depth - 1, generics))).collect() }),
        }
    }
    /// a copy of `t` in which ONE reference (the `which`-th, in pre-order) has its mutability flipped; None if there are fewer
    fn flip_one_reference(t: &Type, which: &mut isize) -> Type {
        match t {
            Type::Reference(r) => {
                let here = *which == 0; *which -= 1;
                Type::Reference(TypeReference { is_mutable: if here { !r.is_mutable } else { r.is_mutable }, lifetime: r.lifetime.clone(), inner: Box::new(flip_one_reference(&r.inner, which)) })
            }
            Type::Tuple(x) => Type::Tuple(Tuple { elements: x.elements.iter().map(|e| flip_one_reference(e, which)).collect() }),
            Type::Slice(s) => Type::Slice(Slice { element_type: Box::new(flip_one_reference(&s.element_type, which)) }),
            Type::Array(a) => Type::Array(Array { element_type: Box::new(flip_one_reference(&a.element_type, which)), len: a.len }),
            Type::RawPointer(p) => Type::RawPointer(RawPointer { is_mutable: p.is_mutable, inner: Box::new(flip_one_reference(&p.inner, which)) }),
            Type::Path(p) => Type::Path(PathType { package_id: p.package_id.clone(), rustdoc_id: p.rustdoc_id, base_type: p.base_type.clone(),
                generic_arguments: p.generic_arguments.iter().map(|g| match g { GenericArgument::TypeParameter(x) => GenericArgument::TypeParameter(flip_one_reference(x, which)), o => o.clone() }).collect() }),
            other => other.clone(),
        }
    }
    fn rename(t: &Type, f: &dyn Fn(&str) -> String) -> Type {
        match t {
            Type::Generic(g) => Type::Generic(Generic { name: f(&g.name) }),
            Type::Reference(r) => Type::Reference(TypeReference { is_mutable: r.is_mutable, lifetime: r.lifetime.clone(), inner: Box::new(rename(&r.inner, f)) }),
            Type::Tuple(x) => Type::Tuple(Tuple { elements: x.elements.iter().map(|e| rename(e, f)).collect() }),
            Type::Slice(s) => Type::Slice(Slice { element_type: Box::new(rename(&s.element_type, f)) }),
            Type::Array(a) => Type::Array(Array { element_type: Box::new(rename(&a.element_type, f)), len: a.len }),
            Type::RawPointer(p) => Type::RawPointer(RawPointer { is_mutable: p.is_mutable, inner: Box::new(rename(&p.inner, f)) }),
            Type::Path(p) => Type::Path(PathType { package_id: p.package_id.clone(), rustdoc_id: p.rustdoc_id, base_type: p.base_type.clone(),
                generic_arguments: p.generic_arguments.iter().map(|g| match g { GenericArgument::TypeParameter(x) => GenericArgument::TypeParameter(rename(x, f)), o => o.clone() }).collect() }),
            other => other.clone(),
        }
    }

    #[test]
    fn a_reported_template_binding_rebuilds_the_concrete_type_and_keeps_reference_mutability() {
        let thorough = std::env::var("VERIF_TIER").map(|t| t == "thorough").unwrap_or(false);
        let runs = if thorough { 200_000 } else { 20_000 };
        let mut rng = Rng(0x9E37_79B9_7F4A_7C15);
        let (mut yes, mut no) = (0, 0);
        for _ in 0..runs {
            let template = gen_type(&mut rng, 3, true);
            let mut b: HashMap<String, Type> = HashMap::new();
            for name in NAMES { b.insert(name.to_string(), gen_type(&mut rng, 1, false)); }
            let mut concrete = template.bind_generic_type_parameters(&b);
            // half of the time the candidate differs from the instance in the mutability of ONE reference
            if rng.below(2) == 0 { let mut which = rng.below(3) as isize; concrete = flip_one_reference(&concrete, &mut which); }
            match template.is_a_template_for(&concrete) {
                Some(found) => {
                    let rebuilt = template.bind_generic_type_parameters(&found);
                    if rebuilt != concrete {
                        println!("VERIF-DEVIATION id=template_for_ignores_reference_mutability `{template:?}` is reported to be a template for `{concrete:?}` with bindings {found:?}, but substituting them yields `{rebuilt:?}`");
                        assert!(rename_equal_up_to_mutability(&rebuilt, &concrete), "VERIF: the substitution differs from the concrete type in more than reference mutability: {rebuilt:?} vs {concrete:?}");
                    }
                    yes += 1;
                }
                None => no += 1,
            }
        }
        println!("VERIF-BOUNDED test=a_reported_template_binding_rebuilds_the_concrete_type_and_keeps_reference_mutability evaluations={runs} bound={runs} pseudo-random templates of depth <= 3 x ground bindings; half of the candidates have one reference's mutability flipped ({yes} accepted, {no} rejected)");
    }
    fn rename_equal_up_to_mutability(a: &Type, b: &Type) -> bool {
        fn strip(t: &Type) -> Type { match t {
            Type::Reference(r) => Type::Reference(TypeReference { is_mutable: false, lifetime: r.lifetime.clone(), inner: Box::new(strip(&r.inner)) }),
            Type::Tuple(x) => Type::Tuple(Tuple { elements: x.elements.iter().map(strip).collect() }),
            Type::Slice(s) => Type::Slice(Slice { element_type: Box::new(strip(&s.element_type)) }),
            Type::Array(a) => Type::Array(Array { element_type: Box::new(strip(&a.element_type)), len: a.len }),
            Type::RawPointer(p) => Type::RawPointer(RawPointer { is_mutable: p.is_mutable, inner: Box::new(strip(&p.inner)) }),
            Type::Path(p) => Type::Path(PathType { package_id: p.package_id.clone(), rustdoc_id: p.rustdoc_id, base_type: p.base_type.clone(),
                generic_arguments: p.generic_arguments.iter().map(|g| match g { GenericArgument::TypeParameter(x) => GenericArgument::TypeParameter(strip(x)), o => o.clone() }).collect() }),
            other => other.clone() } }
        strip(a) == strip(b)
    }

    #[test]
    fn equivalence_up_to_renaming_is_an_equivalence_and_sees_reference_mutability() {
        let thorough = std::env::var("VERIF_TIER").map(|t| t == "thorough").unwrap_or(false);
        let runs = if thorough { 200_000 } else { 20_000 };
        let mut rng = Rng(0xD1B5_4A32_D192_ED03);
        for _ in 0..runs {
            let a = gen_type(&mut rng, 3, true);
            // reflexive; invariant under a bijective renaming of the generic parameters; symmetric
            assert!(a.is_equivalent_to(&a).is_some(), "VERIF: not reflexive on {a:?}");
            let renamed = rename(&a, &|n| match n { "T" => "U".into(), "U" => "V".into(), _ => "T".into() });
            assert!(a.is_equivalent_to(&renamed).is_some() && renamed.is_equivalent_to(&a).is_some(), "VERIF: {a:?} vs its renaming {renamed:?}");
            // equal canonical forms <=> equivalent (on these lifetime-poor types); canonicalisation is idempotent
            let b = gen_type(&mut rng, 2, true);
            let eq = a.is_equivalent_to(&b).is_some();
            assert_eq!(eq, b.is_equivalent_to(&a).is_some(), "VERIF: not symmetric on {a:?} / {b:?}");
            if a.canonicalize() == b.canonicalize() { assert!(eq, "VERIF: equal canonical forms but not equivalent: {a:?} / {b:?}"); }
            assert!(a.canonicalize().inner().canonicalize() == a.canonicalize(), "VERIF: canonicalisation is not idempotent on {a:?}");
            // a type and the same type with ONE reference's mutability flipped differ in more than lifetimes and generic names
            let mut which = rng.below(3) as isize;
            let flipped = flip_one_reference(&a, &mut which);
            if flipped != a && a.is_equivalent_to(&flipped).is_some() {
                println!("VERIF-DEVIATION id=equivalence_ignores_reference_mutability `{a:?}` and `{flipped:?}` are reported equivalent although they differ in the mutability of a reference");
            }
        }
        println!("VERIF-BOUNDED test=equivalence_up_to_renaming_is_an_equivalence_and_sees_reference_mutability evaluations={runs} bound={runs} pseudo-random types of depth <= 3 over 3 generic names: reflexivity, renaming, symmetry, canonical forms, idempotence, one flipped reference");
    }
}
