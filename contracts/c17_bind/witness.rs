// Native witness for the C17 binding sliver (appended to rustdoc/rustdoc_ir/src/type_.rs of the scratch copy): the real
// Type::bind_generic_type_parameters against a reference substitution written from the statement — bounded, but DEEP
// (every nested position), which the deductive part is not.
#[cfg(test)]
mod verif_witness_c17_bind {
    use super::*;
    use crate::{Array, FunctionPointer, FunctionPointerInput, Generic, RawPointer, ScalarPrimitive, Slice, Tuple, Lifetime, TypeReference, PathType, GenericArgument, GenericLifetimeParameter};
    struct Rng(u64);
    impl Rng { fn next(&mut self) -> u64 { self.0 ^= self.0 << 13; self.0 ^= self.0 >> 7; self.0 ^= self.0 << 17; self.0 } fn below(&mut self, n: usize) -> usize { (self.next() % n as u64) as usize } }
    const NAMES: [&str; 4] = ["T", "U", "V", "W"];

    fn gen_type(rng: &mut Rng, depth: usize) -> Type {
        let k = if depth == 0 { rng.below(2) } else { rng.below(10) };
        match k {
            0 => Type::ScalarPrimitive(if rng.below(2) == 0 { ScalarPrimitive::U8 } else { ScalarPrimitive::Bool }),
            1 => Type::Generic(Generic { name: NAMES[rng.below(NAMES.len())].to_string() }),
            2 => Type::Reference(TypeReference { is_mutable: rng.below(2) == 0, lifetime: if rng.below(2) == 0 { Lifetime::Static } else { Lifetime::Elided }, inner: Box::new(gen_type(rng, depth - 1)) }),
            3 => Type::Tuple(Tuple { elements: (0..rng.below(4)).map(|_| gen_type(rng, depth - 1)).collect() }),
            4 => Type::Slice(Slice { element_type: Box::new(gen_type(rng, depth - 1)) }),
            5 => Type::Array(Array { element_type: Box::new(gen_type(rng, depth - 1)), len: rng.below(9) }),
            6 => Type::RawPointer(RawPointer { is_mutable: rng.below(2) == 0, inner: Box::new(gen_type(rng, depth - 1)) }),
            7 | 8 => {
                let p = PathType {
                    package_id: guppy::PackageId::new("verif 0.1.0"), rustdoc_id: None,
                    base_type: vec!["verif".into(), format!("S{}", rng.below(3))],
                    generic_arguments: (0..rng.below(4)).map(|_| if rng.below(4) == 0 { GenericArgument::Lifetime(GenericLifetimeParameter::Static) } else { GenericArgument::TypeParameter(gen_type(rng, depth - 1)) }).collect(),
                };
                if k == 7 { Type::Path(p) } else { Type::TypeAlias(p) }
            }
            _ => Type::FunctionPointer(FunctionPointer {
                inputs: (0..rng.below(3)).map(|i| FunctionPointerInput { name: if i == 0 { Some("a".into()) } else { None }, type_: gen_type(rng, depth - 1) }).collect(),
                output: if rng.below(2) == 0 { Some(Box::new(gen_type(rng, depth - 1))) } else { None },
                abi: rustdoc_types::Abi::Rust, is_unsafe: rng.below(2) == 0,
            }),
        }
    }
    /// the statement: every generic parameter that has a binding is replaced by it (once), everything else is kept as it is
    fn model(t: &Type, b: &HashMap<String, Type>) -> Type {
        match t {
            Type::Generic(g) => b.get(&g.name).cloned().unwrap_or_else(|| t.clone()),
            Type::ScalarPrimitive(_) => t.clone(),
            Type::Reference(r) => Type::Reference(TypeReference { is_mutable: r.is_mutable, lifetime: r.lifetime.clone(), inner: Box::new(model(&r.inner, b)) }),
            Type::Tuple(x) => Type::Tuple(Tuple { elements: x.elements.iter().map(|e| model(e, b)).collect() }),
            Type::Slice(s) => Type::Slice(Slice { element_type: Box::new(model(&s.element_type, b)) }),
            Type::Array(a) => Type::Array(Array { element_type: Box::new(model(&a.element_type, b)), len: a.len }),
            Type::RawPointer(p) => Type::RawPointer(RawPointer { is_mutable: p.is_mutable, inner: Box::new(model(&p.inner, b)) }),
            Type::Path(p) | Type::TypeAlias(p) => {
                let q = PathType { package_id: p.package_id.clone(), rustdoc_id: p.rustdoc_id, base_type: p.base_type.clone(),
                    generic_arguments: p.generic_arguments.iter().map(|g| match g { GenericArgument::TypeParameter(x) => GenericArgument::TypeParameter(model(x, b)), other => other.clone() }).collect() };
                if matches!(t, Type::Path(_)) { Type::Path(q) } else { Type::TypeAlias(q) }
            }
            Type::FunctionPointer(f) => Type::FunctionPointer(FunctionPointer {
                inputs: f.inputs.iter().map(|i| FunctionPointerInput { name: i.name.clone(), type_: model(&i.type_, b) }).collect(),
                output: f.output.as_ref().map(|o| Box::new(model(o, b))), abi: f.abi.clone(), is_unsafe: f.is_unsafe }),
        }
    }
    #[test]
    fn binding_replaces_exactly_the_bound_parameters_at_every_depth_and_keeps_everything_else() {
        let thorough = std::env::var("VERIF_TIER").map(|t| t == "thorough").unwrap_or(false);
        let runs = if thorough { 300_000 } else { 20_000 };
        let mut rng = Rng(0x9E37_79B9_7F4A_7C15);
        for _ in 0..runs {
            let t = gen_type(&mut rng, 3);
            let mut b: HashMap<String, Type> = HashMap::new();
            for name in NAMES { if rng.below(2) == 0 { b.insert(name.to_string(), gen_type(&mut rng, 2)); } } // bindings may mention bound names themselves
            let got = t.bind_generic_type_parameters(&b);
            let want = model(&t, &b);
            assert!(got == want, "VERIF: bind({t:?}, {b:?})\n  = {got:?}\n  expected {want:?}");
        }
        println!("VERIF-BOUNDED test=binding_replaces_exactly_the_bound_parameters_at_every_depth_and_keeps_everything_else evaluations={runs} bound={runs} pseudo-random types of depth <= 3 over all ten kinds x bindings of up to 4 names (values may mention bound names)");
    }
}
