// ======================================================================================
// C18 prelude — figment / anyhow / std::env / PathBuf as an uninterpreted term algebra.
// The verified function is pavex's; figment's behaviour is ASSUMED (documented law: `merge` = later wins).
// ======================================================================================
use vstd::std_specs::convert::FromSpecImpl;
pub assume_specification<T>[<T as From<T>>::from](t: T) -> (r: T) ensures r == t;

#[verifier::external_body] pub struct PathBuf { _p: u8 }
#[verifier::external_body] pub struct Figment { _p: u8 }
#[verifier::external_body] pub struct YamlFile { _p: u8 }
#[verifier::external_body] pub struct Env { _p: u8 }
#[verifier::external_body] pub struct AnyhowError { _p: u8 }
#[verifier::external_body] pub struct FigmentError { _p: u8 }
pub uninterp spec fn fig_empty() -> Figment;
pub uninterp spec fn fig_merge<P>(f: Figment, p: P) -> Figment;
pub uninterp spec fn fig_join<P>(f: Figment, p: P) -> Figment;
pub uninterp spec fn fig_adjoin<P>(f: Figment, p: P) -> Figment;
pub uninterp spec fn fig_admerge<P>(f: Figment, p: P) -> Figment;
pub uninterp spec fn yaml_file(p: PathBuf) -> YamlFile;
pub uninterp spec fn env_prefixed(p: Seq<char>) -> Env;
pub uninterp spec fn env_split(e: Env, s: Seq<char>) -> Env;
pub uninterp spec fn env_ignore(e: Env, k: Seq<Seq<char>>) -> Env;
pub uninterp spec fn path_join(p: PathBuf, s: Seq<char>) -> PathBuf;
pub uninterp spec fn path_from(s: Seq<char>) -> PathBuf;
pub uninterp spec fn extract_spec<C>(f: Figment) -> Option<C>;
pub uninterp spec fn fmt1(lit: Seq<char>, a: Seq<char>) -> Seq<char>;
pub uninterp spec fn ctx(e: FigmentError, m: Seq<char>) -> AnyhowError;

/// things `PathBuf::join` accepts (`impl AsRef<Path>`): their text
pub trait PathArg: Sized { spec fn text(&self) -> Seq<char>; }
impl PathArg for &str { open spec fn text(&self) -> Seq<char> { (*self)@ } }
impl PathArg for String { open spec fn text(&self) -> Seq<char> { self@ } }
impl PathBuf {
    #[verifier::external_body] pub fn from(s: &str) -> (r: PathBuf) ensures r == path_from(s@) { unimplemented!() }
    #[verifier::external_body] pub fn join<A: PathArg>(&self, s: A) -> (r: PathBuf) ensures r == path_join(*self, s.text()) { unimplemented!() }
    /// API neighbourhood (not called by the unchanged code): resolving against the file system — nothing is promised.
    #[verifier::external_body] pub fn canonicalize(&self) -> (r: Result<PathBuf, IoError>) { unimplemented!() }
    #[verifier::external_body] pub fn exists(&self) -> (r: bool) { unimplemented!() }
    #[verifier::external_body] pub fn is_absolute(&self) -> (r: bool) { unimplemented!() }
    #[verifier::external_body] pub fn is_relative(&self) -> (r: bool) { unimplemented!() }
    #[verifier::external_body] pub fn is_dir(&self) -> (r: bool) { unimplemented!() }
}
#[verifier::external_body] pub struct IoError { _p: u8 }
/// `format!(lit, a)` (rule N8): an uninterpreted function of the literal and the argument's text
#[verifier::external_body] pub fn verif_format_1(lit: &str, a: &str) -> (r: String) ensures r@ == fmt1(lit@, a@) { unimplemented!() }
pub struct Yaml;
impl Yaml { #[verifier::external_body] pub fn file(p: PathBuf) -> (r: YamlFile) ensures r == yaml_file(p) { unimplemented!() } }
impl Env {
    #[verifier::external_body] pub fn prefixed(p: &str) -> (r: Env) ensures r == env_prefixed(p@) { unimplemented!() }
    #[verifier::external_body] pub fn split(self, s: &str) -> (r: Env) ensures r == env_split(self, s@) { unimplemented!() }
    #[verifier::external_body] pub fn ignore(self, keys: &[&str]) -> (r: Env) ensures keys@.len() == 1 ==> r == env_ignore(self, seq![keys@[0]@]) { unimplemented!() }
}
impl Figment {
    #[verifier::external_body] pub fn new() -> (r: Figment) ensures r == fig_empty() { unimplemented!() }
    #[verifier::external_body] pub fn merge<P>(self, p: P) -> (r: Figment) ensures r == fig_merge(self, p) { unimplemented!() }
    /// figment's other combinators exist so that using one of them instead of `merge` is a refuted obligation, not a type error
    #[verifier::external_body] pub fn join<P>(self, p: P) -> (r: Figment) ensures r == fig_join(self, p) { unimplemented!() }
    #[verifier::external_body] pub fn adjoin<P>(self, p: P) -> (r: Figment) ensures r == fig_adjoin(self, p) { unimplemented!() }
    #[verifier::external_body] pub fn admerge<P>(self, p: P) -> (r: Figment) ensures r == fig_admerge(self, p) { unimplemented!() }
    #[verifier::external_body] pub fn extract<C>(&self) -> (r: Result<C, FigmentError>)
        ensures r matches Ok(c) ==> extract_spec::<C>(*self) == Some(c), r is Err ==> extract_spec::<C>(*self) is None { unimplemented!() }
}
/// anyhow::Context on Result<T, figment::Error>
pub trait Context<T> { fn context(self, msg: &str) -> Result<T, AnyhowError>; }
impl<T> Context<T> for Result<T, FigmentError> {
    #[verifier::external_body]
    fn context(self, msg: &str) -> (r: Result<T, AnyhowError>)
        ensures match self { Ok(t) => r == Ok::<T, AnyhowError>(t), Err(e) => r == Err::<T, AnyhowError>(ctx(e, msg@)) }
    { unimplemented!() }
}
/// `ConfigProfileLoadError -> anyhow::Error` (std::error::Error blanket impl of anyhow)
pub uninterp spec fn anyhow_of_profile_error(e: ConfigProfileLoadError) -> AnyhowError;
impl FromSpecImpl<ConfigProfileLoadError> for AnyhowError {
    open spec fn obeys_from_spec() -> bool { true }
    open spec fn from_spec(e: ConfigProfileLoadError) -> Self { anyhow_of_profile_error(e) }
}
impl From<ConfigProfileLoadError> for AnyhowError { #[verifier::external_body] fn from(e: ConfigProfileLoadError) -> (r: Self) { unimplemented!() } }

/// str::strip_prefix (generic over the pattern type)
pub uninterp spec fn strip_prefix_spec<P>(s: Seq<char>, p: P) -> Option<Seq<char>>;
#[verifier::allow(undeclared_external_trait)]
pub assume_specification<P: core::str::pattern::Pattern>[str::strip_prefix::<P>](s: &str, p: P) -> (r: Option<&str>)
    ensures match r { Some(x) => strip_prefix_spec(s@, p) == Some(x@), None => strip_prefix_spec(s@, p) is None };
/// GROUND FACT, decided by evaluation in unit c18_ground (rustc): "PX_PROFILE".strip_prefix("PX_") == Some("PROFILE")
pub broadcast axiom fn ground_fact_px_profile(p: &str)
    ensures p@ == "PX_"@ ==> #[trigger] strip_prefix_spec("PX_PROFILE"@, p) == Some("PROFILE"@);

/// the ConfigProfile trait: `as_ref()` (AsRef<str>) names the profile; `load()` is the trait's default method,
/// verified separately (unit item `ConfigProfile::load`) against `profile_from_env`.
pub uninterp spec fn env_var(name: Seq<char>) -> Option<Seq<char>>;
pub trait ConfigProfile: Sized {
    spec fn name(&self) -> Seq<char>;
    spec fn parse_profile(s: Seq<char>) -> Option<Self>;
    fn as_ref(&self) -> (r: &str) ensures r@ == self.name();
    /// ASSUMED here, proved for the default method body below: the profile comes from PX_PROFILE, and only from there
    fn load() -> (r: Result<Self, ConfigProfileLoadError>)
        ensures match r {
            Ok(p) => env_var("PX_PROFILE"@) matches Some(v) && Self::parse_profile(v) == Some(p),
            Err(_) => env_var("PX_PROFILE"@) is None || Self::parse_profile(env_var("PX_PROFILE"@)->0) is None,
        };
}

// ---- for the default method `ConfigProfile::load` (extracted as a free function over VerifSelf) -------
/// FromStr + the profile's name: the part of ConfigProfile's supertraits the default method uses
pub trait ProfileFromStr: Sized {
    type Err;
    spec fn parse_of(s: Seq<char>) -> Option<Self>;
    fn from_str(s: &str) -> (r: Result<Self, Self::Err>)
        ensures match r { Ok(p) => Self::parse_of(s@) == Some(p), Err(_) => Self::parse_of(s@) is None };
}
/// VarError / std::env::var (stood in: vstd cannot name `AsRef<OsStr>`): `Ok(value)` iff the variable is set
#[verifier::external_body] pub struct VarError { _p: u8 }
#[verifier::external_body]
pub fn std_env_var(key: &str) -> (r: Result<String, VarError>)
    ensures match r { Ok(v) => env_var(key@) == Some(v@), Err(_) => env_var(key@) is None }
{ unimplemented!() }
pub uninterp spec fn ctx_var(e: VarError, m: Seq<char>) -> AnyhowError;
impl Context<String> for Result<String, VarError> {
    #[verifier::external_body]
    fn context(self, msg: &str) -> (r: Result<String, AnyhowError>)
        ensures match self { Ok(t) => r == Ok::<String, AnyhowError>(t), Err(e) => r == Err::<String, AnyhowError>(ctx_var(e, msg@)) }
    { unimplemented!() }
}
/// `anyhow::anyhow!(e)` followed by `.context(msg)`
#[verifier::external_body] pub fn anyhow_msg<E>(e: E) -> (r: AnyhowError) { unimplemented!() }
impl AnyhowError { #[verifier::external_body] pub fn context(self, msg: &str) -> (r: AnyhowError) { unimplemented!() } }
