// Native witness/replay for C18: the real ConfigLoader against real files and real environment variables.
use pavex::config::{ConfigLoader, ConfigProfile};
use std::sync::Mutex;

#[derive(ConfigProfile, Debug, Clone, Copy, PartialEq)]
enum Profile { Dev, Prod }

/// custom and default names mixed, in both orders: every variant must map to its own name, both ways
#[derive(ConfigProfile, Debug, Clone, Copy, PartialEq)]
enum Mixed { #[px(profile = "local")] Development, Staging, #[px(profile = "live")] Production, QaTeam }

/// custom names are used VERBATIM (case, digits, underscores): as the accepted PX_PROFILE value and as the file stem
#[derive(ConfigProfile, Debug, Clone, Copy, PartialEq)]
enum Verbatim { #[px(profile = "prodEU")] ProdEu, #[px(profile = "stage2")] Stage2, #[px(profile = "UPPER")] Upper, #[px(profile = "with_Under_Score9")] WithUnderscore, #[px(profile = "Dev")] CapitalisedDev }

#[derive(serde::Deserialize, Debug, PartialEq)]
#[serde(deny_unknown_fields)]
struct Tls { cert: String, key: String }
#[derive(serde::Deserialize, Debug, PartialEq)]
#[serde(deny_unknown_fields)]
struct Server { port: i64, tls: Tls }
#[derive(serde::Deserialize, Debug, PartialEq)]
#[serde(deny_unknown_fields)]
struct Deep { server: Server, origin: String }

#[derive(serde::Deserialize, Debug, PartialEq)]
#[serde(deny_unknown_fields)]
struct Nested { a: i64, b: i64, c: i64 }
#[derive(serde::Deserialize, Debug, PartialEq)]
#[serde(deny_unknown_fields)]
struct Config { base_only: i64, profile_wins: i64, env_wins: i64, nested: Nested, list: Vec<String> }

static ENV: Mutex<()> = Mutex::new(());
fn dir(tag: &str) -> std::path::PathBuf {
    let d = std::env::temp_dir().join(format!("verif-c18-{}-{tag}", std::process::id()));
    std::fs::create_dir_all(&d).unwrap();
    std::fs::write(d.join("base.yml"), "base_only: 1\nprofile_wins: 1\nenv_wins: 1\nnested:\n  a: 1\n  b: 1\n  c: 1\nlist: [base1, base2]\n").unwrap();
    std::fs::write(d.join("dev.yml"), "profile_wins: 2\nenv_wins: 2\nnested:\n  b: 2\n  c: 2\nlist: [dev1]\n").unwrap();
    std::fs::write(d.join("prod.yml"), "profile_wins: 20\n").unwrap();
    // bystanders: only `base.yml` and `<profile>.yml` are sources — not their `.yaml` twins, backups, or a `default.yml`
    for f in ["base.yaml", "dev.yaml", "prod.yaml", "default.yml", "base.yml.bak", "dev.yml~", "local.yml"] {
        std::fs::write(d.join(f), "base_only: 666\nprofile_wins: 666\nenv_wins: 666\nnested:\n  a: 666\n  b: 666\n  c: 666\nlist: [bystander]\n").unwrap();
    }
    d
}
const DECOYS: [&str; 6] = ["PROFILE", "APP_PROFILE", "PAVEX_PROFILE", "PXPROFILE", "px_profile", "APP_ENV"];
fn clear() {
    for (k, _) in std::env::vars() { if k.starts_with("PX_") { unsafe { std::env::remove_var(k) } } }
    // look-alike variables hold a VALID profile name: only PX_PROFILE may select the profile
    for d in DECOYS { unsafe { std::env::set_var(d, "dev") } }
}

#[test]
fn env_over_profile_over_base_per_key() {
    let _g = ENV.lock().unwrap_or_else(|e| e.into_inner()); clear();
    unsafe { std::env::set_var("PX_ENV_WINS", "3"); std::env::set_var("PX_NESTED__C", "3"); std::env::set_var("PX_PROFILE", "dev"); }
    let d = dir("a");
    // explicit profile
    let c: Config = ConfigLoader::new().profile(Profile::Dev).configuration_dir(&d).load().unwrap();
    assert_eq!(c, Config { base_only: 1, profile_wins: 2, env_wins: 3, nested: Nested { a: 1, b: 2, c: 3 }, list: vec!["dev1".into()] });
    // profile selected by PX_PROFILE, which is not itself a key (deny_unknown_fields would reject it)
    let c: Config = ConfigLoader::<Profile>::new().configuration_dir(&d).load().unwrap();
    assert_eq!(c.profile_wins, 2);
    unsafe { std::env::set_var("PX_PROFILE", "prod"); }
    let c: Config = ConfigLoader::<Profile>::new().configuration_dir(&d).load().unwrap();
    assert_eq!((c.profile_wins, c.env_wins, c.nested.c, c.nested.b), (20, 3, 3, 1));
    assert_eq!(c.list, vec!["base1".to_string(), "base2".to_string()], "a key absent from the profile file comes from the base file");
    clear(); let _ = std::fs::remove_dir_all(d);
}
#[test]
fn missing_profile_or_required_key_is_an_error() {
    let _g = ENV.lock().unwrap_or_else(|e| e.into_inner()); clear();
    let d = dir("b");
    assert!(ConfigLoader::<Profile>::new().configuration_dir(&d).load::<Config>().is_err(), "no PX_PROFILE must not default");
    unsafe { std::env::set_var("PX_PROFILE", "staging"); }
    assert!(ConfigLoader::<Profile>::new().configuration_dir(&d).load::<Config>().is_err(), "unknown profile must not default");
    std::fs::write(d.join("base.yml"), "profile_wins: 1\n").unwrap();
    assert!(ConfigLoader::new().profile(Profile::Dev).configuration_dir(&d).load::<Config>().is_err(), "missing required key");
    clear(); let _ = std::fs::remove_dir_all(d);
}

#[test]
fn derived_profiles_map_each_variant_to_its_own_name() {
    use std::str::FromStr;
    let want = [(Mixed::Development, "local"), (Mixed::Staging, "staging"), (Mixed::Production, "live"), (Mixed::QaTeam, "qa_team")];
    for (v, name) in want {
        assert_eq!(v.as_ref(), name, "{v:?}.as_ref()");
        assert_eq!(Mixed::from_str(name).ok(), Some(v), "from_str({name:?})");
    }
    for bad in ["development", "production", "Staging", "", "local "] { assert!(Mixed::from_str(bad).is_err(), "from_str({bad:?}) must fail"); }
    // and the file that is read is the variant's own
    let _g = ENV.lock().unwrap_or_else(|e| e.into_inner()); clear();
    let d = dir("c");
    std::fs::write(d.join("staging.yml"), "profile_wins: 7\n").unwrap();
    std::fs::write(d.join("local.yml"), "profile_wins: 8\n").unwrap();
    let c: Config = ConfigLoader::new().profile(Mixed::Staging).configuration_dir(&d).load().unwrap();
    assert_eq!(c.profile_wins, 7);
    unsafe { std::env::set_var("PX_PROFILE", "local"); }
    let c: Config = ConfigLoader::<Mixed>::new().configuration_dir(&d).load().unwrap();
    assert_eq!(c.profile_wins, 8);
    clear(); let _ = std::fs::remove_dir_all(d);
}

/// `__` is the nesting separator at EVERY level: a key two and three levels down is taken from the environment
#[test]
fn environment_wins_at_every_nesting_depth() {
    let _g = ENV.lock().unwrap_or_else(|e| e.into_inner()); clear();
    let d = std::env::temp_dir().join(format!("verif-c18-{}-deep", std::process::id()));
    std::fs::create_dir_all(&d).unwrap();
    std::fs::write(d.join("base.yml"), "origin: base\nserver:\n  port: 1\n  tls:\n    cert: base.pem\n    key: base.key\n").unwrap();
    std::fs::write(d.join("dev.yml"), "server:\n  tls:\n    cert: dev.pem\n").unwrap();
    unsafe { std::env::set_var("PX_SERVER__TLS__CERT", "env.pem"); std::env::set_var("PX_SERVER__PORT", "3"); }
    let c: Deep = ConfigLoader::new().profile(Profile::Dev).configuration_dir(&d).load().unwrap();
    assert_eq!(c, Deep { origin: "base".into(), server: Server { port: 3, tls: Tls { cert: "env.pem".into(), key: "base.key".into() } } });
    unsafe { std::env::remove_var("PX_SERVER__TLS__CERT"); std::env::set_var("PX_SERVER__TLS__KEY", "env.key"); }
    let c: Deep = ConfigLoader::new().profile(Profile::Dev).configuration_dir(&d).load().unwrap();
    assert_eq!(c.server.tls, Tls { cert: "dev.pem".into(), key: "env.key".into() });
    clear(); let _ = std::fs::remove_dir_all(d);
}

/// the configured directory — relative (found in a parent of the working directory), absolute, or missing —
/// is the only place files are read from; the default `configuration/` next to it is never a fallback
#[test]
fn files_are_read_from_the_configured_directory_only() {
    let _g = ENV.lock().unwrap_or_else(|e| e.into_inner()); clear();
    let root = std::env::temp_dir().join(format!("verif-c18-{}-dirs", std::process::id()));
    let _ = std::fs::remove_dir_all(&root);
    for (sub, origin) in [("settings", "settings"), ("configuration", "decoy")] {
        std::fs::create_dir_all(root.join(sub)).unwrap();
        std::fs::write(root.join(sub).join("base.yml"), format!("origin: {origin}\nserver:\n  port: 1\n  tls:\n    cert: c\n    key: k\n")).unwrap();
        std::fs::write(root.join(sub).join("dev.yml"), "server:\n  port: 2\n").unwrap();
    }
    std::fs::create_dir_all(root.join("crates/app")).unwrap();
    let before = std::env::current_dir().unwrap();
    std::env::set_current_dir(root.join("crates/app")).unwrap();
    let relative = ConfigLoader::new().profile(Profile::Dev).configuration_dir("settings").load::<Deep>();
    let absolute = ConfigLoader::new().profile(Profile::Dev).configuration_dir(root.join("settings")).load::<Deep>();
    let default = ConfigLoader::new().profile(Profile::Dev).load::<Deep>();
    let missing = ConfigLoader::new().profile(Profile::Dev).configuration_dir("no-such-directory").load::<Deep>();
    let missing_abs = ConfigLoader::new().profile(Profile::Dev).configuration_dir(root.join("no-such-directory")).load::<Deep>();
    std::env::set_current_dir(before).unwrap();
    assert_eq!(relative.expect("a relative directory is looked up in the parents of the working directory").origin, "settings");
    assert_eq!(absolute.unwrap().origin, "settings");
    assert_eq!(default.expect("the default directory is `configuration`").origin, "decoy");
    assert!(missing.is_err(), "a directory that does not exist holds no keys: missing required keys are an error, not a default");
    assert!(missing_abs.is_err(), "a directory that does not exist holds no keys: missing required keys are an error, not a default");
    clear(); let _ = std::fs::remove_dir_all(root);
}

/// the derive macro uses a custom profile name verbatim, in both directions, and `load` reads the file of that name
#[test]
fn custom_profile_names_are_used_verbatim() {
    use std::str::FromStr;
    let want = [(Verbatim::ProdEu, "prodEU"), (Verbatim::Stage2, "stage2"), (Verbatim::Upper, "UPPER"), (Verbatim::WithUnderscore, "with_Under_Score9"), (Verbatim::CapitalisedDev, "Dev")];
    for (v, name) in want {
        assert_eq!(v.as_ref(), name, "{v:?}.as_ref()");
        assert_eq!(Verbatim::from_str(name).ok(), Some(v), "from_str({name:?})");
        assert_eq!(Verbatim::from_str(v.as_ref()).ok(), Some(v), "from_str(as_ref()) round trip of {v:?}");
    }
    for bad in ["prod_eu", "prodeu", "stage_2", "upper", "with_under_score9", "with_under_score_9", "dev"] { assert!(Verbatim::from_str(bad).is_err(), "from_str({bad:?}) must fail"); }
    let _g = ENV.lock().unwrap_or_else(|e| e.into_inner()); clear();
    let d = dir("v");
    for (_, name) in want { std::fs::write(d.join(format!("{name}.yml")), "profile_wins: 9\n").unwrap(); }
    for (v, name) in want {
        let c: Config = ConfigLoader::new().profile(v).configuration_dir(&d).load().unwrap();
        assert_eq!(c.profile_wins, 9, "explicit profile {name:?}: {name}.yml was not read");
        unsafe { std::env::set_var("PX_PROFILE", name); }
        let c: Config = ConfigLoader::<Verbatim>::new().configuration_dir(&d).load().unwrap();
        assert_eq!(c.profile_wins, 9, "PX_PROFILE={name}: {name}.yml was not read");
        unsafe { std::env::remove_var("PX_PROFILE"); }
    }
    clear(); let _ = std::fs::remove_dir_all(d);
}

/// an environment variable that is SET wins even when its value is empty; and the profile file is `<name>.yml` for
/// whatever `AsRef<str>` says — dots included (a hand-written ConfigProfile: the derive rejects such names)
#[derive(Debug, Clone, Copy, PartialEq)]
enum Dotted { StagingEu, Staging }
impl AsRef<str> for Dotted { fn as_ref(&self) -> &str { match self { Dotted::StagingEu => "staging.eu", Dotted::Staging => "staging" } } }
impl std::str::FromStr for Dotted {
    type Err = String;
    fn from_str(s: &str) -> Result<Self, String> { match s { "staging.eu" => Ok(Dotted::StagingEu), "staging" => Ok(Dotted::Staging), o => Err(format!("unknown profile {o}")) } }
}
impl ConfigProfile for Dotted {}
#[derive(serde::Deserialize, Debug, PartialEq)]
#[serde(deny_unknown_fields)]
struct Banner { banner: String, region: String }
#[test]
fn empty_environment_values_and_dotted_profile_names() {
    let _g = ENV.lock().unwrap_or_else(|e| e.into_inner()); clear();
    let d = std::env::temp_dir().join(format!("verif-c18-{}-dotted", std::process::id()));
    std::fs::create_dir_all(&d).unwrap();
    std::fs::write(d.join("base.yml"), "banner: base-banner\nregion: base-region\n").unwrap();
    std::fs::write(d.join("staging.yml"), "region: staging-region\n").unwrap();
    std::fs::write(d.join("staging.eu.yml"), "region: staging.eu-region\n").unwrap();
    for (profile, region) in [(Dotted::StagingEu, "staging.eu-region"), (Dotted::Staging, "staging-region")] {
        let c: Banner = ConfigLoader::new().profile(profile).configuration_dir(&d).load().unwrap();
        assert_eq!(c.region, region, "explicit profile {:?}: {}.yml was not the file that was read", profile, profile.as_ref());
        unsafe { std::env::set_var("PX_PROFILE", profile.as_ref()); }
        let c: Banner = ConfigLoader::<Dotted>::new().configuration_dir(&d).load().unwrap();
        assert_eq!(c.region, region, "PX_PROFILE={}: the file of that name was not the one that was read", profile.as_ref());
        unsafe { std::env::remove_var("PX_PROFILE"); }
    }
    unsafe { std::env::set_var("PX_BANNER", ""); }
    let c: Banner = ConfigLoader::new().profile(Dotted::Staging).configuration_dir(&d).load().unwrap();
    assert_eq!(c.banner, "", "PX_BANNER is set (to the empty string): the environment wins over the base file");
    clear(); let _ = std::fs::remove_dir_all(d);
}

/// only `PX_PROFILE` itself is reserved: keys that merely START with `profile` are ordinary configuration keys
#[derive(serde::Deserialize, Debug, PartialEq)]
#[serde(deny_unknown_fields)]
struct Profiler { sample_rate: i64 }
#[derive(serde::Deserialize, Debug, PartialEq)]
#[serde(deny_unknown_fields)]
struct WithProfileLikeKeys { profiler: Profiler, profile_pictures_url: String, profiles: Vec<String> }
#[test]
fn keys_that_start_with_profile_are_ordinary_keys() {
    let _g = ENV.lock().unwrap_or_else(|e| e.into_inner()); clear();
    let d = std::env::temp_dir().join(format!("verif-c18-{}-profilelike", std::process::id()));
    std::fs::create_dir_all(&d).unwrap();
    std::fs::write(d.join("base.yml"), "profiler:\n  sample_rate: 10\nprofile_pictures_url: base-pictures\nprofiles: [a]\n").unwrap();
    std::fs::write(d.join("dev.yml"), "profiler:\n  sample_rate: 20\n").unwrap();
    unsafe { std::env::set_var("PX_PROFILER__SAMPLE_RATE", "30"); std::env::set_var("PX_PROFILE_PICTURES_URL", "env-pictures"); std::env::set_var("PX_PROFILE", "dev"); }
    let c: WithProfileLikeKeys = ConfigLoader::<Profile>::new().configuration_dir(&d).load().unwrap();
    assert_eq!((c.profiler.sample_rate, c.profile_pictures_url.as_str()), (30, "env-pictures"), "a key that starts with `profile` was not taken from the environment");
    clear(); let _ = std::fs::remove_dir_all(d);
}
