// Native witness/replay for C18: the real ConfigLoader against real files and real environment variables.
use pavex::config::{ConfigLoader, ConfigProfile};
use std::sync::Mutex;

#[derive(ConfigProfile, Debug, Clone, Copy, PartialEq)]
enum Profile { Dev, Prod }

#[derive(serde::Deserialize, Debug, PartialEq)]
#[serde(deny_unknown_fields)]
struct Nested { a: i64, b: i64, c: i64 }
#[derive(serde::Deserialize, Debug, PartialEq)]
#[serde(deny_unknown_fields)]
struct Config { base_only: i64, profile_wins: i64, env_wins: i64, nested: Nested }

static ENV: Mutex<()> = Mutex::new(());
fn dir(tag: &str) -> std::path::PathBuf {
    let d = std::env::temp_dir().join(format!("verif-c18-{}-{tag}", std::process::id()));
    std::fs::create_dir_all(&d).unwrap();
    std::fs::write(d.join("base.yml"), "base_only: 1\nprofile_wins: 1\nenv_wins: 1\nnested:\n  a: 1\n  b: 1\n  c: 1\n").unwrap();
    std::fs::write(d.join("dev.yml"), "profile_wins: 2\nenv_wins: 2\nnested:\n  b: 2\n  c: 2\n").unwrap();
    std::fs::write(d.join("prod.yml"), "profile_wins: 20\n").unwrap();
    d
}
fn clear() { for (k, _) in std::env::vars() { if k.starts_with("PX_") { unsafe { std::env::remove_var(k) } } } }

#[test]
fn env_over_profile_over_base_per_key() {
    let _g = ENV.lock().unwrap(); clear();
    unsafe { std::env::set_var("PX_ENV_WINS", "3"); std::env::set_var("PX_NESTED__C", "3"); std::env::set_var("PX_PROFILE", "dev"); }
    let d = dir("a");
    // explicit profile
    let c: Config = ConfigLoader::new().profile(Profile::Dev).configuration_dir(&d).load().unwrap();
    assert_eq!(c, Config { base_only: 1, profile_wins: 2, env_wins: 3, nested: Nested { a: 1, b: 2, c: 3 } });
    // profile selected by PX_PROFILE, which is not itself a key (deny_unknown_fields would reject it)
    let c: Config = ConfigLoader::<Profile>::new().configuration_dir(&d).load().unwrap();
    assert_eq!(c.profile_wins, 2);
    unsafe { std::env::set_var("PX_PROFILE", "prod"); }
    let c: Config = ConfigLoader::<Profile>::new().configuration_dir(&d).load().unwrap();
    assert_eq!((c.profile_wins, c.env_wins, c.nested.c, c.nested.b), (20, 3, 3, 1));
    clear(); let _ = std::fs::remove_dir_all(d);
}
#[test]
fn missing_profile_or_required_key_is_an_error() {
    let _g = ENV.lock().unwrap(); clear();
    let d = dir("b");
    assert!(ConfigLoader::<Profile>::new().configuration_dir(&d).load::<Config>().is_err(), "no PX_PROFILE must not default");
    unsafe { std::env::set_var("PX_PROFILE", "staging"); }
    assert!(ConfigLoader::<Profile>::new().configuration_dir(&d).load::<Config>().is_err(), "unknown profile must not default");
    std::fs::write(d.join("base.yml"), "profile_wins: 1\n").unwrap();
    assert!(ConfigLoader::new().profile(Profile::Dev).configuration_dir(&d).load::<Config>().is_err(), "missing required key");
    clear(); let _ = std::fs::remove_dir_all(d);
}
