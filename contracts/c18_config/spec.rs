// ======================================================================================
// C18 spec: the documented hierarchy, and the precedence lemma over figment's one law.
// ======================================================================================
/// base.yml, then <profile>.yml, then PX_-prefixed environment split on "__" minus PROFILE — in that merge order
pub open spec fn expected_figment(dir: PathBuf, profile: Seq<char>) -> Figment {
    fig_merge(
        fig_merge(
            fig_merge(fig_empty(), yaml_file(path_join(dir, "base.yml"@))),
            yaml_file(path_join(dir, fmt1("{}.yml"@, profile)))),
        env_ignore(env_split(env_prefixed("PX_"@), "__"@), seq!["PROFILE"@]))
}

// ---- figment's documented law, as the single axiom the precedence statement needs --------------------
/// the value a provider / a figment gives to a (nested) key
pub uninterp spec fn provider_value<P>(p: P, key: Seq<char>) -> Option<int>;
pub uninterp spec fn figment_value(f: Figment, key: Seq<char>) -> Option<int>;
/// figment docs, `Figment::merge`: "values from the new provider replace conflicting existing values"
pub broadcast axiom fn figment_merge_later_wins<P>(f: Figment, p: P, key: Seq<char>)
    ensures #[trigger] figment_value(fig_merge(f, p), key) ==
        (match provider_value(p, key) { Some(v) => Some(v), None => figment_value(f, key) });
pub broadcast axiom fn figment_empty_has_no_keys(key: Seq<char>)
    ensures #[trigger] figment_value(fig_empty(), key) is None;

/// C18, first sentence: each key comes from the environment if present there, otherwise from the profile file,
/// otherwise from the base file.
pub proof fn precedence_env_over_profile_over_base(dir: PathBuf, profile: Seq<char>, key: Seq<char>)
    ensures ({
        let env = env_ignore(env_split(env_prefixed("PX_"@), "__"@), seq!["PROFILE"@]);
        let prof = yaml_file(path_join(dir, fmt1("{}.yml"@, profile)));
        let base = yaml_file(path_join(dir, "base.yml"@));
        figment_value(expected_figment(dir, profile), key) == (
            match provider_value(env, key) {
                Some(v) => Some(v),
                None => match provider_value(prof, key) {
                    Some(v) => Some(v),
                    None => provider_value(base, key),
                },
            })
    }),
{
    broadcast use figment_merge_later_wins;
    broadcast use figment_empty_has_no_keys;
}
