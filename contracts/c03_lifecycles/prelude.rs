// C03 (thin slice): no stand-ins are needed — both functions are closed matches over two extracted enums.
