// ======================================================================================
// C08 / C07 (route conflicts) spec: two handlers for the same path whose method guards both admit a well-known method
// ======================================================================================
pub open spec fn admits(g: &MethodGuard, m: Seq<char>) -> bool {
    match g { MethodGuard::Any => true, MethodGuard::Some(s) => set_has(s, m) }
}
pub open spec fn is_handler(a: &AuxiliaryData, id: UserComponentId) -> bool { comp_of(a, id) is RequestHandler }
pub open spec fn key_of(a: &AuxiliaryData, id: UserComponentId) -> RouterKey { comp_of(a, id)->router_key }
/// the nine well-known HTTP methods a route without a custom method can be asked for
pub open spec fn well_known(mi: int) -> Seq<char> {
    if mi == 0 { "GET"@ } else if mi == 1 { "POST"@ } else if mi == 2 { "PUT"@ } else if mi == 3 { "DELETE"@ } else if mi == 4 { "PATCH"@ }
    else if mi == 5 { "HEAD"@ } else if mi == 6 { "OPTIONS"@ } else if mi == 7 { "CONNECT"@ } else { "TRACE"@ }
}
/// two different request handlers registered for the same path can both serve method number `mi` of the well-known ones
pub open spec fn conflict(a: &AuxiliaryData, ids: Seq<UserComponentId>, i: int, j: int, mi: int) -> bool {
    &&& 0 <= i < ids.len() && 0 <= j < ids.len() && ids[i] != ids[j] && 0 <= mi < 9
    &&& is_handler(a, ids[i]) && is_handler(a, ids[j]) && key_of(a, ids[i]).path == key_of(a, ids[j]).path
    &&& admits(&key_of(a, ids[i]).method_guard, well_known(mi)) && admits(&key_of(a, ids[j]).method_guard, well_known(mi))
}
pub open spec fn clash(routes: Seq<(&MethodGuard, &UserComponentId)>, m: Seq<char>, x: int, y: int) -> bool {
    0 <= x < routes.len() && 0 <= y < routes.len() && *routes[x].1 != *routes[y].1 && admits(routes[x].0, m) && admits(routes[y].0, m)
}
pub open spec fn conflict_in(routes: Seq<(&MethodGuard, &UserComponentId)>, m: Seq<char>) -> bool {
    exists |x: int, y: int| #[trigger] clash(routes, m, x, y)
}
pub open spec fn any_method_conflict_in(routes: Seq<(&MethodGuard, &UserComponentId)>) -> bool {
    exists |mi: int| 0 <= mi < 9 && #[trigger] conflict_in(routes, well_known(mi))
}
pub open spec fn at_pos(g: Map<&String, Vec<(&MethodGuard, &UserComponentId)>>, p: &String, gd: &MethodGuard, id: &UserComponentId, pos: int) -> bool {
    g.contains_key(p) && 0 <= pos < g[p]@.len() && g[p]@[pos] == (gd, id)
}
/// the handler (guard, id) has been filed under its path
pub open spec fn in_group(g: Map<&String, Vec<(&MethodGuard, &UserComponentId)>>, p: &String, gd: &MethodGuard, id: &UserComponentId) -> bool {
    exists |pos: int| #[trigger] at_pos(g, p, gd, id, pos)
}
pub proof fn two_members(s: Set<UserComponentId>, a: UserComponentId, b: UserComponentId)
    requires s.finite(), s.contains(a), s.contains(b), a != b
    ensures s.len() >= 2
{
    broadcast use vstd::set::group_set_lemmas;
    assert(s.remove(a).contains(b));
    assert(s.remove(a).len() >= 1);
}
