// Native witness for the route-conflict rule (appended to compiler/pavexc/src/compiler/analyses/user_components/router.rs of the
// scratch copy): the real PathRouter::detect_method_conflicts on hand-interned request handlers, against the statement.
#[cfg(test)]
mod verif_witness_c08_routes {
    use super::*;
    use crate::compiler::analyses::user_components::{ScopeGraph, UserComponentSource};
    use crate::compiler::analyses::user_components::router_key::RouterKey;
    struct Rng(u64);
    impl Rng { fn next(&mut self) -> u64 { self.0 ^= self.0 << 13; self.0 ^= self.0 >> 7; self.0 ^= self.0 << 17; self.0 } fn below(&mut self, n: usize) -> usize { (self.next() % n as u64) as usize } }
    fn loc(n: u32) -> pavex_bp_schema::Location { pavex_bp_schema::Location { line: n, column: 1, file: "witness.rs".into() } }
    fn sink() -> DiagnosticSink {
        let dir = std::env::temp_dir().join(format!("verif-c08-{}-{:?}", std::process::id(), std::thread::current().id()));
        std::fs::create_dir_all(dir.join("src")).unwrap();
        std::fs::write(dir.join("Cargo.toml"), "[package]\nname = \"scratch\"\nversion = \"0.1.0\"\nedition = \"2021\"\n[workspace]\n").unwrap();
        std::fs::write(dir.join("src/lib.rs"), "").unwrap();
        let mut cmd = guppy::MetadataCommand::new();
        cmd.manifest_path(dir.join("Cargo.toml")).other_options(vec!["--offline".to_string()]);
        let g = cmd.build_graph().expect("cargo metadata --offline on a dependency-free crate");
        let _ = std::fs::remove_dir_all(&dir);
        DiagnosticSink::new(g)
    }
    const WELL_KNOWN: [&str; 9] = ["GET", "POST", "PUT", "DELETE", "PATCH", "HEAD", "OPTIONS", "CONNECT", "TRACE"];

    #[test]
    fn two_handlers_for_one_path_and_a_common_well_known_method_are_refused_and_nothing_else_is() {
        let thorough = std::env::var("VERIF_TIER").map(|t| t == "thorough").unwrap_or(false);
        let worlds = if thorough { 30_000 } else { 2_000 };
        let mut rng = Rng(0xD6E8_FEB8_6659_FD93);
        let diagnostics = sink();
        let mut b = ScopeGraph::builder(loc(0));
        let scope = b.root_scope_id();
        let (mut n_conflicting, mut n_clean) = (0, 0);
        for _ in 0..worlds {
            let mut aux = AuxiliaryData::default();
            let mut ids = Vec::new();
            let mut handlers: Vec<(String, Option<Vec<&str>>)> = Vec::new(); // (path, None = ANY | Some(methods))
            for k in 0..(1 + rng.below(5)) {
                let path = format!("/p{}", rng.below(3));
                // ANY guards, single methods, sets, the LAST well-known method (TRACE) and a custom method are all generated
                let guard = match rng.below(5) {
                    0 => None,
                    1 => Some(vec![WELL_KNOWN[rng.below(9)]]),
                    2 => Some(vec!["TRACE"]),
                    3 => Some(vec!["PURGE"]),
                    _ => Some((0..1 + rng.below(3)).map(|_| WELL_KNOWN[rng.below(9)]).collect()),
                };
                let coords = aux.annotation_coordinates_interner.get_or_intern(crate::rustdoc::AnnotationCoordinates {
                    id: format!("H{k}"), created_at: pavex_bp_schema::CreatedAt { package_name: "app".into(), package_version: "0.1.0".into() } });
                let component = UserComponent::RequestHandler {
                    router_key: RouterKey { path: path.clone(),
                        method_guard: match &guard { None => MethodGuard::Any, Some(ms) => MethodGuard::Some(ms.iter().map(|m| m.to_string()).collect()) },
                        domain_guard: None },
                    source: UserComponentSource::BlueprintRegistration(coords),
                };
                ids.push(aux.intern_component(component, scope, pavex_bp_schema::Lifecycle::RequestScoped, loc(k as u32 + 1).into()));
                handlers.push((path, guard));
            }
            // the statement: some pair of different handlers shares its path and a well-known method both can serve
            let admits = |g: &Option<Vec<&str>>, m: &str| match g { None => true, Some(ms) => ms.contains(&m) };
            let mut expected_conflict = false;
            for i in 0..handlers.len() { for j in (i + 1)..handlers.len() {
                if handlers[i].0 == handlers[j].0 && WELL_KNOWN.iter().any(|m| admits(&handlers[i].1, m) && admits(&handlers[j].1, m)) { expected_conflict = true; }
            } }
            let before = diagnostics.len();
            let r = PathRouter::detect_method_conflicts(&aux, &ids, &diagnostics);
            let pushed = diagnostics.len() - before;
            let _ = diagnostics.drain();
            if expected_conflict {
                assert!(r.is_err() && pushed >= 1, "VERIF: conflicting handlers {handlers:?} were not refused (result {r:?}, {pushed} diagnostics)");
                n_conflicting += 1;
            } else {
                assert!(r.is_ok() && pushed == 0, "VERIF: handlers {handlers:?} do not conflict but were refused (result {r:?}, {pushed} diagnostics)");
                n_clean += 1;
            }
        }
        assert!(n_conflicting > worlds / 10 && n_clean > worlds / 10, "the generator covers both outcomes");
        println!("VERIF-BOUNDED test=two_handlers_for_one_path_and_a_common_well_known_method_are_refused_and_nothing_else_is evaluations={worlds} bound={worlds} pseudo-random sets of up to 5 handlers over 3 paths (ANY, single, TRACE, custom and multi-method guards): {n_conflicting} conflicting, {n_clean} clean");
    }
}
