// ======================================================================================
// C08 (route conflicts) prelude
// ======================================================================================
use core::marker::PhantomData;
#[derive(Clone, Copy)] pub struct UserComponentId { pub raw: usize }
#[verifier::external_body] pub struct DomainGuard { _p: u8 }
#[verifier::external_body] pub struct BTreeSetString { _p: u8 }
pub uninterp spec fn set_has(s: &BTreeSetString, m: Seq<char>) -> bool;
impl BTreeSetString {
    #[verifier::external_body] pub fn contains(&self, m: &str) -> (r: bool) ensures r == set_has(self, m@) { unimplemented!() }
}
pub struct PathRouter { pub _p: u8 }
/// what the compiler knows about user components, reduced to "the component stored under an id"
pub enum UserComponent { RequestHandler { router_key: RouterKey, source: u8 }, Other }
#[verifier::external_body] pub struct AuxiliaryData { _p: u8 }
pub uninterp spec fn comp_of(a: &AuxiliaryData, id: UserComponentId) -> UserComponent;
impl AuxiliaryData {
    /// `&aux[id]` (Index<&UserComponentId>: `&self.component_interner[*id]`)
    #[verifier::external_body] pub fn verif_component(&self, id: &UserComponentId) -> (r: &UserComponent) ensures *r == comp_of(self, *id) { unimplemented!() }
}
#[verifier::external_body] pub struct DiagnosticSink { _p: u8 }
pub uninterp spec fn n_diag(d: &DiagnosticSink) -> nat;
impl DiagnosticSink {
    #[verifier::external_body] pub fn len(&self) -> (r: usize) ensures r == n_diag(self) { unimplemented!() }
}

// ---- iterators as ghost sequences (rule N21) ----------------------------------------------------------------------
#[verifier::external_body] #[verifier::accept_recursive_types(T)]
pub struct VerifIter<T> { _k: PhantomData<T> }
impl<T> View for VerifIter<T> { type V = Seq<T>; uninterp spec fn view(&self) -> Seq<T>; }
impl<T> VerifIter<T> {
    #[verifier::external_body]
    pub fn next(&mut self) -> (r: Option<T>)
        ensures match r {
            Some(x) => old(self)@.len() > 0 && x == old(self)@[0] && final(self)@ == old(self)@.drop_first(),
            None => old(self)@.len() == 0 && final(self)@ == old(self)@,
        }
    { unimplemented!() }
}
pub trait VerifIntoIter: Sized { type Item; spec fn verif_items(self) -> Seq<Self::Item>; }
impl<T> VerifIntoIter for VerifIter<T> { type Item = T; open spec fn verif_items(self) -> Seq<T> { self@ } }
impl<'a, T> VerifIntoIter for &'a Vec<T> { type Item = &'a T; open spec fn verif_items(self) -> Seq<&'a T> { Seq::new(self@.len(), |i: int| &self@[i]) } }
impl<'a, T> VerifIntoIter for &'a [T] { type Item = &'a T; open spec fn verif_items(self) -> Seq<&'a T> { Seq::new(self@.len(), |i: int| &self@[i]) } }
impl<T> VerifIntoIter for Vec<T> { type Item = T; open spec fn verif_items(self) -> Seq<T> { self@ } }
impl<T, const N: usize> VerifIntoIter for [T; N] { type Item = T; open spec fn verif_items(self) -> Seq<T> { self@ } }
#[verifier::external_body]
pub fn verif_into_iter<I: VerifIntoIter>(i: I) -> (r: VerifIter<I::Item>) ensures r@ == i.verif_items() { unimplemented!() }

// ---- indexmap ---------------------------------------------------------------------------------------------------
#[verifier::external_body] #[verifier::reject_recursive_types(K)] #[verifier::accept_recursive_types(V)]
pub struct IndexMap<K, V> { _k: PhantomData<(K, V)> }
impl<K, V> View for IndexMap<K, V> { type V = Map<K, V>; uninterp spec fn view(&self) -> Map<K, V>; }
impl<K, V> IndexMap<K, V> {
    #[verifier::external_body] pub fn new() -> (r: Self) ensures r@ == Map::<K, V>::empty() { unimplemented!() }
    /// every key once, with the value stored under it
    #[verifier::external_body] pub fn into_iter(self) -> (r: VerifIter<(K, V)>)
        ensures forall |k: K| #[trigger] self@.contains_key(k) ==> exists |j: int| 0 <= j < r@.len() && (#[trigger] r@[j]).0 == k && r@[j].1 == self@[k],
                forall |j: int| 0 <= j < r@.len() ==> self@.contains_key((#[trigger] r@[j]).0) && r@[j].1 == self@[r@[j].0]
    { unimplemented!() }
}
/// `map.entry(k).or_default().push(x)` (rule N7): x is appended to the vector under k, created empty when absent
#[verifier::external_body]
pub fn verif_group_push<K, T>(m: &mut IndexMap<K, Vec<T>>, k: K, x: T)
    ensures final(m)@.dom() == old(m)@.dom().insert(k),
            final(m)@[k]@ == (if old(m)@.contains_key(k) { old(m)@[k]@ } else { Seq::<T>::empty() }).push(x),
            forall |o: K| o != k && #[trigger] old(m)@.contains_key(o) ==> final(m)@[o] == old(m)@[o]
{ unimplemented!() }
#[verifier::external_body] #[verifier::reject_recursive_types(T)]
pub struct IndexSet<T> { _k: PhantomData<T> }
impl<T> View for IndexSet<T> { type V = Set<T>; uninterp spec fn view(&self) -> Set<T>; }
impl<T> IndexSet<T> {
    #[verifier::external_body] pub fn new() -> (r: Self) ensures r@ == Set::<T>::empty() { unimplemented!() }
    #[verifier::external_body] pub fn insert(&mut self, t: T) -> (r: bool) ensures final(self)@ == old(self)@.insert(t) { unimplemented!() }
    #[verifier::external_body] pub fn len(&self) -> (r: usize) ensures self@.finite() ==> r == self@.len() { unimplemented!() }
}
/// ASSUMED (diagnostic text): pushes exactly one diagnostic
#[verifier::external_body]
pub fn push_router_conflict_diagnostic(path: &str, method: &str, ids: &IndexSet<UserComponentId>, db: &AuxiliaryData, diagnostics: &mut DiagnosticSink)
    ensures n_diag(final(diagnostics)) == n_diag(old(diagnostics)) + 1 { unimplemented!() }
