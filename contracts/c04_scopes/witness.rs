// Native witness for C04 (appended to compiler/pavexc/src/compiler/analyses/constructibles.rs of the scratch copy).
// Drives the REAL ScopeGraphBuilder / ScopeGraph / ConstructiblesInScope / ConstructibleDb::get and compares with a
// reference model written from the property statement: nearest enclosing scope wins, latest registration in a scope
// wins, parents are inherited, siblings (and children) are invisible. Bounded: never counted as proved.
#[cfg(test)]
mod verif_witness_c04 {
    use super::*;
    use crate::language::{Lifetime, TypeReference};
    use rustdoc_ir::{ScalarPrimitive, Slice, Tuple};
    use std::collections::BTreeMap;

    fn cid(n: u32) -> ComponentId { la_arena::Idx::from_raw(la_arena::RawIdx::from_u32(n)) }
    fn loc(n: u32) -> pavex_bp_schema::Location { pavex_bp_schema::Location { line: n, column: 1, file: "witness.rs".into() } }
    fn pool() -> Vec<Type> {
        vec![
            Type::ScalarPrimitive(ScalarPrimitive::U8),
            Type::ScalarPrimitive(ScalarPrimitive::U16),
            Type::Tuple(Tuple { elements: vec![Type::ScalarPrimitive(ScalarPrimitive::U8)] }),
            Type::Slice(Slice { element_type: Box::new(Type::ScalarPrimitive(ScalarPrimitive::U32)) }),
            // a reference registered as an output type of its own
            Type::Reference(TypeReference { is_mutable: false, lifetime: Lifetime::Static, inner: Box::new(Type::ScalarPrimitive(ScalarPrimitive::U64)) }),
        ]
    }
    fn reference(t: &Type, is_mutable: bool, lifetime: Lifetime) -> Type {
        Type::Reference(TypeReference { is_mutable, lifetime, inner: Box::new(t.clone()) })
    }
    struct Rng(u64);
    impl Rng {
        fn next(&mut self) -> u64 { self.0 ^= self.0 << 13; self.0 ^= self.0 >> 7; self.0 ^= self.0 << 17; self.0 }
        fn below(&mut self, n: usize) -> usize { (self.next() % n as u64) as usize }
    }

    /// what ONE scope offers for a type, per the statement (latest registration for the type itself, by value; else for a
    /// non-'static reference the latest registration for the referent, borrowed)
    fn offers(regs: &BTreeMap<(usize, usize), u32>, pool: &[Type], scope: usize, q: &Query) -> Option<(u32, ConsumptionMode)> {
        let full = match q { Query::Plain(i) => Some(*i), Query::Ref { .. } => None, Query::StaticRefU64 => Some(4) };
        if let Some(i) = full { if let Some(c) = regs.get(&(scope, i)) { return Some((*c, ConsumptionMode::Move)); } }
        let _ = pool;
        match q {
            Query::Ref { of, is_mutable, is_static: false } => regs.get(&(scope, *of)).map(|c| (*c, if *is_mutable { ConsumptionMode::ExclusiveBorrow } else { ConsumptionMode::SharedBorrow })),
            _ => None,
        }
    }
    #[derive(Debug, Clone)]
    enum Query { Plain(usize), Ref { of: usize, is_mutable: bool, is_static: bool }, StaticRefU64 }
    fn query_type(pool: &[Type], q: &Query) -> Type {
        match q {
            Query::Plain(i) => pool[*i].clone(),
            Query::Ref { of, is_mutable, is_static } => reference(&pool[*of], *is_mutable, if *is_static { Lifetime::Static } else { Lifetime::Elided }),
            Query::StaticRefU64 => pool[4].clone(),
        }
    }

    fn one_world(rng: &mut Rng, n_scopes: usize, n_regs: usize) -> usize {
        let pool = pool();
        // ---- the real builder: a random tree of scopes (parents always exist already)
        let mut b = ScopeGraph::builder(loc(0));
        let mut ids = vec![b.root_scope_id()];
        let mut parent_of: BTreeMap<usize, Vec<usize>> = BTreeMap::new();
        parent_of.insert(0, vec![]);
        for k in 1..n_scopes {
            let p = rng.below(ids.len());
            // locations come from a small pool: `nest` called in a loop or through a helper gives siblings the SAME location
            let id = b.add_scope(ids[p], if rng.below(3) > 0 { Some(loc(rng.below(3) as u32)) } else { None });
            assert_eq!(ids.len(), k, "scopes are numbered in creation order");
            parent_of.insert(k, vec![p]);
            ids.push(id);
        }
        let graph = b.build();
        // the application-state scope: a child of every PARENT of a leaf scope (documented on ScopeGraphBuilder::build)
        let app = graph.application_state_scope_id();
        let has_children: std::collections::BTreeSet<usize> = parent_of.values().flatten().copied().collect();
        let mut app_parents: Vec<usize> = (0..n_scopes).filter(|s| !has_children.contains(s)).flat_map(|leaf| parent_of[&leaf].clone()).collect();
        app_parents.sort(); app_parents.dedup();
        let real_app_parents: Vec<usize> = app.direct_parent_ids(&graph).into_iter().map(|s| ids.iter().position(|x| *x == s).expect("a known scope")).collect();
        assert_eq!(real_app_parents, app_parents, "VERIF: the application state scope hangs under exactly the parents of the leaf scopes");
        // assumed contract of build()/direct_parent_ids, checked here on the real graph: same edges as the builder was given
        for (k, ps) in &parent_of {
            let real: Vec<usize> = ids[*k].direct_parent_ids(&graph).into_iter().map(|s| ids.iter().position(|x| *x == s).unwrap()).collect();
            assert_eq!(&real, ps, "VERIF: direct_parent_ids of scope {k}");
            assert!(real.iter().all(|p| p < k), "VERIF: parents have smaller ids than their children");
        }
        ids.push(app);
        parent_of.insert(n_scopes, app_parents);

        // ---- registrations through the real per-scope table; the model keeps the latest per (scope, type)
        let mut db = ConstructibleDb { scope_id2constructibles: IndexMap::new() };
        let mut regs: BTreeMap<(usize, usize), u32> = BTreeMap::new();
        for r in 0..n_regs {
            let s = rng.below(n_scopes); // nothing is registered in the application state scope
            let t = rng.below(pool.len());
            db.scope_id2constructibles.entry(ids[s]).or_insert_with(ConstructiblesInScope::new).insert(pool[t].clone(), cid(r as u32));
            regs.insert((s, t), r as u32);
        }
        // ---- every scope x every query
        let mut queries = vec![Query::StaticRefU64];
        for i in 0..4 {
            queries.push(Query::Plain(i));
            for m in [false, true] { for st in [false, true] { queries.push(Query::Ref { of: i, is_mutable: m, is_static: st }); } }
        }
        let mut n = 0;
        for s in 0..=n_scopes {
            for q in &queries {
                let got = db.get(ids[s], &query_type(&pool, q), &graph).map(|(c, m)| (c.into_raw().into_u32(), m));
                // model: climb level by level; the first level where some scope offers the type decides
                let mut level = vec![s];
                let mut expected: Option<Vec<(u32, ConsumptionMode)>> = None;
                while !level.is_empty() {
                    let cands: Vec<_> = level.iter().filter_map(|x| offers(&regs, &pool, *x, q)).collect();
                    if !cands.is_empty() { expected = Some(cands); break; }
                    let mut next: Vec<usize> = level.iter().flat_map(|x| parent_of[x].clone()).collect();
                    next.sort(); next.dedup();
                    level = next;
                }
                match (&expected, got) {
                    (None, None) => {}
                    (Some(c), Some(g)) if c.contains(&g) => {}
                    _ => panic!("VERIF: scope {s} asks for {q:?}: the statement designates {expected:?}, ConstructibleDb::get returned {got:?}; parents={parent_of:?} registrations={regs:?}"),
                }
                n += 1;
            }
        }
        n
    }

    #[test]
    fn bounded_search_over_scope_graphs_and_registrations() {
        let thorough = std::env::var("VERIF_TIER").map(|t| t == "thorough").unwrap_or(false);
        let worlds = if thorough { 20_000 } else { 1_500 };
        let mut rng = Rng(0x9E37_79B9_7F4A_7C15);
        let mut n = 0;
        for w in 0..worlds {
            let n_scopes = 1 + rng.below(if w % 7 == 0 { 14 } else { 7 });
            let n_regs = rng.below(12);
            n += one_world(&mut rng, n_scopes, n_regs);
        }
        println!("VERIF-BOUNDED test=bounded_search_over_scope_graphs_and_registrations evaluations={n} bound={worlds} pseudo-random scope trees (up to 14 scopes + the application state scope) x up to 11 registrations of 5 types; every scope asks for every type by value, &, &mut, &'static");
    }

    #[test]
    fn sibling_and_child_registrations_are_invisible_and_the_nearest_parent_wins() {
        let u8_ = Type::ScalarPrimitive(ScalarPrimitive::U8);
        let mut b = ScopeGraph::builder(loc(0));
        let root = b.root_scope_id();
        // both nested from the same line (a loop / a helper function): still two scopes
        let left = b.add_scope(root, Some(loc(1)));
        let right = b.add_scope(root, Some(loc(1)));
        assert_ne!(left, right, "two nest calls give two scopes, whatever their location");
        let left_route = b.add_scope(left, None);
        let right_route = b.add_scope(right, None);
        let graph = b.build();
        let mut db = ConstructibleDb { scope_id2constructibles: IndexMap::new() };
        let mut reg = |db: &mut ConstructibleDb, s: ScopeId, n: u32| db.scope_id2constructibles.entry(s).or_insert_with(ConstructiblesInScope::new).insert(u8_.clone(), cid(n));
        reg(&mut db, left, 1);
        assert_eq!(db.get(left_route, &u8_, &graph).map(|x| x.0), Some(cid(1)), "inherited from the enclosing blueprint");
        assert_eq!(db.get(right_route, &u8_, &graph).map(|x| x.0), None, "a sibling's registration is invisible");
        assert_eq!(db.get(root, &u8_, &graph).map(|x| x.0), None, "a child's registration is invisible to its parent");
        reg(&mut db, root, 2);
        assert_eq!(db.get(left_route, &u8_, &graph).map(|x| x.0), Some(cid(1)), "the nearest enclosing registration wins over the root's");
        assert_eq!(db.get(right_route, &u8_, &graph).map(|x| x.0), Some(cid(2)));
        reg(&mut db, left, 3);
        assert_eq!(db.get(left_route, &u8_, &graph).map(|x| x.0), Some(cid(3)), "within one blueprint the latest registration wins");
        let r = reference(&u8_, true, Lifetime::Elided);
        assert!(matches!(db.get(left_route, &r, &graph), Some((c, ConsumptionMode::ExclusiveBorrow)) if c == cid(3)));
        let r = reference(&u8_, false, Lifetime::Elided);
        assert!(matches!(db.get(left_route, &r, &graph), Some((c, ConsumptionMode::SharedBorrow)) if c == cid(3)));
    }
}
