// ======================================================================================
// C04 spec — what "the constructor the blueprint designates for that type at that route" means
// at the level of the scope graph and the per-scope tables.
// ======================================================================================

/// The entry a single scope offers for a type: the constructor registered for the type itself (taken by value), else,
/// for a non-'static reference, the constructor registered for the referent (borrowed, exclusively iff `&mut`).
pub open spec fn lookup_in(c: &ConstructiblesInScope, t: &Type) -> Option<(ComponentId, ConsumptionMode)> {
    if c.concrete@.contains_key(canon(t)) {
        Some((c.concrete@[canon(t)], ConsumptionMode::Move))
    } else {
        match t {
            Type::Reference(r) =>
                if !(r.lifetime is Static) && c.concrete@.contains_key(canon(&*r.inner)) {
                    Some((c.concrete@[canon(&*r.inner)], if r.is_mutable { ConsumptionMode::ExclusiveBorrow } else { ConsumptionMode::SharedBorrow }))
                } else { None },
            _ => None,
        }
    }
}
/// what scope `s` itself offers for `t`
pub open spec fn hit(db: &ConstructibleDb, s: ScopeId, t: &Type) -> Option<(ComponentId, ConsumptionMode)> {
    if db.scope_id2constructibles@.contains_key(s) { lookup_in(&db.scope_id2constructibles@[s], t) } else { None }
}

pub open spec fn is_parent(g: &ScopeGraph, b: ScopeId, p: ScopeId) -> bool { parent_seq(g, b).contains(p) }
/// `path` climbs the scope graph one direct parent at a time
pub open spec fn is_path(g: &ScopeGraph, path: Seq<ScopeId>) -> bool {
    forall |i: int| 0 <= i < path.len() - 1 ==> is_parent(g, #[trigger] path[i], path[i + 1])
}
/// `p` is reached from `s0` in exactly `k` parent steps (k = 0: the scope itself; sibling scopes are never reached)
pub open spec fn anc(g: &ScopeGraph, s0: ScopeId, k: nat, p: ScopeId) -> bool {
    exists |path: Seq<ScopeId>| #[trigger] is_path(g, path) && path.len() == k + 1 && path[0] == s0 && path[k as int] == p
}
/// no scope exactly `j` steps above `s0` offers a constructor for `t`
pub open spec fn level_clear(db: &ConstructibleDb, g: &ScopeGraph, s0: ScopeId, t: &Type, j: nat) -> bool {
    forall |b: ScopeId| #[trigger] anc(g, s0, j, b) ==> hit(db, b, t) is None
}
pub open spec fn level_empty(g: &ScopeGraph, s0: ScopeId, k: nat) -> bool { forall |p: ScopeId| !#[trigger] anc(g, s0, k, p) }
/// `r` is what scope `a` offers, `a` is `k` parent steps above `s0`, and no scope fewer steps away offers anything for `t`
pub open spec fn nearest_hit(db: &ConstructibleDb, g: &ScopeGraph, s0: ScopeId, t: &Type, k: nat, a: ScopeId, r: Option<(ComponentId, ConsumptionMode)>) -> bool {
    anc(g, s0, k, a) && hit(db, a, t) == r && forall |j: nat| j < k ==> #[trigger] level_clear(db, g, s0, t, j)
}
pub open spec fn anc_next(g: &ScopeGraph, s0: ScopeId, k: nat, p: ScopeId) -> bool { exists |b: ScopeId| #[trigger] anc(g, s0, k, b) && is_parent(g, b, p) }
pub open spec fn occurs(q: Seq<ScopeId>, lo: int, hi: int, b: ScopeId) -> bool { exists |i: int| lo <= i < hi && 0 <= i < q.len() && #[trigger] q[i] == b }

/// Representation invariant of a finished scope graph: every parent has a smaller id than its child (ids are handed out
/// in increasing order and a scope is attached to scopes that already exist) — in particular the graph is acyclic.
pub open spec fn wf_graph(g: &ScopeGraph) -> bool {
    forall |s: ScopeId, i: int| 0 <= i < parent_seq(g, s).len() ==> (#[trigger] parent_seq(g, s)[i]).0 < s.0
}
/// the same invariant on the builder
pub open spec fn wf_builder(b: &ScopeGraphBuilder) -> bool {
    &&& forall |n: usize| #[trigger] g_nodes(&b.graph).contains(n) ==> n < b.next_node_id
    &&& forall |e: (usize, usize)| #[trigger] g_edges(&b.graph).contains(e) ==> e.0 < e.1 && e.1 < b.next_node_id
    &&& g_nodes(&b.graph).contains(b.root.0)
}

// ---- termination measure of the walk: the number of upward paths that start at a scope ---------------------------
pub open spec fn w(g: &ScopeGraph, s: ScopeId) -> nat decreases s.0, 1nat, 0nat { 1 + sum_w(g, s.0 as nat, parent_seq(g, s)) }
pub open spec fn sum_w(g: &ScopeGraph, bound: nat, q: Seq<ScopeId>) -> nat decreases bound, 0nat, q.len() {
    if q.len() == 0 { 0 } else { (if q[0].0 < bound { w(g, q[0]) } else { 0 }) + sum_w(g, bound, q.drop_first()) }
}
pub open spec fn sum_all(g: &ScopeGraph, q: Seq<ScopeId>) -> nat decreases q.len() {
    if q.len() == 0 { 0 } else { w(g, q[0]) + sum_all(g, q.drop_first()) }
}
pub proof fn sum_w_is_sum_all(g: &ScopeGraph, bound: nat, q: Seq<ScopeId>)
    requires forall |i: int| 0 <= i < q.len() ==> (#[trigger] q[i]).0 < bound
    ensures sum_w(g, bound, q) == sum_all(g, q)
    decreases q.len()
{
    if q.len() > 0 {
        assert(q[0].0 < bound);
        assert forall |i: int| 0 <= i < q.drop_first().len() implies (#[trigger] q.drop_first()[i]).0 < bound by { assert(q.drop_first()[i] == q[i + 1]); }
        sum_w_is_sum_all(g, bound, q.drop_first());
    }
}
pub proof fn sum_all_concat(g: &ScopeGraph, a: Seq<ScopeId>, b: Seq<ScopeId>)
    ensures sum_all(g, a + b) == sum_all(g, a) + sum_all(g, b)
    decreases a.len()
{
    if a.len() == 0 { assert(a + b =~= b); }
    else {
        assert((a + b).drop_first() =~= a.drop_first() + b);
        assert((a + b)[0] == a[0]);
        sum_all_concat(g, a.drop_first(), b);
    }
}

// ---- the walk as a function: WHICH registration is designated (first hit in breadth-first order) -----------------
/// popping `q[0]` and queueing its parents strictly decreases the measure (on a well-formed graph)
pub proof fn pop_decreases(g: &ScopeGraph, q: Seq<ScopeId>)
    requires wf_graph(g), q.len() > 0
    ensures sum_all(g, q.drop_first() + parent_seq(g, q[0])) < sum_all(g, q)
{
    sum_all_concat(g, q.drop_first(), parent_seq(g, q[0]));
    sum_w_is_sum_all(g, q[0].0 as nat, parent_seq(g, q[0]));
}
/// what the breadth-first walk returns when started with the queue `q`
pub open spec fn bfs(db: &ConstructibleDb, g: &ScopeGraph, t: &Type, q: Seq<ScopeId>) -> Option<(ComponentId, ConsumptionMode)>
    decreases sum_all(g, q) when wf_graph(g) via bfs_decreases
{
    if q.len() == 0 { None }
    else if hit(db, q[0], t) is Some { hit(db, q[0], t) }
    else { bfs(db, g, t, q.drop_first() + parent_seq(g, q[0])) }
}
#[via_fn]
proof fn bfs_decreases(db: &ConstructibleDb, g: &ScopeGraph, t: &Type, q: Seq<ScopeId>) {
    if q.len() > 0 && !(hit(db, q[0], t) is Some) { pop_decreases(g, q); }
}
/// the registration the blueprint designates for type `t` as seen from scope `s` (None: no constructor in scope)
pub open spec fn designated(db: &ConstructibleDb, g: &ScopeGraph, s: ScopeId, t: &Type) -> Option<(ComponentId, ConsumptionMode)> {
    bfs(db, g, t, seq![s])
}

// ---- facts about `anc` ----------------------------------------------------------------------------------------
pub proof fn anc_zero(g: &ScopeGraph, s0: ScopeId, p: ScopeId)
    ensures anc(g, s0, 0, p) == (p == s0)
{
    if p == s0 { let path = seq![s0]; assert(is_path(g, path)); assert(path[0] == s0); }
}
pub proof fn anc_step(g: &ScopeGraph, s0: ScopeId, k: nat, p: ScopeId)
    ensures anc(g, s0, k + 1, p) == anc_next(g, s0, k, p)
{
    if anc(g, s0, k + 1, p) {
        let path = choose |path: Seq<ScopeId>| #[trigger] is_path(g, path) && path.len() == k + 2 && path[0] == s0 && path[k as int + 1] == p;
        let pre = path.drop_last();
        assert(is_path(g, pre)) by { assert forall |i: int| 0 <= i < pre.len() - 1 implies is_parent(g, #[trigger] pre[i], pre[i + 1]) by { assert(pre[i] == path[i]); assert(pre[i+1] == path[i+1]); } }
        assert(pre[k as int] == path[k as int]);
        assert(anc(g, s0, k, path[k as int]));
        assert(is_parent(g, path[k as int], path[k as int + 1]));
    }
    if anc_next(g, s0, k, p) {
        let b = choose |b: ScopeId| #[trigger] anc(g, s0, k, b) && is_parent(g, b, p);
        let pre = choose |path: Seq<ScopeId>| #[trigger] is_path(g, path) && path.len() == k + 1 && path[0] == s0 && path[k as int] == b;
        let path = pre.push(p);
        assert(is_path(g, path)) by { assert forall |i: int| 0 <= i < path.len() - 1 implies is_parent(g, #[trigger] path[i], path[i + 1]) by { if i < k { assert(path[i] == pre[i]); assert(path[i+1] == pre[i+1]); } } }
        assert(path[0] == s0 && path[k as int + 1] == p);
    }
}
pub proof fn empty_levels_stay_empty(g: &ScopeGraph, s0: ScopeId, k: nat, j: nat)
    requires level_empty(g, s0, k), j >= k
    ensures level_empty(g, s0, j)
    decreases j
{
    if j > k {
        empty_levels_stay_empty(g, s0, k, (j - 1) as nat);
        assert forall |p: ScopeId| !#[trigger] anc(g, s0, j, p) by { anc_step(g, s0, (j - 1) as nat, p); }
    }
}

// ---- the sentences of the property, from the contracts ----------------------------------------------------------
/// "the registration in the nearest enclosing blueprint wins": if the requesting scope itself registers a constructor
/// for the type, that one is returned, whatever its ancestors register.
pub proof fn own_scope_wins(db: &ConstructibleDb, g: &ScopeGraph, s0: ScopeId, t: &Type, r: Option<(ComponentId, ConsumptionMode)>)
    requires
        hit(db, s0, t) is Some,
        r is Some ==> exists |k: nat, a: ScopeId| #[trigger] nearest_hit(db, g, s0, t, k, a, r),
        r is None ==> forall |j: nat| #[trigger] level_clear(db, g, s0, t, j),
    ensures r == hit(db, s0, t)
{
    anc_zero(g, s0, s0);
    if r is None { assert(level_clear(db, g, s0, t, 0)); }
    else {
        let (k, a) = choose |k: nat, a: ScopeId| #[trigger] nearest_hit(db, g, s0, t, k, a, r);
        if k > 0 { assert(level_clear(db, g, s0, t, 0)); }
        anc_zero(g, s0, a);
    }
}
/// "registrations of sibling blueprints are invisible": a constructor registered only in scopes that are not on an
/// upward path from the requesting scope is never returned.
pub proof fn siblings_are_invisible(db: &ConstructibleDb, g: &ScopeGraph, s0: ScopeId, t: &Type, r: Option<(ComponentId, ConsumptionMode)>)
    requires
        forall |k: nat, a: ScopeId| #[trigger] anc(g, s0, k, a) ==> hit(db, a, t) is None,
        r is Some ==> exists |k: nat, a: ScopeId| #[trigger] nearest_hit(db, g, s0, t, k, a, r),
    ensures r is None
{
    if r is Some {
        let (k, a) = choose |k: nat, a: ScopeId| #[trigger] nearest_hit(db, g, s0, t, k, a, r);
        assert(anc(g, s0, k, a));
    }
}
/// "registrations of parents are inherited": a constructor registered in any enclosing scope makes the lookup succeed.
pub proof fn parents_are_inherited(db: &ConstructibleDb, g: &ScopeGraph, s0: ScopeId, t: &Type, r: Option<(ComponentId, ConsumptionMode)>, k: nat, a: ScopeId)
    requires
        anc(g, s0, k, a), hit(db, a, t) is Some,
        r is None ==> forall |j: nat| #[trigger] level_clear(db, g, s0, t, j),
    ensures r is Some
{
    if r is None { assert(level_clear(db, g, s0, t, k)); }
}
/// "within one blueprint, the latest registration wins" (concrete output types): after `insert(output, id)` the scope
/// offers `id` for that type, by value.
pub proof fn latest_registration_wins(pre: &ConstructiblesInScope, post: &ConstructiblesInScope, output: &Type, id: ComponentId)
    requires !is_template(output), post.concrete@ == pre.concrete@.insert(canon(output), id)
    ensures lookup_in(post, output) == Some((id, ConsumptionMode::Move))
{}

// ---- C08, one rule: "a singleton that depends on a request-scoped type" -------------------------------------------------
/// input `j` of component `id` is designated a request-scoped constructor
pub open spec fn input_offends(cdb: &ConstructibleDb, db: &ComponentDb, id: ComponentId, j: int) -> bool {
    0 <= j < inputs_of(db, id).len()
    && (designated(cdb, db_graph(db), scope_of(db, id), inputs_of(db, id)[j]) matches Some(d) && lifecycle_of(db, d.0) == Lifecycle::RequestScoped)
}
pub open spec fn any_input_offends(cdb: &ConstructibleDb, db: &ComponentDb, id: ComponentId, m: int) -> bool {
    exists |j: int| 0 <= j < m && #[trigger] input_offends(cdb, db, id, j)
}
/// component number `i` of the database is a singleton one of whose inputs is built per request
pub open spec fn breaks_the_singleton_rule(cdb: &ConstructibleDb, db: &ComponentDb, i: int) -> bool {
    0 <= i < db_ids(db).len() && lifecycle_of(db, db_ids(db)[i]) == Lifecycle::Singleton
    && any_input_offends(cdb, db, db_ids(db)[i], inputs_of(db, db_ids(db)[i]).len() as int)
}
pub open spec fn any_singleton_offends(cdb: &ConstructibleDb, db: &ComponentDb, n: int) -> bool {
    exists |i: int| 0 <= i < n && #[trigger] breaks_the_singleton_rule(cdb, db, i)
}
