// ======================================================================================
// C04 prelude — stand-ins / ASSUMED contracts for what the scope walk and the per-scope
// constructor tables of pavexc use (indexmap, ahash, petgraph, la_arena, rustdoc_ir).
// ======================================================================================
use std::collections::VecDeque;

// ---- rustdoc_ir: the payloads of `Type` other than references are opaque -------------------------------
#[verifier::external_body] pub struct PathType { _p: u8 }
#[verifier::external_body] pub struct Tuple { _p: u8 }
#[verifier::external_body] pub struct ScalarPrimitive { _p: u8 }
#[verifier::external_body] pub struct Slice { _p: u8 }
#[verifier::external_body] pub struct Array { _p: u8 }
#[verifier::external_body] pub struct RawPointer { _p: u8 }
#[verifier::external_body] pub struct FunctionPointer { _p: u8 }
#[verifier::external_body] pub struct Generic { _p: u8 }
#[verifier::external_body] pub struct NamedLifetime { _p: u8 }
/// rustdoc_ir::CanonicalType: a type with lifetimes and generic names normalised; compared with ==
#[verifier::external_body] pub struct CanonicalType { _p: u8 }
/// ASSUMED: canonicalisation and "contains an unassigned generic" are pure functions of the type (C17 is not claimed)
pub uninterp spec fn canon(t: &Type) -> CanonicalType;
pub uninterp spec fn is_template(t: &Type) -> bool;
impl Type {
    #[verifier::external_body] pub fn canonicalize(&self) -> (r: CanonicalType) ensures r == canon(self) { unimplemented!() }
    #[verifier::external_body] pub fn is_a_template(&self) -> (r: bool) ensures r == is_template(self) { unimplemented!() }
}

// ---- la_arena::Idx<Component> -----------------------------------------------------------------------------
#[derive(Clone, Copy)] pub struct ComponentId { pub raw: u32 }

// ---- maps: indexmap::IndexMap and ahash::HashMap as maps keyed by == ---------------------------------------
#[verifier::external_body] #[verifier::reject_recursive_types(K)] #[verifier::accept_recursive_types(V)]
pub struct IndexMap<K, V> { _k: core::marker::PhantomData<(K, V)> }
impl<K, V> View for IndexMap<K, V> { type V = Map<K, V>; uninterp spec fn view(&self) -> Map<K, V>; }
impl<K, V> IndexMap<K, V> {
    #[verifier::external_body] pub fn new() -> (r: Self) ensures r@ == Map::<K, V>::empty() { unimplemented!() }
    #[verifier::external_body] pub fn get(&self, k: &K) -> (r: Option<&V>)
        ensures match r { Some(v) => self@.contains_key(*k) && *v == self@[*k], None => !self@.contains_key(*k) } { unimplemented!() }
    /// indexmap: replaces the value of an existing key in place, appends otherwise; returns the old value
    #[verifier::external_body] pub fn insert(&mut self, k: K, v: V) -> (r: Option<V>)
        ensures final(self)@ == old(self)@.insert(k, v),
                match r { Some(o) => old(self)@.contains_key(k) && o == old(self)@[k], None => !old(self)@.contains_key(k) } { unimplemented!() }
}
#[verifier::external_body] #[verifier::reject_recursive_types(K)] #[verifier::accept_recursive_types(V)]
pub struct HashMap<K, V> { _k: core::marker::PhantomData<(K, V)> }
impl<K, V> View for HashMap<K, V> { type V = Map<K, V>; uninterp spec fn view(&self) -> Map<K, V>; }
impl<K, V> HashMap<K, V> {
    #[verifier::external_body] pub fn new() -> (r: Self) ensures r@ == Map::<K, V>::empty() { unimplemented!() }
    #[verifier::external_body] pub fn get(&self, k: &K) -> (r: Option<&V>)
        ensures match r { Some(v) => self@.contains_key(*k) && *v == self@[*k], None => !self@.contains_key(*k) } { unimplemented!() }
    #[verifier::external_body] pub fn insert(&mut self, k: K, v: V) -> (r: Option<V>)
        ensures final(self)@ == old(self)@.insert(k, v),
                match r { Some(o) => old(self)@.contains_key(k) && o == old(self)@[k], None => !old(self)@.contains_key(k) } { unimplemented!() }
}

// ---- petgraph::graphmap::DiGraphMap<usize, ()> as a node set and an edge set -------------------------------
#[verifier::external_body] #[verifier::reject_recursive_types(N)] #[verifier::reject_recursive_types(E)]
pub struct DiGraphMap<N, E> { _k: core::marker::PhantomData<(N, E)> }
pub uninterp spec fn g_nodes(g: &DiGraphMap<usize, ()>) -> Set<usize>;
/// (a, b): an edge from the parent scope a to the child scope b
pub uninterp spec fn g_edges(g: &DiGraphMap<usize, ()>) -> Set<(usize, usize)>;
impl DiGraphMap<usize, ()> {
    #[verifier::external_body] pub fn new() -> (r: Self)
        ensures g_nodes(&r) == Set::<usize>::empty(), g_edges(&r) == Set::<(usize, usize)>::empty() { unimplemented!() }
    #[verifier::external_body] pub fn add_node(&mut self, n: usize) -> (r: usize)
        ensures r == n, g_nodes(final(self)) == g_nodes(old(self)).insert(n), g_edges(final(self)) == g_edges(old(self)) { unimplemented!() }
    /// petgraph: adds the end points if they are missing
    #[verifier::external_body] pub fn add_edge(&mut self, a: usize, b: usize, w: ()) -> (r: Option<()>)
        ensures g_nodes(final(self)) == g_nodes(old(self)).insert(a).insert(b), g_edges(final(self)) == g_edges(old(self)).insert((a, b)) { unimplemented!() }
}
#[verifier::external_body] pub struct Location { _p: u8 }

// ---- the finished scope graph (ScopeGraphBuilder::build is an iterator chain over petgraph: ASSUMED) -----------
#[verifier::external_body] pub struct ScopeGraph { _p: u8 }
/// the direct parents of a scope, in the order `BTreeSet<ScopeId>` iterates them
pub uninterp spec fn parent_seq(g: &ScopeGraph, s: ScopeId) -> Seq<ScopeId>;
#[verifier::external_body] #[verifier::reject_recursive_types(T)]
pub struct BTreeSet<T> { _k: core::marker::PhantomData<T> }
pub uninterp spec fn bts_seq<T>(b: &BTreeSet<T>) -> Seq<T>;
impl ScopeId {
    /// ASSUMED (neighbors_directed(.., Incoming).map(ScopeId).collect()): exactly the direct parents
    #[verifier::external_body] pub fn direct_parent_ids(&self, g: &ScopeGraph) -> (r: BTreeSet<ScopeId>)
        ensures bts_seq(&r) == parent_seq(g, *self) { unimplemented!() }
}
/// `VecDeque::extend(BTreeSet)`: appends the elements in iteration order (rule N7: the call is retyped to this function)
#[verifier::external_body] pub fn verif_extend(q: &mut VecDeque<ScopeId>, b: BTreeSet<ScopeId>)
    ensures final(q)@ == old(q)@ + bts_seq(&b) { unimplemented!() }
/// std: `Option<&T>::copied`
pub assume_specification<'a, T>[Option::<&T>::copied](o: Option<&'a T>) -> (r: Option<T>)
    where T: Copy
    ensures r == (match o { Some(t) => Some(*t), None => None::<T> });

// ---- C08 (one rule): what verify_lifecycle_of_singleton_dependencies reads and writes ---------------------------------
use core::marker::PhantomData;
use vstd::std_specs::cmp::PartialEqSpecImpl;
/// An iterator as a ghost sequence of what it has yet to yield (rule N21 writes `for` out as `while let Some(..) = it.next()`)
#[verifier::external_body] #[verifier::accept_recursive_types(T)]
pub struct VerifIter<T> { _k: PhantomData<T> }
impl<T> View for VerifIter<T> { type V = Seq<T>; uninterp spec fn view(&self) -> Seq<T>; }
impl<T> VerifIter<T> {
    /// API neighbourhood (not called by the unchanged code): `Iterator::take` / `skip`
    #[verifier::external_body] pub fn take(self, n: usize) -> (r: VerifIter<T>) ensures r@ == self@.take(if n <= self@.len() { n as int } else { self@.len() as int }) { unimplemented!() }
    #[verifier::external_body] pub fn skip(self, n: usize) -> (r: VerifIter<T>) ensures r@ == self@.skip(if n <= self@.len() { n as int } else { self@.len() as int }) { unimplemented!() }
    #[verifier::external_body]
    pub fn next(&mut self) -> (r: Option<T>)
        ensures match r {
            Some(x) => old(self)@.len() > 0 && x == old(self)@[0] && final(self)@ == old(self)@.drop_first(),
            None => old(self)@.len() == 0 && final(self)@ == old(self)@,
        }
    { unimplemented!() }
}
/// what `for x in <value>` yields, in order (rule N21 hands every `for` iterable to `verif_into_iter`)
pub trait VerifIntoIter: Sized { type Item; spec fn verif_items(self) -> Seq<Self::Item>; }
impl<T> VerifIntoIter for VerifIter<T> { type Item = T; open spec fn verif_items(self) -> Seq<T> { self@ } }
impl<'a, T> VerifIntoIter for &'a Vec<T> { type Item = &'a T; open spec fn verif_items(self) -> Seq<&'a T> { Seq::new(self@.len(), |i: int| &self@[i]) } }
impl<'a, T> VerifIntoIter for &'a [T] { type Item = &'a T; open spec fn verif_items(self) -> Seq<&'a T> { Seq::new(self@.len(), |i: int| &self@[i]) } }
impl<T> VerifIntoIter for Vec<T> { type Item = T; open spec fn verif_items(self) -> Seq<T> { self@ } }
#[verifier::external_body]
pub fn verif_into_iter<I: VerifIntoIter>(i: I) -> (r: VerifIter<I::Item>) ensures r@ == i.verif_items() { unimplemented!() }
#[verifier::external_body] pub struct Component { _p: u8 }
#[verifier::external_body] pub struct ComponentDb { _p: u8 }
#[verifier::external_body] pub struct ComputationDb { _p: u8 }
#[verifier::external_body] pub struct HydratedComponent<'a> { _p: PhantomData<&'a u8> }
pub uninterp spec fn db_ids(db: &ComponentDb) -> Seq<ComponentId>;
pub uninterp spec fn lifecycle_of(db: &ComponentDb, id: ComponentId) -> Lifecycle;
pub uninterp spec fn scope_of(db: &ComponentDb, id: ComponentId) -> ScopeId;
pub uninterp spec fn db_graph(db: &ComponentDb) -> &ScopeGraph;
/// the input types of a component, in parameter order
pub uninterp spec fn inputs_of<'a>(db: &'a ComponentDb, id: ComponentId) -> Seq<&'a Type>;
pub uninterp spec fn hydrated_id<'a>(h: &HydratedComponent<'a>) -> ComponentId;
pub uninterp spec fn hydrated_db<'a>(h: &HydratedComponent<'a>) -> &'a ComponentDb;
impl ComponentDb {
    #[verifier::external_body]
    pub fn iter(&self) -> (r: VerifIter<(ComponentId, &Component)>)
        ensures r@.len() == db_ids(self).len(), forall |i: int| 0 <= i < db_ids(self).len() ==> (#[trigger] r@[i]).0 == db_ids(self)[i]
    { unimplemented!() }
    #[verifier::external_body] pub fn lifecycle(&self, id: ComponentId) -> (r: Lifecycle) ensures r == lifecycle_of(self, id) { unimplemented!() }
    #[verifier::external_body] pub fn scope_id(&self, id: ComponentId) -> (r: ScopeId) ensures r == scope_of(self, id) { unimplemented!() }
    #[verifier::external_body] pub fn scope_graph(&self) -> (r: &ScopeGraph) ensures r == db_graph(self) { unimplemented!() }
    #[verifier::external_body]
    pub fn hydrated_component<'a, 'b: 'a>(&'a self, id: ComponentId, computation_db: &'b ComputationDb) -> (r: HydratedComponent<'a>)
        ensures hydrated_id(&r) == id, hydrated_db(&r) == self { unimplemented!() }
}
impl<'a> HydratedComponent<'a> {
    /// `Vec<&Type>` iterated by value: the input types in order
    #[verifier::external_body] pub fn input_types(&self) -> (r: VerifIter<&'a Type>)
        ensures r@ == inputs_of(hydrated_db(self), hydrated_id(self)) { unimplemented!() }
}
#[verifier::external_body] pub struct DiagnosticSink { _p: u8 }
pub uninterp spec fn errors(d: &DiagnosticSink) -> nat;
impl ConstructibleDb {
    /// ASSUMED (diagnostic text): pushes exactly one error diagnostic
    #[verifier::external_body]
    pub fn singleton_must_not_depend_on_request_scoped(singleton_id: ComponentId, dependency_id: ComponentId, component_db: &ComponentDb, computation_db: &ComputationDb, diagnostics: &mut DiagnosticSink)
        ensures errors(final(diagnostics)) == errors(old(diagnostics)) + 1 { unimplemented!() }
}
