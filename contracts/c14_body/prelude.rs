// ======================================================================================
// C14 prelude — stand-ins / ASSUMED contracts: http, bytes, ubyte, http_body_util, hyper.
// ======================================================================================
use vstd::std_specs::convert::FromSpecImpl;
use vstd::std_specs::cmp::{PartialEqSpecImpl, PartialOrdSpecImpl};
use core::cmp::Ordering;

pub assume_specification<T>[<T as From<T>>::from](t: T) -> (r: T) ensures r == t;
#[verifier::allow(undeclared_external_trait)]
pub assume_specification<T, E>[Result::<T, E>::unwrap_or](res: Result<T, E>, default: T) -> (r: T)
    where E: core::marker::Destruct, T: core::marker::Destruct
    ensures r == (match res { Ok(t) => t, Err(_) => default });

// ---- ubyte::ByteUnit: a number of bytes (u64) -----------------------------------------------------
#[derive(Clone, Copy)]
pub struct ByteUnit(pub u64);
impl ByteUnit {
    pub fn as_u64(self) -> (r: u64) ensures r == self.0 { self.0 }
    /// `Ord::max` / `Ord::min` (API neighbourhood, not called by the unchanged code), as inherent methods
    pub fn max(self, o: ByteUnit) -> (r: ByteUnit) ensures r == (if self.0 >= o.0 { self } else { o }) { if self.0 >= o.0 { self } else { o } }
    pub fn min(self, o: ByteUnit) -> (r: ByteUnit) ensures r == (if self.0 <= o.0 { self } else { o }) { if self.0 <= o.0 { self } else { o } }
}
/// ubyte: `usize` compares with `ByteUnit` by number of bytes
impl PartialEq<ByteUnit> for usize { #[verifier::external_body] fn eq(&self, o: &ByteUnit) -> (r: bool) { unimplemented!() } }
impl PartialEqSpecImpl<ByteUnit> for usize {
    open spec fn obeys_eq_spec() -> bool { true }
    open spec fn eq_spec(&self, o: &ByteUnit) -> bool { *self as int == o.0 as int }
}
impl PartialOrd<ByteUnit> for usize { #[verifier::external_body] fn partial_cmp(&self, o: &ByteUnit) -> (r: Option<Ordering>) { unimplemented!() } }
impl PartialOrdSpecImpl<ByteUnit> for usize {
    open spec fn obeys_partial_cmp_spec() -> bool { true }
    open spec fn partial_cmp_spec(&self, o: &ByteUnit) -> Option<Ordering> {
        Some(if (*self as int) < o.0 as int { Ordering::Less } else if *self as int == o.0 as int { Ordering::Equal } else { Ordering::Greater })
    }
}
/// ubyte::ToByteUnit on integer literals: `n.megabytes()` = n * 10^6 bytes, etc. (only `megabytes` is called by the
/// unchanged code; the other units are the API neighbourhood).  Negative / overflowing inputs saturate in ubyte: not specified here.
pub trait ToByteUnit: Sized {
    spec fn as_int(self) -> int;
    fn bytes(self) -> (r: ByteUnit) ensures 0 <= self.as_int() <= u64::MAX ==> r.0 as int == self.as_int();
    fn kilobytes(self) -> (r: ByteUnit) ensures 0 <= self.as_int() * 1_000 <= u64::MAX ==> r.0 as int == self.as_int() * 1_000;
    fn kibibytes(self) -> (r: ByteUnit) ensures 0 <= self.as_int() * 1_024 <= u64::MAX ==> r.0 as int == self.as_int() * 1_024;
    fn megabytes(self) -> (r: ByteUnit) ensures 0 <= self.as_int() * 1_000_000 <= u64::MAX ==> r.0 as int == self.as_int() * 1_000_000;
    fn mebibytes(self) -> (r: ByteUnit) ensures 0 <= self.as_int() * 1_048_576 <= u64::MAX ==> r.0 as int == self.as_int() * 1_048_576;
    fn gigabytes(self) -> (r: ByteUnit) ensures 0 <= self.as_int() * 1_000_000_000 <= u64::MAX ==> r.0 as int == self.as_int() * 1_000_000_000;
    fn gibibytes(self) -> (r: ByteUnit) ensures 0 <= self.as_int() * 1_073_741_824 <= u64::MAX ==> r.0 as int == self.as_int() * 1_073_741_824;
}
impl ToByteUnit for i32 {
    open spec fn as_int(self) -> int { self as int }
    #[verifier::external_body] fn bytes(self) -> (r: ByteUnit) { unimplemented!() }
    #[verifier::external_body] fn kilobytes(self) -> (r: ByteUnit) { unimplemented!() }
    #[verifier::external_body] fn kibibytes(self) -> (r: ByteUnit) { unimplemented!() }
    #[verifier::external_body] fn megabytes(self) -> (r: ByteUnit) { unimplemented!() }
    #[verifier::external_body] fn mebibytes(self) -> (r: ByteUnit) { unimplemented!() }
    #[verifier::external_body] fn gigabytes(self) -> (r: ByteUnit) { unimplemented!() }
    #[verifier::external_body] fn gibibytes(self) -> (r: ByteUnit) { unimplemented!() }
}
/// ubyte: `ByteUnit` compares with integers by number of bytes (API neighbourhood)
impl PartialEq<i32> for ByteUnit { #[verifier::external_body] fn eq(&self, o: &i32) -> (r: bool) { unimplemented!() } }
impl PartialEqSpecImpl<i32> for ByteUnit {
    open spec fn obeys_eq_spec() -> bool { true }
    open spec fn eq_spec(&self, o: &i32) -> bool { self.0 as int == *o as int }
}
impl PartialOrd<i32> for ByteUnit { #[verifier::external_body] fn partial_cmp(&self, o: &i32) -> (r: Option<Ordering>) { unimplemented!() } }
impl PartialOrdSpecImpl<i32> for ByteUnit {
    open spec fn obeys_partial_cmp_spec() -> bool { true }
    open spec fn partial_cmp_spec(&self, o: &i32) -> Option<Ordering> {
        Some(if (self.0 as int) < *o as int { Ordering::Less } else if self.0 as int == *o as int { Ordering::Equal } else { Ordering::Greater })
    }
}

// ---- http: headers ---------------------------------------------------------------------------------
#[verifier::external_body] pub struct HeaderValue { _p: u8 }
#[verifier::external_body] pub struct HeaderMap { _p: u8 }
#[verifier::external_body] pub struct HeaderName { _p: u8 }
pub struct ToStrError;
/// pavex's RequestHead: only the field this unit reads
pub struct RequestHead { pub headers: HeaderMap }
#[verifier::external_body] pub const fn content_length_header() -> HeaderName { unimplemented!() }
pub uninterp spec fn hv_of(h: &HeaderMap) -> Option<HeaderValue>;
pub uninterp spec fn hv_str(v: &HeaderValue) -> Option<Seq<char>>;
impl HeaderMap {
    /// the value of the Content-Length header, if any (the only header this unit asks for)
    #[verifier::external_body]
    pub fn get(&self, n: HeaderName) -> (r: Option<&HeaderValue>)
        ensures match r { Some(v) => hv_of(self) == Some(*v), None => hv_of(self) is None }
    { unimplemented!() }
}
impl HeaderValue {
    #[verifier::external_body]
    pub fn to_str(&self) -> (r: Result<&str, ToStrError>)
        ensures match r { Ok(s) => hv_str(self) == Some(s@), Err(_) => hv_str(self) is None }
    { unimplemented!() }
}
#[verifier::external_trait_specification]
pub trait ExFromStr: Sized { type ExternalTraitSpecificationFor: std::str::FromStr; type Err; }
pub uninterp spec fn parse_spec<F>(s: Seq<char>) -> Option<F>;
pub assume_specification<F: std::str::FromStr>[str::parse::<F>](s: &str) -> (r: Result<F, <F as std::str::FromStr>::Err>)
    ensures (r is Ok) == (parse_spec::<F>(s@) is Some), r is Ok ==> Some(r->Ok_0) == parse_spec::<F>(s@);
/// what the Content-Length header declares: absent, not a string, or unparsable all mean `None`
pub open spec fn declared_len(h: &RequestHead) -> Option<usize> {
    match hv_of(&h.headers) {
        Some(v) => match hv_str(&v) { Some(s) => parse_spec::<usize>(s), None => None },
        None => None,
    }
}

// ---- bytes / http_body_util / hyper -------------------------------------------------------------------
#[verifier::external_body] pub struct Bytes { _p: u8 }
pub uninterp spec fn bytes_view(b: &Bytes) -> Seq<u8>;
impl View for Bytes { type V = Seq<u8>; open spec fn view(&self) -> Seq<u8> { bytes_view(self) } }
impl Bytes {
    /// API neighbourhood (not called by the unchanged code): the slicing operations of `bytes::Bytes`, exactly
    #[verifier::external_body] pub fn len(&self) -> (r: usize) ensures r == self@.len() { unimplemented!() }
    #[verifier::external_body] pub fn is_empty(&self) -> (r: bool) ensures r == (self@.len() == 0) { unimplemented!() }
    #[verifier::external_body] pub fn truncate(&mut self, n: usize)
        ensures final(self)@ == (if n < old(self)@.len() { old(self)@.take(n as int) } else { old(self)@ }) { unimplemented!() }
    #[verifier::external_body] pub fn split_to(&mut self, n: usize) -> (r: Bytes)
        requires n <= old(self)@.len()
        ensures r@ == old(self)@.take(n as int), final(self)@ == old(self)@.skip(n as int) { unimplemented!() }
    #[verifier::external_body] pub fn split_off(&mut self, n: usize) -> (r: Bytes)
        requires n <= old(self)@.len()
        ensures r@ == old(self)@.skip(n as int), final(self)@ == old(self)@.take(n as int) { unimplemented!() }
    #[verifier::external_body] pub fn clear(&mut self) ensures final(self)@.len() == 0 { unimplemented!() }
}
#[verifier::external_body] pub struct Collected { _p: u8 }
pub uninterp spec fn collected_view(c: &Collected) -> Seq<u8>;
impl Collected { #[verifier::external_body] pub fn to_bytes(self) -> (r: Bytes) ensures r@ == collected_view(&self) { unimplemented!() } }
/// `Collected::aggregate()` -> impl bytes::Buf (API neighbourhood, not called by the unchanged code):
///   remaining() = everything not yet consumed; chunk() = the first CONTIGUOUS piece only (a prefix of any length);
///   copy_to_bytes(n) consumes and returns the first n bytes.
pub struct AggregatedBuf { pub rest: Ghost<Seq<u8>> }
impl Collected {
    #[verifier::external_body] pub fn aggregate(self) -> (r: AggregatedBuf) ensures r.rest@ == collected_view(&self) { unimplemented!() }
}
impl AggregatedBuf {
    #[verifier::external_body] pub fn remaining(&self) -> (r: usize) ensures r == self.rest@.len() { unimplemented!() }
    #[verifier::external_body] pub fn chunk(&self) -> (r: &[u8]) ensures r@.len() <= self.rest@.len(), r@ == self.rest@.take(r@.len() as int) { unimplemented!() }
    #[verifier::external_body] pub fn copy_to_bytes(&mut self, n: usize) -> (r: Bytes)
        requires n <= old(self).rest@.len()
        ensures r@ == old(self).rest@.take(n as int), final(self).rest@ == old(self).rest@.skip(n as int)
    { unimplemented!() }
}
/// Box<dyn std::error::Error + Send + Sync>
#[verifier::external_body] pub struct BoxError { _p: u8 }
pub uninterp spec fn is_error_type<T>(e: &BoxError) -> bool;
impl BoxError {
    #[verifier::external_body]
    pub fn downcast_ref<T>(&self) -> (r: Option<&T>) ensures (r is Some) == is_error_type::<T>(self) { unimplemented!() }
}
pub mod http_body_util { pub struct LengthLimitError; }
/// hyper::body::Body (+ http_body_util::BodyExt::collect).
///   content() — the concatenation of all data frames the body will yield, however chunked;
///   fails()   — reading it to the end runs into a transport error.
pub trait Body: Sized {
    type Error;
    spec fn content(&self) -> Seq<u8>;
    spec fn fails(&self) -> bool;
    /// BodyExt::collect WITHOUT any limit: the whole body, or the transport error
    fn collect(self) -> (r: Result<Collected, Self::Error>)
        ensures
            r matches Ok(c) ==> collected_view(&c) == self.content() && !self.fails(),
            r is Err ==> self.fails();
}
pub struct Limited<B> { pub inner: B, pub limit: usize }
impl<B: Body> Limited<B> {
    pub fn new(inner: B, limit: usize) -> (r: Self) ensures r.inner == inner, r.limit == limit { Limited { inner, limit } }
    /// ASSUMED contract of http_body_util::Limited + BodyExt::collect:
    /// Ok = the whole body, which fits the limit; Err = LengthLimitError exactly when a healthy body is larger than the
    /// limit, otherwise the inner body's own failure.
    #[verifier::external_body]
    pub fn collect(self) -> (r: Result<Collected, BoxError>)
        ensures match r {
            Ok(c) => collected_view(&c) == self.inner.content() && self.inner.content().len() <= self.limit && !self.inner.fails(),
            Err(e) => if is_error_type::<http_body_util::LengthLimitError>(&e) { self.inner.content().len() > self.limit }
                      else { self.inner.fails() },
        },
        (!self.inner.fails() && self.inner.content().len() <= self.limit) ==> r is Ok,
    { unimplemented!() }
}
/// pavex::request::body::RawIncomingBody (hyper::body::Incoming)
#[verifier::external_body] pub struct RawIncomingBody { _p: u8 }
pub uninterp spec fn raw_content(b: &RawIncomingBody) -> Seq<u8>;
pub uninterp spec fn raw_fails(b: &RawIncomingBody) -> bool;
#[verifier::external_body] pub struct HyperError { _p: u8 }
impl Body for RawIncomingBody {
    type Error = HyperError;
    open spec fn content(&self) -> Seq<u8> { raw_content(self) }
    open spec fn fails(&self) -> bool { raw_fails(self) }
    #[verifier::external_body]
    fn collect(self) -> (r: Result<Collected, HyperError>) { unimplemented!() }
}
/// conversions into Box<dyn Error + Send + Sync> (std blanket impl `From<E: Error>`), opaque
pub uninterp spec fn boxed<E>(e: E) -> BoxError;
impl FromSpecImpl<HyperError> for BoxError { open spec fn obeys_from_spec() -> bool { true } open spec fn from_spec(e: HyperError) -> Self { boxed(e) } }
impl From<HyperError> for BoxError { #[verifier::external_body] fn from(e: HyperError) -> (r: Self) { unimplemented!() } }
impl FromSpecImpl<ToStrError> for BoxError { open spec fn obeys_from_spec() -> bool { true } open spec fn from_spec(e: ToStrError) -> Self { boxed(e) } }
impl From<ToStrError> for BoxError { #[verifier::external_body] fn from(e: ToStrError) -> (r: Self) { unimplemented!() } }
impl FromSpecImpl<std::num::ParseIntError> for BoxError { open spec fn obeys_from_spec() -> bool { true } open spec fn from_spec(e: std::num::ParseIntError) -> Self { boxed(e) } }
impl From<std::num::ParseIntError> for BoxError { #[verifier::external_body] fn from(e: std::num::ParseIntError) -> (r: Self) { unimplemented!() } }
#[verifier::external_type_specification]
#[verifier::external_body]
pub struct ExParseIntError(std::num::ParseIntError);

// ---- the JSON / form extractors built on BufferedBody: serde as uninterpreted parse functions -------------------
/// serde::Deserialize: what a byte string parses to, as a JSON document and as a urlencoded form
pub trait Deserialize<'de>: Sized {
    spec fn json_of(b: Seq<u8>) -> Option<Self>;
    spec fn form_of(b: Seq<u8>) -> Option<Self>;
}
#[verifier::external_body] pub struct PathError { _p: u8 }
#[verifier::external_body] pub struct FormError { _p: u8 }
impl Bytes {
    /// `<Bytes as AsRef<[u8]>>::as_ref`
    #[verifier::external_body] pub fn as_ref(&self) -> (r: &[u8]) ensures r@ == self@ { unimplemented!() }
}
pub mod serde_json {
    use super::*;
    /// serde_json::Deserializer<SliceRead>: remembers exactly the slice it was built from
    pub struct Deserializer { pub input: Ghost<Seq<u8>> }
    impl Deserializer {
        #[verifier::external_body] pub fn from_slice(b: &[u8]) -> (r: Deserializer) ensures r.input@ == b@ { unimplemented!() }
    }
}
pub mod serde_path_to_error {
    use super::*;
    /// ASSUMED: the result is a function of the deserializer's input and of nothing else. (`json_of` is "one value from the
    /// front of the input": pavex does not call `Deserializer::end`, so trailing bytes after the first JSON value are
    /// ignored — measured by a probe; outside C14's statement, which bounds and identifies the BYTES.)
    #[verifier::external_body]
    pub fn deserialize<'de, T: Deserialize<'de>>(d: &mut serde_json::Deserializer) -> (r: Result<T, PathError>)
        ensures match r { Ok(v) => T::json_of(old(d).input@) == Some(v), Err(_) => T::json_of(old(d).input@) is None }
    { unimplemented!() }
}
pub mod serde_html_form {
    use super::*;
    #[verifier::external_body]
    pub fn from_bytes<'de, T: Deserialize<'de>>(b: &'de [u8]) -> (r: Result<T, FormError>)
        ensures match r { Ok(v) => T::form_of(b@) == Some(v), Err(_) => T::form_of(b@) is None }
    { unimplemented!() }
}
/// the Content-Type checks (mime parsing) are not part of the size/identity statement: no contract
#[verifier::external_body] pub fn check_json_content_type(headers: &HeaderMap) -> (r: Result<(), ExtractJsonBodyError>) { unimplemented!() }
#[verifier::external_body] pub fn check_urlencoded_content_type(headers: &HeaderMap) -> (r: Result<(), ExtractUrlEncodedBodyError>) { unimplemented!() }
