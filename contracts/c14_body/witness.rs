#[cfg(test)]
mod verif_witness {
    //! Native witness/replay for C14: drives the real `_extract_with_limit` with bodies chunked in several ways.
    use super::{BufferedBody, Bytes};
    use crate::request::RequestHead;
    use crate::request::body::errors::ExtractBufferedBodyError;
    use http::HeaderMap;
    use ubyte::ToByteUnit;

    fn head(content_length: Option<&str>) -> RequestHead {
        let mut headers = HeaderMap::new();
        if let Some(v) = content_length { headers.insert(http::header::CONTENT_LENGTH, v.parse().unwrap()); }
        RequestHead { method: http::Method::POST, target: "/".parse().unwrap(), version: http::Version::HTTP_11, headers }
    }
    /// a body that yields its bytes in chunks of `chunk` bytes
    fn chunked(data: &[u8], chunk: usize) -> impl hyper::body::Body<Data = Bytes, Error = std::convert::Infallible> {
        let frames: Vec<Result<hyper::body::Frame<Bytes>, std::convert::Infallible>> = data
            .chunks(chunk.max(1)).map(|c| Ok(hyper::body::Frame::data(Bytes::copy_from_slice(c)))).collect();
        http_body_util::StreamBody::new(futures_util::stream::iter(frames))
    }
    async fn run(data: &[u8], chunk: usize, limit: u64, cl: Option<&str>) -> Result<BufferedBody, ExtractBufferedBodyError> {
        BufferedBody::_extract_with_limit(&head(cl), chunked(data, chunk), limit.bytes()).await
    }
    #[tokio::test]
    async fn never_more_than_the_limit_however_chunked() {
        for n in [0usize, 1, 9, 10, 11, 25] {
            let data: Vec<u8> = (0..n).map(|i| i as u8).collect();
            for chunk in [1usize, 3, 10, 64] {
                let r = run(&data, chunk, 10, None).await;
                match r {
                    Ok(b) => { assert!(n <= 10, "handed {n} bytes to the application with a limit of 10"); assert_eq!(&b.bytes[..], &data[..]); }
                    Err(ExtractBufferedBodyError::SizeLimitExceeded(_)) => assert!(n > 10, "size error for a body of {n} <= 10 bytes"),
                    Err(e) => panic!("unexpected error {e:?}"),
                }
            }
        }
    }
    #[tokio::test]
    async fn content_length_claims_do_not_matter_for_the_bound() {
        let data = vec![7u8; 20];
        // lies low: the body is still cut off
        assert!(matches!(run(&data, 4, 10, Some("3")).await, Err(ExtractBufferedBodyError::SizeLimitExceeded(_))));
        // garbage header: ignored
        assert!(matches!(run(&data, 4, 10, Some("not-a-number")).await, Err(ExtractBufferedBodyError::SizeLimitExceeded(_))));
        assert_eq!(&run(&data[..10], 4, 10, Some("not-a-number")).await.unwrap().bytes[..], &data[..10]);
        // exactly at the limit is fine, one above is rejected up front
        assert_eq!(run(&data[..10], 4, 10, Some("10")).await.unwrap().bytes.len(), 10);
        assert!(matches!(run(&data[..5], 4, 10, Some("11")).await, Err(ExtractBufferedBodyError::SizeLimitExceeded(_))));
    }
    /// "byte-identical to what the client sent … whatever the Content-Length header claims": every combination of limit,
    /// body length around it, frame size and Content-Length (absent, truthful, smaller, larger, zero, garbage, negative)
    #[tokio::test]
    async fn the_buffer_is_what_was_sent_or_a_size_error_whatever_content_length_claims() {
        let mut n_cases = 0usize;
        for limit in [0u64, 1, 7, 16] {
            for len in [0usize, 1, 6, 7, 8, 15, 16, 17, 40] {
                // arbitrary bytes, including a UTF-8 byte-order mark, NULs, 0xFF and trailing blanks / newlines: a body is bytes
                let mut data: Vec<u8> = (0..len).map(|i| (i * 7 + 3) as u8).collect();
                for (k, b) in [0xEFu8, 0xBB, 0xBF, 0x00, 0xFF].iter().enumerate() { if k < len && len % 2 == 0 { data[k] = *b; } }
                if len >= 2 && len % 3 == 0 { data[len - 1] = b'\n'; data[len - 2] = b' '; }
                let claims: Vec<Option<String>> = vec![None, Some(len.to_string()), Some("0".into()), Some(len.saturating_sub(1).to_string()), Some((len / 2).to_string()),
                    Some((len + 1).to_string()), Some((limit + 1).to_string()), Some(limit.to_string()), Some("garbage".into()), Some("-1".into()), Some("18446744073709551616".into())];
                for cl in &claims { for chunk in [1usize, 3, 64] {
                    n_cases += 1;
                    let case = format!("limit={limit} body={len} bytes in frames of {chunk}, content-length={cl:?}");
                    match run(&data, chunk, limit, cl.as_deref()).await {
                        Ok(b) => { assert!(len as u64 <= limit, "{case}: {} bytes were handed to the application", b.bytes.len()); assert_eq!(&b.bytes[..], &data[..], "{case}: not byte-identical to what the client sent"); }
                        Err(ExtractBufferedBodyError::SizeLimitExceeded(_)) => {
                            let declared_over = cl.as_deref().and_then(|c| c.parse::<usize>().ok()).is_some_and(|c| c as u64 > limit);
                            assert!(len as u64 > limit || declared_over, "{case}: size error although neither the body nor the declared length exceeds the limit");
                        }
                        Err(e) => panic!("{case}: unexpected error {e:?}"),
                    }
                } }
            }
        }
        println!("VERIF-BOUNDED test=the_buffer_is_what_was_sent_or_a_size_error_whatever_content_length_claims evaluations={n_cases} bound=limits {{0,1,7,16}} x body lengths {{0,1,6,7,8,15,16,17,40}} x 11 Content-Length claims x frame sizes {{1,3,64}}");
    }
    #[test]
    fn the_default_limit_is_enabled() {
        match crate::request::body::BodySizeLimit::default() {
            crate::request::body::BodySizeLimit::Enabled { max_size } => assert_eq!(max_size.as_u64(), 2_000_000),
            crate::request::body::BodySizeLimit::Disabled => panic!("the default must not disable the limit"),
        }
    }
    // ---- the public extractor, fed by a real hyper::body::Incoming (in-memory HTTP/1.1 exchange over tokio::io::duplex) ----
    type Outcome = Result<BufferedBody, ExtractBufferedBodyError>;
    async fn extract_over_hyper(frames: Vec<Vec<u8>>, content_length: Option<String>, limit: crate::request::body::BodySizeLimit) -> Outcome {
        extract_over(frames, content_length, limit, false).await
    }
    /// the same over HTTP/2 (streamed DATA frames; Content-Length optional and no Transfer-Encoding)
    async fn extract_over_h2(frames: Vec<Vec<u8>>, content_length: Option<String>, limit: crate::request::body::BodySizeLimit) -> Outcome {
        extract_over(frames, content_length, limit, true).await
    }
    async fn extract_over(frames: Vec<Vec<u8>>, content_length: Option<String>, limit: crate::request::body::BodySizeLimit, h2: bool) -> Outcome {
        use hyper_util::rt::TokioIo;
        use std::convert::Infallible;
        let (client_io, server_io) = tokio::io::duplex(1 << 16);
        let (tx, mut rx) = tokio::sync::mpsc::unbounded_channel::<Outcome>();
        let server = async move {
            let service = hyper::service::service_fn(move |req: http::Request<hyper::body::Incoming>| {
                let tx = tx.clone();
                async move {
                    let (parts, body) = req.into_parts();
                    let head = RequestHead { method: parts.method, target: parts.uri, version: parts.version, headers: parts.headers };
                    let _ = tx.send(BufferedBody::extract(&head, body.into(), limit).await);
                    Ok::<_, Infallible>(http::Response::new(http_body_util::Full::new(Bytes::new())))
                }
            });
            if h2 { let _ = hyper::server::conn::http2::Builder::new(hyper_util::rt::TokioExecutor::new()).serve_connection(TokioIo::new(server_io), service).await; }
            else { let _ = hyper::server::conn::http1::Builder::new().serve_connection(TokioIo::new(server_io), service).await; }
        };
        let client = async move {
            let frames = frames.into_iter().map(|f| Ok::<_, Infallible>(hyper::body::Frame::data(Bytes::from(f))));
            let body = http_body_util::StreamBody::new(futures_util::stream::iter(frames));
            let mut req = http::Request::builder().method("POST").uri(if h2 { "http://localhost/" } else { "/" });
            if !h2 { req = req.header("host", "localhost"); }
            if let Some(cl) = content_length { req = req.header("content-length", cl); }
            let req = req.body(body).unwrap();
            if h2 {
                let (mut sender, conn) = hyper::client::conn::http2::handshake(hyper_util::rt::TokioExecutor::new(), TokioIo::new(client_io)).await.unwrap();
                let driver = tokio::spawn(async move { let _ = conn.await; });
                let _ = sender.send_request(req).await;
                drop(sender); driver.abort();
            } else {
                let (mut sender, conn) = hyper::client::conn::http1::handshake(TokioIo::new(client_io)).await.unwrap();
                tokio::join!(async move { let _ = sender.send_request(req).await; }, async move { let _ = conn.await; });
            }
        };
        tokio::join!(server, client);
        rx.recv().await.expect("the server never ran the extractor")
    }
    /// extract.enabled_enforces_the_limit / extract.disabled_returns_the_whole_body on the public entry point:
    /// every limit in {0, 1, 10}, body lengths around it, several splits into frames, truthful or absent Content-Length.
    #[tokio::test]
    async fn the_public_extractor_enforces_every_limit_on_a_real_incoming_body() {
        use crate::request::body::BodySizeLimit;
        for limit in [0u64, 1, 10] {
            for n in [0usize, 1, 2, 9, 10, 11, 30] {
                let data: Vec<u8> = (0..n).map(|i| b'a' + (i % 26) as u8).collect();
                for chunk in [1usize, 4, 64] {
                    for with_cl in [false, true] {
                        let frames: Vec<Vec<u8>> = data.chunks(chunk).map(|c| c.to_vec()).collect();
                        let cl = with_cl.then(|| n.to_string());
                        let case = format!("limit={limit} body={n} bytes in frames of {chunk}, content-length={cl:?}");
                        match extract_over_hyper(frames, cl, BodySizeLimit::Enabled { max_size: limit.bytes() }).await {
                            Ok(b) => { assert!(n as u64 <= limit, "{case}: {} bytes were handed to the application", b.bytes.len()); assert_eq!(&b.bytes[..], &data[..], "{case}: not byte-identical"); }
                            Err(ExtractBufferedBodyError::SizeLimitExceeded(_)) => assert!(n as u64 > limit, "{case}: size error for a body within the limit"),
                            Err(e) => panic!("{case}: unexpected error {e:?}"),
                        }
                    }
                }
            }
        }
        println!("VERIF-BOUNDED test=the_public_extractor_enforces_every_limit_on_a_real_incoming_body evaluations={} bound=limits {{0,1,10}} x body lengths {{0,1,2,9,10,11,30}} x frame sizes {{1,4,64}} x Content-Length {{absent, truthful}}", 3 * 7 * 3 * 2);
        // HTTP/2: streamed bodies without Content-Length (and without Transfer-Encoding) are bodies all the same
        for limit in [0u64, 10] { for n in [0usize, 9, 10, 11, 30] { for with_cl in [false, true] {
            let data: Vec<u8> = (0..n).map(|i| b'a' + (i % 26) as u8).collect();
            let frames: Vec<Vec<u8>> = data.chunks(4).map(|c| c.to_vec()).collect();
            let cl = with_cl.then(|| n.to_string());
            let case = format!("HTTP/2 limit={limit} body={n} bytes, content-length={cl:?}");
            match extract_over_h2(frames, cl, BodySizeLimit::Enabled { max_size: limit.bytes() }).await {
                Ok(b) => { assert!(n as u64 <= limit, "{case}: {} bytes were handed to the application", b.bytes.len()); assert_eq!(&b.bytes[..], &data[..], "{case}: not byte-identical to what the client sent"); }
                Err(ExtractBufferedBodyError::SizeLimitExceeded(_)) => assert!(n as u64 > limit, "{case}: size error for a body within the limit"),
                Err(e) => panic!("{case}: unexpected error {e:?}"),
            }
        } } }
        let data = vec![9u8; 5000];
        let b = extract_over_hyper(data.chunks(700).map(|c| c.to_vec()).collect(), None, BodySizeLimit::Disabled).await.expect("no limit: no size error");
        assert_eq!(&b.bytes[..], &data[..]);
    }
    /// json./form.value_is_the_deserialisation_of_exactly_the_buffered_bytes: the typed extractors see the buffered bytes,
    /// and nothing else.
    #[tokio::test]
    async fn typed_extractors_parse_exactly_the_buffered_bytes() {
        use crate::request::body::{BodySizeLimit, JsonBody, UrlEncodedBody};
        #[derive(serde::Deserialize, Debug, PartialEq)] struct Doc { a: u32, b: String }
        let mut head = head(None);
        head.headers.insert(http::header::CONTENT_TYPE, "application/json".parse().unwrap());
        let json = br#"{"a": 7, "b": "seven"}"#.to_vec();
        for chunk in [1usize, 5, 64] {
            let frames: Vec<Vec<u8>> = json.chunks(chunk).map(|c| c.to_vec()).collect();
            let b = extract_over_hyper(frames, None, BodySizeLimit::Enabled { max_size: 64.bytes() }).await.unwrap();
            assert_eq!(JsonBody::<Doc>::extract(&head, &b).unwrap().0, Doc { a: 7, b: "seven".into() });
            let frames: Vec<Vec<u8>> = json.chunks(chunk).map(|c| c.to_vec()).collect();
            assert!(extract_over_hyper(frames, None, BodySizeLimit::Enabled { max_size: (json.len() as u64 - 1).bytes() }).await.is_err(), "one byte over the limit: no BufferedBody, hence no JsonBody");
        }
        head.headers.insert(http::header::CONTENT_TYPE, "application/x-www-form-urlencoded".parse().unwrap());
        let form = BufferedBody { bytes: Bytes::from_static(b"a=7&b=seven") };
        assert_eq!(UrlEncodedBody::<Doc>::extract(&head, &form).unwrap().0, Doc { a: 7, b: "seven".into() });
    }
}
