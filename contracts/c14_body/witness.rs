#[cfg(test)]
mod verif_witness {
    //! Native witness/replay for C14: drives the real `_extract_with_limit` with bodies chunked in several ways.
    use super::{BufferedBody, Bytes};
    use crate::request::RequestHead;
    use crate::request::body::errors::ExtractBufferedBodyError;
    use http::HeaderMap;
    use ubyte::ToByteUnit;

    fn head(content_length: Option<&str>) -> RequestHead {
        let mut headers = HeaderMap::new();
        if let Some(v) = content_length { headers.insert(http::header::CONTENT_LENGTH, v.parse().unwrap()); }
        RequestHead { method: http::Method::POST, target: "/".parse().unwrap(), version: http::Version::HTTP_11, headers }
    }
    /// a body that yields its bytes in chunks of `chunk` bytes
    fn chunked(data: &[u8], chunk: usize) -> impl hyper::body::Body<Data = Bytes, Error = std::convert::Infallible> {
        let frames: Vec<Result<hyper::body::Frame<Bytes>, std::convert::Infallible>> = data
            .chunks(chunk.max(1)).map(|c| Ok(hyper::body::Frame::data(Bytes::copy_from_slice(c)))).collect();
        http_body_util::StreamBody::new(futures_util::stream::iter(frames))
    }
    async fn run(data: &[u8], chunk: usize, limit: u64, cl: Option<&str>) -> Result<BufferedBody, ExtractBufferedBodyError> {
        BufferedBody::_extract_with_limit(&head(cl), chunked(data, chunk), limit.bytes()).await
    }
    #[tokio::test]
    async fn never_more_than_the_limit_however_chunked() {
        for n in [0usize, 1, 9, 10, 11, 25] {
            let data: Vec<u8> = (0..n).map(|i| i as u8).collect();
            for chunk in [1usize, 3, 10, 64] {
                let r = run(&data, chunk, 10, None).await;
                match r {
                    Ok(b) => { assert!(n <= 10, "handed {n} bytes to the application with a limit of 10"); assert_eq!(&b.bytes[..], &data[..]); }
                    Err(ExtractBufferedBodyError::SizeLimitExceeded(_)) => assert!(n > 10, "size error for a body of {n} <= 10 bytes"),
                    Err(e) => panic!("unexpected error {e:?}"),
                }
            }
        }
    }
    #[tokio::test]
    async fn content_length_claims_do_not_matter_for_the_bound() {
        let data = vec![7u8; 20];
        // lies low: the body is still cut off
        assert!(matches!(run(&data, 4, 10, Some("3")).await, Err(ExtractBufferedBodyError::SizeLimitExceeded(_))));
        // garbage header: ignored
        assert!(matches!(run(&data, 4, 10, Some("not-a-number")).await, Err(ExtractBufferedBodyError::SizeLimitExceeded(_))));
        assert_eq!(&run(&data[..10], 4, 10, Some("not-a-number")).await.unwrap().bytes[..], &data[..10]);
        // exactly at the limit is fine, one above is rejected up front
        assert_eq!(run(&data[..10], 4, 10, Some("10")).await.unwrap().bytes.len(), 10);
        assert!(matches!(run(&data[..5], 4, 10, Some("11")).await, Err(ExtractBufferedBodyError::SizeLimitExceeded(_))));
    }
    #[test]
    fn the_default_limit_is_enabled() {
        match crate::request::body::BodySizeLimit::default() {
            crate::request::body::BodySizeLimit::Enabled { max_size } => assert_eq!(max_size.as_u64(), 2_000_000),
            crate::request::body::BodySizeLimit::Disabled => panic!("the default must not disable the limit"),
        }
    }
}
