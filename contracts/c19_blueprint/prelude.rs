// ======================================================================================
// C19 prelude — the builder API (pavex::blueprint) fills the schema (pavex_bp_schema).
// Both crates define `Constructor`, `Route`, …: the schema's types are extracted into `mod pavex_bp_schema`.
// ======================================================================================
use vstd::std_specs::convert::FromSpecImpl;
use pavex_bp_schema::{Blueprint as BlueprintSchema, Component, ConfigType, Domain, LintSetting, Location, NestedBlueprint, PathPrefix, PrebuiltType};
use std::collections::BTreeMap;
pub assume_specification<T>[<T as From<T>>::from](t: T) -> (r: T) ensures r == t;

/// `Location::caller()` under an unbroken chain of #[track_caller] (checked syntactically, see unit.json/require_attrs):
/// the location of the user's call — one fixed value per public API call.
pub uninterp spec fn caller_loc() -> pavex_bp_schema::Location;
#[verifier::external_body]
pub fn location_caller() -> (r: pavex_bp_schema::Location) ensures r == caller_loc() { unimplemented!() }

/// Cow<'static, str> (reflection::Sources)
#[verifier::external_body] pub struct CowStr { _p: u8 }
pub uninterp spec fn cow_text(c: &CowStr) -> Seq<char>;
impl View for CowStr { type V = Seq<char>; open spec fn view(&self) -> Seq<char> { cow_text(self) } }
impl CowStr { #[verifier::external_body] pub fn into_owned(self) -> (r: String) ensures r@ == self@ { unimplemented!() } }
/// std: `impl From<&str> for String` copies the characters (also reached through `.into()`)
pub assume_specification<'a>[<String as From<&'a str>>::from](s: &str) -> (r: String) ensures r@ == s@;
/// `Option::filter` (API neighbourhood, not called by the unchanged code): keeps the value exactly when the predicate says so
pub assume_specification<T, P: FnOnce(&T) -> bool>[Option::<T>::filter](o: Option<T>, p: P) -> (r: Option<T>)
    requires o matches Some(t) ==> p.requires((&t,)),
    ensures match o { None => r is None, Some(t) => (r == Some(t) && p.ensures((&t,), true)) || (r is None && p.ensures((&t,), false)) };
/// case / blank normalisation of strings (API neighbourhood, not called by the unchanged code): nothing is promised
pub assume_specification[str::to_ascii_lowercase](s: &str) -> (r: String);
pub assume_specification[str::to_ascii_uppercase](s: &str) -> (r: String);
pub assume_specification[str::to_lowercase](s: &str) -> (r: String);
pub assume_specification[str::to_uppercase](s: &str) -> (r: String);
pub assume_specification<'a>[str::trim](s: &'a str) -> (r: &'a str);
pub assume_specification<'a>[str::trim_start](s: &'a str) -> (r: &'a str);
pub assume_specification<'a>[str::trim_end](s: &'a str) -> (r: &'a str);
pub mod axioms { use super::*;
    /// derive(Ord, PartialOrd, Eq, PartialEq) on the two-variant `Lint`: a total order consistent with equality (vstd's btree key model)
    pub broadcast axiom fn lint_is_a_btree_key()
        ensures #[trigger] vstd::std_specs::btree::key_obeys_cmp_spec::<pavex_bp_schema::Lint>();
}

// ---- Blueprint::persist / ::load: RON + the file system, uninterpreted -----------------------------------
#[verifier::external_body] pub struct AnyhowError { _p: u8 }
#[verifier::external_body] pub struct RonError { _p: u8 }
#[verifier::external_body] pub struct IoError { _p: u8 }
impl From<RonError> for AnyhowError { #[verifier::external_body] fn from(e: RonError) -> (r: Self) { unimplemented!() } }
impl From<IoError> for AnyhowError { #[verifier::external_body] fn from(e: IoError) -> (r: Self) { unimplemented!() } }
#[verifier::external_body] pub struct Path { _p: u8 }
#[verifier::external_body] pub struct File { _p: u8 }
/// what `ron::ser::to_string_pretty` writes for a schema / what `ron::de::from_reader` makes of a file
pub uninterp spec fn ron_text(s: &BlueprintSchema) -> Seq<char>;
pub uninterp spec fn file_text(f: &File) -> Seq<char>;
pub uninterp spec fn ron_parse(t: Seq<char>) -> Option<BlueprintSchema>;
/// ASSUMED serde/RON round trip for the schema types (derive-generated code, third-party crate)
pub broadcast axiom fn ron_round_trip(s: &BlueprintSchema) ensures #[trigger] ron_parse(ron_text(s)) == Some(*s);
pub uninterp spec fn utf8(s: Seq<char>) -> Seq<u8>;
pub assume_specification[String::as_bytes](s: &String) -> (r: &[u8]) ensures r@ == utf8(s@);
pub mod ron {
    pub mod ser { use super::super::*;
        pub struct PrettyConfig;
        impl PrettyConfig { pub fn new() -> Self { PrettyConfig } }
        #[verifier::external_body]
        pub fn to_string_pretty(s: &BlueprintSchema, c: PrettyConfig) -> (r: Result<String, RonError>) ensures r matches Ok(t) ==> t@ == ron_text(s) { unimplemented!() }
    }
    pub mod de { use super::super::*;
        #[verifier::external_body]
        pub fn from_reader(f: &File) -> (r: Result<BlueprintSchema, RonError>) ensures r matches Ok(v) ==> ron_parse(file_text(f)) == Some(v) { unimplemented!() }
    }
}
/// the bytes a successful `persist` asked to be stored at a path (persist_if_changed is C10's business)
pub uninterp spec fn persisted(p: &Path) -> Seq<u8>;
pub mod persist_if_changed { use super::*;
    #[verifier::external_body]
    pub fn persist_if_changed(p: &Path, content: &[u8]) -> (r: Result<(), AnyhowError>) ensures r is Ok ==> persisted(p) == content@ { unimplemented!() }
}
pub mod fs_err { use super::*;
    pub struct OpenOptions { pub read: bool }
    impl OpenOptions {
        pub fn new() -> (r: Self) { OpenOptions { read: false } }
        pub fn read(self, b: bool) -> (r: Self) { OpenOptions { read: b } }
        #[verifier::external_body] pub fn open(&self, p: &Path) -> (r: Result<File, IoError>) { unimplemented!() }
    }
}
