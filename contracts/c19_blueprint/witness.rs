// Native witness/replay for C19 (API -> schema): builds blueprints through the real public API, persists them to RON,
// reads them back the way the compiler does (ron::de::from_reader into pavex_bp_schema::Blueprint) and compares with the
// registrations that were made, in order, with nesting, prefixes, domains, lifecycles, cloning, lints, error handlers
// and source locations.
use pavex::Blueprint;
use pavex::blueprint::reflection::{AnnotationCoordinates, CreatedAt, Sources};
use pavex::blueprint::*;
use pavex_bp_schema as s;

fn at() -> CreatedAt { CreatedAt { package_name: "my_pkg", package_version: "1.2.3" } }
fn co(id: &'static str, m: &'static str) -> AnnotationCoordinates { AnnotationCoordinates { id, created_at: at(), macro_name: m } }
fn sco(id: &str, m: &str) -> s::AnnotationCoordinates {
    s::AnnotationCoordinates { id: id.into(), created_at: s::CreatedAt { package_name: "my_pkg".into(), package_version: "1.2.3".into() }, macro_name: m.into() }
}
fn read_back(bp: &Blueprint, tag: &str) -> s::Blueprint {
    let p = std::env::temp_dir().join(format!("verif-c19-{}-{tag}.ron", std::process::id()));
    bp.persist(&p).unwrap();
    let f = std::fs::File::open(&p).unwrap();
    let v: s::Blueprint = ron::de::from_reader(&f).unwrap();
    let _ = std::fs::remove_file(p);
    v
}
fn here(line: u32) -> (String, u32) { (file!().to_string(), line) }
fn loc_ok(l: &s::Location, want: (String, u32)) -> bool { l.file.ends_with(&want.0) && l.line == want.1 }

#[test]
fn registrations_reach_the_schema_in_order_with_every_modifier() {
    let l0 = line!() + 1;
    let mut bp = Blueprint::new();
    let l1 = line!() + 1;
    bp.constructor(Constructor { coordinates: co("C1", "request_scoped") })
        .lifecycle(Lifecycle::Singleton).clone_if_necessary().allow(Lint::Unused).deny(Lint::ErrorFallback)
        .error_handler(ErrorHandler { coordinates: co("EH1", "error_handler") });
    bp.constructor(Constructor { coordinates: co("C2", "transient") }).lifecycle(Lifecycle::Transient).never_clone().warn(Lint::Unused);
    bp.constructor(Constructor { coordinates: co("C3", "singleton") }).lifecycle(Lifecycle::RequestScoped);
    // the LAST level given for a lint wins, whatever came before and in between
    bp.constructor(Constructor { coordinates: co("C4", "singleton") })
        .deny(Lint::Unused).warn(Lint::ErrorFallback).lifecycle(Lifecycle::Singleton).allow(Lint::Unused).deny(Lint::ErrorFallback).warn(Lint::ErrorFallback);
    bp.wrap(WrappingMiddleware { coordinates: co("W", "wrap") });
    bp.pre_process(PreProcessingMiddleware { coordinates: co("PRE", "pre_process") }).error_handler(ErrorHandler { coordinates: co("EH2", "error_handler") });
    bp.post_process(PostProcessingMiddleware { coordinates: co("POST", "post_process") });
    let l_route = line!() + 1;
    bp.route(Route { coordinates: co("R", "route") }).error_handler(ErrorHandler { coordinates: co("EH3", "error_handler") });
    bp.config(Config { coordinates: co("CFG", "config") }).default_if_missing().include_if_unused().clone_if_necessary();
    bp.config(Config { coordinates: co("CFG2", "config") }).required().never_clone();
    bp.prebuilt(Prebuilt { coordinates: co("PB", "prebuilt") }).clone_if_necessary();
    bp.fallback(Fallback { coordinates: co("FB", "fallback") });
    bp.error_observer(ErrorObserver { coordinates: co("EO", "error_observer") });
    bp.error_handler(ErrorHandler { coordinates: co("EH", "error_handler") });
    bp.import(Import { sources: Sources::Some(vec!["crate::a".into(), "dep".into()]), relative_to: "my_pkg", created_at: at() });
    bp.routes(Import { sources: Sources::All, relative_to: "my_pkg", created_at: at() });

    let v = read_back(&bp, "flat");
    assert!(loc_ok(&v.creation_location, here(l0)), "creation location {:?}", v.creation_location);
    let kinds: Vec<&str> = v.components.iter().map(|c| match c {
        s::Component::Constructor(_) => "ctor", s::Component::WrappingMiddleware(_) => "wrap", s::Component::PreProcessingMiddleware(_) => "pre",
        s::Component::PostProcessingMiddleware(_) => "post", s::Component::Route(_) => "route", s::Component::ConfigType(_) => "cfg",
        s::Component::PrebuiltType(_) => "prebuilt", s::Component::FallbackRequestHandler(_) => "fallback", s::Component::ErrorObserver(_) => "eo",
        s::Component::ErrorHandler(_) => "eh", s::Component::Import(_) => "import", s::Component::RoutesImport(_) => "routes", s::Component::NestedBlueprint(_) => "nested" }).collect();
    assert_eq!(kinds, ["ctor", "ctor", "ctor", "ctor", "wrap", "pre", "post", "route", "cfg", "cfg", "prebuilt", "fallback", "eo", "eh", "import", "routes"], "registration order");

    let s::Component::Constructor(c1) = &v.components[0] else { panic!() };
    assert_eq!(c1.coordinates, sco("C1", "request_scoped"));
    assert_eq!((c1.lifecycle, c1.cloning_policy), (Some(s::Lifecycle::Singleton), Some(s::CloningPolicy::CloneIfNecessary)));
    assert_eq!(c1.lints.iter().map(|(k, v)| (*k, *v)).collect::<Vec<_>>(), vec![(s::Lint::Unused, s::LintSetting::Allow), (s::Lint::ErrorFallback, s::LintSetting::Deny)]);
    assert_eq!(c1.error_handler.as_ref().unwrap().coordinates, sco("EH1", "error_handler"));
    assert!(loc_ok(&c1.registered_at, here(l1)), "constructor location {:?}", c1.registered_at);
    let s::Component::Constructor(c2) = &v.components[1] else { panic!() };
    assert_eq!((c2.lifecycle, c2.cloning_policy, c2.error_handler.is_none()), (Some(s::Lifecycle::Transient), Some(s::CloningPolicy::NeverClone), true));
    assert_eq!(c2.lints.get(&s::Lint::Unused), Some(&s::LintSetting::Warn));
    let s::Component::Constructor(c3) = &v.components[2] else { panic!() };
    assert_eq!((c3.lifecycle, c3.cloning_policy, c3.lints.len()), (Some(s::Lifecycle::RequestScoped), None, 0));
    let s::Component::Constructor(c4) = &v.components[3] else { panic!() };
    assert_eq!(c4.lints.iter().map(|(k, v)| (*k, *v)).collect::<Vec<_>>(), vec![(s::Lint::Unused, s::LintSetting::Allow), (s::Lint::ErrorFallback, s::LintSetting::Warn)], "the last level given for a lint must win");
    let s::Component::PreProcessingMiddleware(pre) = &v.components[5] else { panic!() };
    assert_eq!(pre.error_handler.as_ref().unwrap().coordinates, sco("EH2", "error_handler"));
    let s::Component::PostProcessingMiddleware(post) = &v.components[6] else { panic!() };
    assert!(post.error_handler.is_none() && post.coordinates == sco("POST", "post_process"));
    let s::Component::Route(r) = &v.components[7] else { panic!() };
    assert!(loc_ok(&r.registered_at, here(l_route)) && loc_ok(&r.error_handler.as_ref().unwrap().registered_at, here(l_route)));
    let s::Component::ConfigType(cfg) = &v.components[8] else { panic!() };
    assert_eq!((cfg.default_if_missing, cfg.include_if_unused, cfg.cloning_policy), (Some(true), Some(true), Some(s::CloningPolicy::CloneIfNecessary)));
    let s::Component::ConfigType(cfg2) = &v.components[9] else { panic!() };
    assert_eq!((cfg2.default_if_missing, cfg2.include_if_unused, cfg2.cloning_policy), (Some(false), None, Some(s::CloningPolicy::NeverClone)));
    let s::Component::PrebuiltType(pb) = &v.components[10] else { panic!() };
    assert_eq!(pb.cloning_policy, Some(s::CloningPolicy::CloneIfNecessary));
    let s::Component::Import(im) = &v.components[14] else { panic!() };
    assert_eq!((im.sources.clone(), im.relative_to.as_str()), (s::Sources::Some(vec!["crate::a".into(), "dep".into()]), "my_pkg"));
    let s::Component::RoutesImport(ri) = &v.components[15] else { panic!() };
    assert_eq!(ri.sources, s::Sources::All);
}

#[test]
fn nesting_prefixes_and_domains_stay_where_they_were_put() {
    let mut child = Blueprint::new();
    child.route(Route { coordinates: co("CHILD_R", "route") });
    let mut grandchild = Blueprint::new();
    grandchild.constructor(Constructor { coordinates: co("GC", "singleton") });
    child.prefix("/deep").nest(grandchild);
    let mut bp = Blueprint::new();
    bp.route(Route { coordinates: co("BEFORE", "route") });
    let l_nest = line!() + 1;
    bp.prefix("/first").prefix("/api").domain("a.example.com").domain("{sub}.example.com").nest(child);
    bp.domain("admin.example.com").routes(Import { sources: Sources::All, relative_to: "my_pkg", created_at: at() });
    bp.nest(Blueprint::new());
    // a domain guard given BEFORE a prefix (and a prefix overridden after a domain) must survive
    bp.domain("api.example.com").prefix("/v1").nest(Blueprint::new());
    bp.prefix("/old").domain("x.example.com").prefix("/new").nest(Blueprint::new());
    bp.route(Route { coordinates: co("AFTER", "route") });

    let v = read_back(&bp, "nested");
    assert_eq!(v.components.len(), 7);
    let s::Component::NestedBlueprint(n) = &v.components[1] else { panic!("second registration must be the nested blueprint") };
    assert_eq!(n.path_prefix.as_ref().unwrap().path_prefix, "/api", "a later prefix on the same modifier replaces the earlier one");
    assert_eq!(n.domain.as_ref().unwrap().domain, "{sub}.example.com");
    assert!(loc_ok(&n.nested_at, here(l_nest)) && loc_ok(&n.path_prefix.as_ref().unwrap().registered_at, here(l_nest)));
    assert_eq!(n.blueprint.components.len(), 2, "the child keeps its own registrations, in order");
    let s::Component::Route(cr) = &n.blueprint.components[0] else { panic!() };
    assert_eq!(cr.coordinates, sco("CHILD_R", "route"));
    let s::Component::NestedBlueprint(g) = &n.blueprint.components[1] else { panic!() };
    assert_eq!((g.path_prefix.as_ref().unwrap().path_prefix.as_str(), g.domain.is_none()), ("/deep", true), "the outer prefix never rewrites the child");
    let s::Component::NestedBlueprint(r) = &v.components[2] else { panic!() };
    assert_eq!((r.domain.as_ref().unwrap().domain.as_str(), r.path_prefix.is_none()), ("admin.example.com", true));
    assert!(matches!(&r.blueprint.components[..], [s::Component::RoutesImport(_)]));
    let s::Component::NestedBlueprint(e) = &v.components[3] else { panic!() };
    assert!(e.path_prefix.is_none() && e.domain.is_none() && e.blueprint.components.is_empty());
    let s::Component::NestedBlueprint(dp) = &v.components[4] else { panic!() };
    assert_eq!((dp.path_prefix.as_ref().map(|p| p.path_prefix.as_str()), dp.domain.as_ref().map(|d| d.domain.as_str())), (Some("/v1"), Some("api.example.com")), "domain given before prefix");
    let s::Component::NestedBlueprint(pdp) = &v.components[5] else { panic!() };
    assert_eq!((pdp.path_prefix.as_ref().map(|p| p.path_prefix.as_str()), pdp.domain.as_ref().map(|d| d.domain.as_str())), (Some("/new"), Some("x.example.com")), "prefix overridden after a domain");
    let (s::Component::Route(b), s::Component::Route(a)) = (&v.components[0], &v.components[6]) else { panic!() };
    assert_eq!((b.coordinates.id.as_str(), a.coordinates.id.as_str()), ("BEFORE", "AFTER"));
    // loading what was persisted gives the same blueprint through the public loader too
    let p = std::env::temp_dir().join(format!("verif-c19-{}-load.ron", std::process::id()));
    bp.persist(&p).unwrap();
    let again = read_back(&Blueprint::load(&p).unwrap(), "again");
    let _ = std::fs::remove_file(p);
    assert_eq!(again, v);
}
