// Native witness/replay for C19 (API -> schema): builds blueprints through the real public API, persists them to RON,
// reads them back the way the compiler does (ron::de::from_reader into pavex_bp_schema::Blueprint) and compares with the
// registrations that were made, in order, with nesting, prefixes, domains, lifecycles, cloning, lints, error handlers
// and source locations.
use pavex::Blueprint;
use pavex::blueprint::reflection::{AnnotationCoordinates, CreatedAt, Sources};
use pavex::blueprint::*;
use pavex_bp_schema as s;

fn at() -> CreatedAt { CreatedAt { package_name: "my_pkg", package_version: "1.2.3" } }
fn co(id: &'static str, m: &'static str) -> AnnotationCoordinates { AnnotationCoordinates { id, created_at: at(), macro_name: m } }
fn sco(id: &str, m: &str) -> s::AnnotationCoordinates {
    s::AnnotationCoordinates { id: id.into(), created_at: s::CreatedAt { package_name: "my_pkg".into(), package_version: "1.2.3".into() }, macro_name: m.into() }
}
fn read_back(bp: &Blueprint, tag: &str) -> s::Blueprint {
    let p = std::env::temp_dir().join(format!("verif-c19-{}-{tag}.ron", std::process::id()));
    bp.persist(&p).unwrap();
    let f = std::fs::File::open(&p).unwrap();
    let v: s::Blueprint = ron::de::from_reader(&f).unwrap();
    let _ = std::fs::remove_file(p);
    v
}
fn here(line: u32) -> (String, u32) { (file!().to_string(), line) }
fn loc_ok(l: &s::Location, want: (String, u32)) -> bool { l.file.ends_with(&want.0) && l.line == want.1 }

#[test]
fn registrations_reach_the_schema_in_order_with_every_modifier() {
    let l0 = line!() + 1;
    let mut bp = Blueprint::new();
    let l1 = line!() + 1;
    bp.constructor(Constructor { coordinates: co("C1", "request_scoped") })
        .lifecycle(Lifecycle::Singleton).clone_if_necessary().allow(Lint::Unused).deny(Lint::ErrorFallback)
        .error_handler(ErrorHandler { coordinates: co("EH1", "error_handler") });
    bp.constructor(Constructor { coordinates: co("C2", "transient") }).lifecycle(Lifecycle::Transient).never_clone().warn(Lint::Unused);
    bp.constructor(Constructor { coordinates: co("C3", "singleton") }).lifecycle(Lifecycle::RequestScoped);
    // the LAST level given for a lint wins, whatever came before and in between
    bp.constructor(Constructor { coordinates: co("C4", "singleton") })
        .deny(Lint::Unused).warn(Lint::ErrorFallback).lifecycle(Lifecycle::Singleton).allow(Lint::Unused).deny(Lint::ErrorFallback).warn(Lint::ErrorFallback);
    bp.wrap(WrappingMiddleware { coordinates: co("W", "wrap") });
    bp.pre_process(PreProcessingMiddleware { coordinates: co("PRE", "pre_process") }).error_handler(ErrorHandler { coordinates: co("EH2", "error_handler") });
    bp.post_process(PostProcessingMiddleware { coordinates: co("POST", "post_process") });
    let l_route = line!() + 1;
    bp.route(Route { coordinates: co("R", "route") }).error_handler(ErrorHandler { coordinates: co("EH3", "error_handler") });
    bp.config(Config { coordinates: co("CFG", "config") }).default_if_missing().include_if_unused().clone_if_necessary();
    bp.config(Config { coordinates: co("CFG2", "config") }).required().never_clone();
    bp.prebuilt(Prebuilt { coordinates: co("PB", "prebuilt") }).clone_if_necessary();
    bp.fallback(Fallback { coordinates: co("FB", "fallback") });
    bp.error_observer(ErrorObserver { coordinates: co("EO", "error_observer") });
    bp.error_handler(ErrorHandler { coordinates: co("EH", "error_handler") });
    bp.import(Import { sources: Sources::Some(vec!["crate::a".into(), "dep".into()]), relative_to: "my_pkg", created_at: at() });
    bp.routes(Import { sources: Sources::All, relative_to: "my_pkg", created_at: at() });

    let v = read_back(&bp, "flat");
    assert!(loc_ok(&v.creation_location, here(l0)), "creation location {:?}", v.creation_location);
    let kinds: Vec<&str> = v.components.iter().map(|c| match c {
        s::Component::Constructor(_) => "ctor", s::Component::WrappingMiddleware(_) => "wrap", s::Component::PreProcessingMiddleware(_) => "pre",
        s::Component::PostProcessingMiddleware(_) => "post", s::Component::Route(_) => "route", s::Component::ConfigType(_) => "cfg",
        s::Component::PrebuiltType(_) => "prebuilt", s::Component::FallbackRequestHandler(_) => "fallback", s::Component::ErrorObserver(_) => "eo",
        s::Component::ErrorHandler(_) => "eh", s::Component::Import(_) => "import", s::Component::RoutesImport(_) => "routes", s::Component::NestedBlueprint(_) => "nested" }).collect();
    assert_eq!(kinds, ["ctor", "ctor", "ctor", "ctor", "wrap", "pre", "post", "route", "cfg", "cfg", "prebuilt", "fallback", "eo", "eh", "import", "routes"], "registration order");

    let s::Component::Constructor(c1) = &v.components[0] else { panic!() };
    assert_eq!(c1.coordinates, sco("C1", "request_scoped"));
    assert_eq!((c1.lifecycle, c1.cloning_policy), (Some(s::Lifecycle::Singleton), Some(s::CloningPolicy::CloneIfNecessary)));
    assert_eq!(c1.lints.iter().map(|(k, v)| (*k, *v)).collect::<Vec<_>>(), vec![(s::Lint::Unused, s::LintSetting::Allow), (s::Lint::ErrorFallback, s::LintSetting::Deny)]);
    assert_eq!(c1.error_handler.as_ref().unwrap().coordinates, sco("EH1", "error_handler"));
    assert!(loc_ok(&c1.registered_at, here(l1)), "constructor location {:?}", c1.registered_at);
    let s::Component::Constructor(c2) = &v.components[1] else { panic!() };
    assert_eq!((c2.lifecycle, c2.cloning_policy, c2.error_handler.is_none()), (Some(s::Lifecycle::Transient), Some(s::CloningPolicy::NeverClone), true));
    assert_eq!(c2.lints.get(&s::Lint::Unused), Some(&s::LintSetting::Warn));
    let s::Component::Constructor(c3) = &v.components[2] else { panic!() };
    assert_eq!((c3.lifecycle, c3.cloning_policy, c3.lints.len()), (Some(s::Lifecycle::RequestScoped), None, 0));
    let s::Component::Constructor(c4) = &v.components[3] else { panic!() };
    assert_eq!(c4.lints.iter().map(|(k, v)| (*k, *v)).collect::<Vec<_>>(), vec![(s::Lint::Unused, s::LintSetting::Allow), (s::Lint::ErrorFallback, s::LintSetting::Warn)], "the last level given for a lint must win");
    let s::Component::PreProcessingMiddleware(pre) = &v.components[5] else { panic!() };
    assert_eq!(pre.error_handler.as_ref().unwrap().coordinates, sco("EH2", "error_handler"));
    let s::Component::PostProcessingMiddleware(post) = &v.components[6] else { panic!() };
    assert!(post.error_handler.is_none() && post.coordinates == sco("POST", "post_process"));
    let s::Component::Route(r) = &v.components[7] else { panic!() };
    assert!(loc_ok(&r.registered_at, here(l_route)) && loc_ok(&r.error_handler.as_ref().unwrap().registered_at, here(l_route)));
    let s::Component::ConfigType(cfg) = &v.components[8] else { panic!() };
    assert_eq!((cfg.default_if_missing, cfg.include_if_unused, cfg.cloning_policy), (Some(true), Some(true), Some(s::CloningPolicy::CloneIfNecessary)));
    let s::Component::ConfigType(cfg2) = &v.components[9] else { panic!() };
    assert_eq!((cfg2.default_if_missing, cfg2.include_if_unused, cfg2.cloning_policy), (Some(false), None, Some(s::CloningPolicy::NeverClone)));
    let s::Component::PrebuiltType(pb) = &v.components[10] else { panic!() };
    assert_eq!(pb.cloning_policy, Some(s::CloningPolicy::CloneIfNecessary));
    let s::Component::Import(im) = &v.components[14] else { panic!() };
    assert_eq!((im.sources.clone(), im.relative_to.as_str()), (s::Sources::Some(vec!["crate::a".into(), "dep".into()]), "my_pkg"));
    let s::Component::RoutesImport(ri) = &v.components[15] else { panic!() };
    assert_eq!(ri.sources, s::Sources::All);
}

#[test]
fn nesting_prefixes_and_domains_stay_where_they_were_put() {
    let mut child = Blueprint::new();
    child.route(Route { coordinates: co("CHILD_R", "route") });
    let mut grandchild = Blueprint::new();
    grandchild.constructor(Constructor { coordinates: co("GC", "singleton") });
    child.prefix("/deep").nest(grandchild);
    let mut bp = Blueprint::new();
    bp.route(Route { coordinates: co("BEFORE", "route") });
    let l_nest = line!() + 1;
    bp.prefix("/first").prefix("/api").domain("a.example.com").domain("{sub}.example.com").nest(child);
    bp.domain("admin.example.com").routes(Import { sources: Sources::All, relative_to: "my_pkg", created_at: at() });
    bp.nest(Blueprint::new());
    // a domain guard given BEFORE a prefix (and a prefix overridden after a domain) must survive
    bp.domain("api.example.com").prefix("/v1").nest(Blueprint::new());
    bp.prefix("/old").domain("x.example.com").prefix("/new").nest(Blueprint::new());
    bp.route(Route { coordinates: co("AFTER", "route") });

    let v = read_back(&bp, "nested");
    assert_eq!(v.components.len(), 7);
    let s::Component::NestedBlueprint(n) = &v.components[1] else { panic!("second registration must be the nested blueprint") };
    assert_eq!(n.path_prefix.as_ref().unwrap().path_prefix, "/api", "a later prefix on the same modifier replaces the earlier one");
    assert_eq!(n.domain.as_ref().unwrap().domain, "{sub}.example.com");
    assert!(loc_ok(&n.nested_at, here(l_nest)) && loc_ok(&n.path_prefix.as_ref().unwrap().registered_at, here(l_nest)));
    assert_eq!(n.blueprint.components.len(), 2, "the child keeps its own registrations, in order");
    let s::Component::Route(cr) = &n.blueprint.components[0] else { panic!() };
    assert_eq!(cr.coordinates, sco("CHILD_R", "route"));
    let s::Component::NestedBlueprint(g) = &n.blueprint.components[1] else { panic!() };
    assert_eq!((g.path_prefix.as_ref().unwrap().path_prefix.as_str(), g.domain.is_none()), ("/deep", true), "the outer prefix never rewrites the child");
    let s::Component::NestedBlueprint(r) = &v.components[2] else { panic!() };
    assert_eq!((r.domain.as_ref().unwrap().domain.as_str(), r.path_prefix.is_none()), ("admin.example.com", true));
    assert!(matches!(&r.blueprint.components[..], [s::Component::RoutesImport(_)]));
    let s::Component::NestedBlueprint(e) = &v.components[3] else { panic!() };
    assert!(e.path_prefix.is_none() && e.domain.is_none() && e.blueprint.components.is_empty());
    let s::Component::NestedBlueprint(dp) = &v.components[4] else { panic!() };
    assert_eq!((dp.path_prefix.as_ref().map(|p| p.path_prefix.as_str()), dp.domain.as_ref().map(|d| d.domain.as_str())), (Some("/v1"), Some("api.example.com")), "domain given before prefix");
    let s::Component::NestedBlueprint(pdp) = &v.components[5] else { panic!() };
    assert_eq!((pdp.path_prefix.as_ref().map(|p| p.path_prefix.as_str()), pdp.domain.as_ref().map(|d| d.domain.as_str())), (Some("/new"), Some("x.example.com")), "prefix overridden after a domain");
    let (s::Component::Route(b), s::Component::Route(a)) = (&v.components[0], &v.components[6]) else { panic!() };
    assert_eq!((b.coordinates.id.as_str(), a.coordinates.id.as_str()), ("BEFORE", "AFTER"));
    // loading what was persisted gives the same blueprint through the public loader too
    let p = std::env::temp_dir().join(format!("verif-c19-{}-load.ron", std::process::id()));
    bp.persist(&p).unwrap();
    let again = read_back(&Blueprint::load(&p).unwrap(), "again");
    let _ = std::fs::remove_file(p);
    assert_eq!(again, v);
}

// =====================================================================================================
// Bounded search (labelled bounded): pseudo-random builder call sequences — every registration method, every modifier
// in any order and repetition, modifier chains of prefix/domain before nest/routes, nesting up to depth 3 — with the
// expected schema built alongside by a plain reference model (what the statement says: same registrations, same order,
// later modifier wins, every location is the line of the user's call). persist -> RON -> schema must equal the model.
// =====================================================================================================
mod search {
    use super::*;
    pub struct Rng(pub u64);
    impl Rng { pub fn n(&mut self, n: u64) -> u64 { self.0 ^= self.0 << 13; self.0 ^= self.0 >> 7; self.0 ^= self.0 << 17; self.0 % n } }
    fn leak(s: String) -> &'static str { Box::leak(s.into_boxed_str()) }
    pub fn loc(line: u32) -> s::Location { s::Location { line, column: 0, file: file!().to_string() } }
    fn seh(id: &str, line: u32) -> s::ErrorHandler { s::ErrorHandler { coordinates: sco(id, "error_handler"), registered_at: loc(line) } }

    /// columns are not modelled: zero them everywhere
    pub fn norm(bp: &mut s::Blueprint) {
        fn l(x: &mut s::Location) { x.column = 0; }
        fn eh(e: &mut Option<s::ErrorHandler>) { if let Some(e) = e { l(&mut e.registered_at) } }
        l(&mut bp.creation_location);
        for c in &mut bp.components {
            match c {
                s::Component::Constructor(x) => { l(&mut x.registered_at); eh(&mut x.error_handler) }
                s::Component::WrappingMiddleware(x) => { l(&mut x.registered_at); eh(&mut x.error_handler) }
                s::Component::PreProcessingMiddleware(x) => { l(&mut x.registered_at); eh(&mut x.error_handler) }
                s::Component::PostProcessingMiddleware(x) => { l(&mut x.registered_at); eh(&mut x.error_handler) }
                s::Component::Route(x) => { l(&mut x.registered_at); eh(&mut x.error_handler) }
                s::Component::FallbackRequestHandler(x) => { l(&mut x.registered_at); eh(&mut x.error_handler) }
                s::Component::ErrorObserver(x) => l(&mut x.registered_at),
                s::Component::ErrorHandler(x) => l(&mut x.registered_at),
                s::Component::PrebuiltType(x) => l(&mut x.registered_at),
                s::Component::ConfigType(x) => l(&mut x.registered_at),
                s::Component::Import(x) => l(&mut x.registered_at),
                s::Component::RoutesImport(x) => l(&mut x.registered_at),
                s::Component::NestedBlueprint(x) => {
                    l(&mut x.nested_at);
                    if let Some(p) = &mut x.path_prefix { l(&mut p.registered_at) }
                    if let Some(d) = &mut x.domain { l(&mut d.registered_at) }
                    norm(&mut x.blueprint);
                }
            }
        }
    }

    fn import(rng: &mut Rng) -> (Import, s::Sources) {
        if rng.n(2) == 0 { (Import { sources: Sources::All, relative_to: "my_pkg", created_at: at() }, s::Sources::All) }
        else {
            // order and repetitions are kept as listed (neither sorted nor de-duplicated)
            let v: Vec<String> = (0..1 + rng.n(4)).map(|_| ["pavex", "crate", "crate::routes", "dep_b", "dep_a", "Zeta", "alpha"][rng.n(7) as usize].to_string()).collect();
            (Import { sources: Sources::Some(v.iter().cloned().map(Into::into).collect()), relative_to: "my_pkg", created_at: at() }, s::Sources::Some(v))
        }
    }
    fn s_created_at() -> s::CreatedAt { s::CreatedAt { package_name: "my_pkg".into(), package_version: "1.2.3".into() } }

    /// builds a random blueprint through the public API and, alongside, the schema the statement says the compiler must see
    pub fn generate(rng: &mut Rng, depth: u32, counter: &mut u32) -> (Blueprint, s::Blueprint) {
        let (l0, mut bp) = (line!(), Blueprint::new());
        let mut want = s::Blueprint { creation_location: loc(l0), components: vec![] };
        let n_ops = rng.n(7);
        for _ in 0..n_ops {
            *counter += 1;
            let id = leak(format!("ID{}", *counter));
            let ehid = leak(format!("EH{}", *counter));
            match rng.n(if depth < 3 { 14 } else { 12 }) {
                0 | 1 => {
                    let (l, mut h) = (line!(), bp.constructor(Constructor { coordinates: co(id, "constructor") }));
                    let mut w = s::Constructor { coordinates: sco(id, "constructor"), lifecycle: None, cloning_policy: None, error_handler: None, lints: Default::default(), registered_at: loc(l) };
                    for _ in 0..rng.n(6) {
                        let lint = if rng.n(2) == 0 { (Lint::Unused, s::Lint::Unused) } else { (Lint::ErrorFallback, s::Lint::ErrorFallback) };
                        match rng.n(9) {
                            0 => { h = h.lifecycle(Lifecycle::Singleton); w.lifecycle = Some(s::Lifecycle::Singleton); }
                            1 => { h = h.lifecycle(Lifecycle::RequestScoped); w.lifecycle = Some(s::Lifecycle::RequestScoped); }
                            2 => { h = h.lifecycle(Lifecycle::Transient); w.lifecycle = Some(s::Lifecycle::Transient); }
                            3 => { h = h.clone_if_necessary(); w.cloning_policy = Some(s::CloningPolicy::CloneIfNecessary); }
                            4 => { h = h.never_clone(); w.cloning_policy = Some(s::CloningPolicy::NeverClone); }
                            5 => { h = h.allow(lint.0); w.lints.insert(lint.1, s::LintSetting::Allow); }
                            6 => { h = h.warn(lint.0); w.lints.insert(lint.1, s::LintSetting::Warn); }
                            7 => { h = h.deny(lint.0); w.lints.insert(lint.1, s::LintSetting::Deny); }
                            _ => { let le = line!(); h = h.error_handler(ErrorHandler { coordinates: co(ehid, "error_handler") }); w.error_handler = Some(seh(ehid, le)); }
                        }
                    }
                    let _ = h;
                    want.components.push(s::Component::Constructor(w));
                }
                2 => {
                    let (l, mut h) = (line!(), bp.wrap(WrappingMiddleware { coordinates: co(id, "wrap") }));
                    let mut w = s::WrappingMiddleware { coordinates: sco(id, "wrap"), registered_at: loc(l), error_handler: None };
                    for _ in 0..rng.n(3) { let le = line!(); h = h.error_handler(ErrorHandler { coordinates: co(ehid, "error_handler") }); w.error_handler = Some(seh(ehid, le)); }
                    let _ = h; want.components.push(s::Component::WrappingMiddleware(w));
                }
                3 => {
                    let (l, mut h) = (line!(), bp.pre_process(PreProcessingMiddleware { coordinates: co(id, "pre_process") }));
                    let mut w = s::PreProcessingMiddleware { coordinates: sco(id, "pre_process"), registered_at: loc(l), error_handler: None };
                    for _ in 0..rng.n(3) { let le = line!(); h = h.error_handler(ErrorHandler { coordinates: co(ehid, "error_handler") }); w.error_handler = Some(seh(ehid, le)); }
                    let _ = h; want.components.push(s::Component::PreProcessingMiddleware(w));
                }
                4 => {
                    let (l, mut h) = (line!(), bp.post_process(PostProcessingMiddleware { coordinates: co(id, "post_process") }));
                    let mut w = s::PostProcessingMiddleware { coordinates: sco(id, "post_process"), registered_at: loc(l), error_handler: None };
                    for _ in 0..rng.n(3) { let le = line!(); h = h.error_handler(ErrorHandler { coordinates: co(ehid, "error_handler") }); w.error_handler = Some(seh(ehid, le)); }
                    let _ = h; want.components.push(s::Component::PostProcessingMiddleware(w));
                }
                5 => {
                    let (l, mut h) = (line!(), bp.route(Route { coordinates: co(id, "route") }));
                    let mut w = s::Route { coordinates: sco(id, "route"), registered_at: loc(l), error_handler: None };
                    for _ in 0..rng.n(3) { let le = line!(); h = h.error_handler(ErrorHandler { coordinates: co(ehid, "error_handler") }); w.error_handler = Some(seh(ehid, le)); }
                    let _ = h; want.components.push(s::Component::Route(w));
                }
                6 => {
                    let (l, mut h) = (line!(), bp.fallback(Fallback { coordinates: co(id, "fallback") }));
                    let mut w = s::Fallback { coordinates: sco(id, "fallback"), registered_at: loc(l), error_handler: None };
                    for _ in 0..rng.n(3) { let le = line!(); h = h.error_handler(ErrorHandler { coordinates: co(ehid, "error_handler") }); w.error_handler = Some(seh(ehid, le)); }
                    let _ = h; want.components.push(s::Component::FallbackRequestHandler(w));
                }
                7 => {
                    let (l, mut h) = (line!(), bp.config(Config { coordinates: co(id, "config") }));
                    let mut w = s::ConfigType { coordinates: sco(id, "config"), cloning_policy: None, default_if_missing: None, include_if_unused: None, registered_at: loc(l) };
                    for _ in 0..rng.n(5) {
                        match rng.n(5) {
                            0 => { h = h.default_if_missing(); w.default_if_missing = Some(true); }
                            1 => { h = h.required(); w.default_if_missing = Some(false); }
                            2 => { h = h.include_if_unused(); w.include_if_unused = Some(true); }
                            3 => { h = h.clone_if_necessary(); w.cloning_policy = Some(s::CloningPolicy::CloneIfNecessary); }
                            _ => { h = h.never_clone(); w.cloning_policy = Some(s::CloningPolicy::NeverClone); }
                        }
                    }
                    let _ = h; want.components.push(s::Component::ConfigType(w));
                }
                8 => {
                    let (l, mut h) = (line!(), bp.prebuilt(Prebuilt { coordinates: co(id, "prebuilt") }));
                    let mut w = s::PrebuiltType { coordinates: sco(id, "prebuilt"), cloning_policy: None, registered_at: loc(l) };
                    for _ in 0..rng.n(3) {
                        if rng.n(2) == 0 { h = h.clone_if_necessary(); w.cloning_policy = Some(s::CloningPolicy::CloneIfNecessary); }
                        else { h = h.never_clone(); w.cloning_policy = Some(s::CloningPolicy::NeverClone); }
                    }
                    let _ = h; want.components.push(s::Component::PrebuiltType(w));
                }
                9 => {
                    let l = line!(); bp.error_observer(ErrorObserver { coordinates: co(id, "error_observer") });
                    want.components.push(s::Component::ErrorObserver(s::ErrorObserver { coordinates: sco(id, "error_observer"), registered_at: loc(l) }));
                }
                10 => {
                    let l = line!(); bp.error_handler(ErrorHandler { coordinates: co(id, "error_handler") });
                    want.components.push(s::Component::ErrorHandler(seh(id, l)));
                }
                11 => {
                    let (i, src) = import(rng);
                    if rng.n(2) == 0 {
                        let l = line!(); bp.import(i);
                        want.components.push(s::Component::Import(s::Import { sources: src, relative_to: "my_pkg".into(), created_at: s_created_at(), registered_at: loc(l) }));
                    } else {
                        let l = line!(); bp.routes(i);
                        want.components.push(s::Component::RoutesImport(s::RoutesImport { sources: src, relative_to: "my_pkg".into(), created_at: s_created_at(), registered_at: loc(l) }));
                    }
                }
                12 => {
                    // plain nest
                    let (child, wchild) = generate(rng, depth + 1, counter);
                    let l = line!(); bp.nest(child);
                    want.components.push(s::Component::NestedBlueprint(s::NestedBlueprint { blueprint: wchild, path_prefix: None, domain: None, nested_at: loc(l) }));
                }
                _ => {
                    // a chain of routing modifiers, then nest or routes; chains repeat prefixes/domains on purpose so that
                    // two consecutive chains with the same prefix and domain occur
                    // verbatim means verbatim: case, surrounding blanks and non-ASCII are the compiler's business, not the builder's
                    let prefixes = ["/api", "/v1", "/Admin Panel", "/é/{Id}", ""]; // the empty prefix too: rejecting it is the compiler's job, with the user's location
                    let domains = ["example.com", "{sub}.example.com", "API.Example.COM", "{Tenant}.example.com", " spaced.example.com "];
                    let (mut wp, mut wd): (Option<s::PathPrefix>, Option<s::Domain>) = (None, None);
                    let mut m = if rng.n(2) == 0 {
                        let p = prefixes[rng.n(5) as usize];
                        let (l, m) = (line!(), bp.prefix(p)); wp = Some(s::PathPrefix { path_prefix: p.into(), registered_at: loc(l) }); m
                    } else {
                        let d = domains[rng.n(5) as usize];
                        let (l, m) = (line!(), bp.domain(d)); wd = Some(s::Domain { domain: d.into(), registered_at: loc(l) }); m
                    };
                    for _ in 0..rng.n(3) {
                        if rng.n(2) == 0 {
                            let p = prefixes[rng.n(5) as usize];
                            let l = line!(); m = m.prefix(p); wp = Some(s::PathPrefix { path_prefix: p.into(), registered_at: loc(l) });
                        } else {
                            let d = domains[rng.n(5) as usize];
                            let l = line!(); m = m.domain(d); wd = Some(s::Domain { domain: d.into(), registered_at: loc(l) });
                        }
                    }
                    if rng.n(3) == 0 {
                        let (i, src) = import(rng);
                        let l = line!(); m.routes(i);
                        let inner = s::Blueprint { creation_location: loc(l), components: vec![s::Component::RoutesImport(s::RoutesImport { sources: src, relative_to: "my_pkg".into(), created_at: s_created_at(), registered_at: loc(l) })] };
                        want.components.push(s::Component::NestedBlueprint(s::NestedBlueprint { blueprint: inner, path_prefix: wp, domain: wd, nested_at: loc(l) }));
                    } else {
                        let (child, wchild) = generate(rng, depth + 1, counter);
                        let l = line!(); m.nest(child);
                        want.components.push(s::Component::NestedBlueprint(s::NestedBlueprint { blueprint: wchild, path_prefix: wp, domain: wd, nested_at: loc(l) }));
                    }
                }
            }
        }
        (bp, want)
    }
}

#[test]
fn bounded_search_over_builder_call_sequences() {
    let thorough = std::env::var("VERIF_TIER").map(|t| t == "thorough").unwrap_or(false);
    let n: u64 = if thorough { 100_000 } else { 2_000 };
    let mut rng = search::Rng(0x2545F4914F6CDD1D);
    let (mut components, mut nested) = (0usize, 0usize);
    for i in 0..n {
        let mut counter = 0u32;
        let (bp, want) = search::generate(&mut rng, 0, &mut counter);
        // always the same path, never removed in between: a smaller blueprint is persisted over a larger one
        let mut got = { let p = std::env::temp_dir().join(format!("verif-c19-{}-search-over.ron", std::process::id())); bp.persist(&p).unwrap();
            let f = std::fs::File::open(&p).unwrap(); let v: s::Blueprint = ron::de::from_reader(&f).unwrap_or_else(|e| panic!("call sequence #{i}: the compiler cannot read the persisted blueprint back: {e}")); v };
        search::norm(&mut got);
        components += counter as usize;
        nested += want.components.iter().filter(|c| matches!(c, s::Component::NestedBlueprint(_))).count();
        assert_eq!(got, want, "call sequence #{i}: what the compiler reads back differs from what was registered");
    }
    println!("VERIF-BOUNDED test=bounded_search_over_builder_call_sequences evaluations={n} bound=pseudo-random blueprints (fixed seed): up to 6 registrations per blueprint out of all 13 kinds, every modifier in any order with repetition, prefix/domain chains of up to 3 calls before nest/routes, nesting depth up to 3; {components} registrations, {nested} top-level nestings; compared field by field (columns excepted) with a reference model after persist -> RON -> pavex_bp_schema");
}
