// ======================================================================================
// C19 spec: which schema component each registration is expected to become.
// ======================================================================================
impl FromSpecImpl<pavex_bp_schema::PrebuiltType> for pavex_bp_schema::Component {
    open spec fn obeys_from_spec() -> bool { true }
    open spec fn from_spec(x: pavex_bp_schema::PrebuiltType) -> Self { pavex_bp_schema::Component::PrebuiltType(x) }
}
impl FromSpecImpl<pavex_bp_schema::ConfigType> for pavex_bp_schema::Component {
    open spec fn obeys_from_spec() -> bool { true }
    open spec fn from_spec(x: pavex_bp_schema::ConfigType) -> Self { pavex_bp_schema::Component::ConfigType(x) }
}
impl FromSpecImpl<pavex_bp_schema::Constructor> for pavex_bp_schema::Component {
    open spec fn obeys_from_spec() -> bool { true }
    open spec fn from_spec(x: pavex_bp_schema::Constructor) -> Self { pavex_bp_schema::Component::Constructor(x) }
}
impl FromSpecImpl<pavex_bp_schema::WrappingMiddleware> for pavex_bp_schema::Component {
    open spec fn obeys_from_spec() -> bool { true }
    open spec fn from_spec(x: pavex_bp_schema::WrappingMiddleware) -> Self { pavex_bp_schema::Component::WrappingMiddleware(x) }
}
impl FromSpecImpl<pavex_bp_schema::PostProcessingMiddleware> for pavex_bp_schema::Component {
    open spec fn obeys_from_spec() -> bool { true }
    open spec fn from_spec(x: pavex_bp_schema::PostProcessingMiddleware) -> Self { pavex_bp_schema::Component::PostProcessingMiddleware(x) }
}
impl FromSpecImpl<pavex_bp_schema::PreProcessingMiddleware> for pavex_bp_schema::Component {
    open spec fn obeys_from_spec() -> bool { true }
    open spec fn from_spec(x: pavex_bp_schema::PreProcessingMiddleware) -> Self { pavex_bp_schema::Component::PreProcessingMiddleware(x) }
}
impl FromSpecImpl<pavex_bp_schema::Route> for pavex_bp_schema::Component {
    open spec fn obeys_from_spec() -> bool { true }
    open spec fn from_spec(x: pavex_bp_schema::Route) -> Self { pavex_bp_schema::Component::Route(x) }
}
impl FromSpecImpl<pavex_bp_schema::Fallback> for pavex_bp_schema::Component {
    open spec fn obeys_from_spec() -> bool { true }
    open spec fn from_spec(x: pavex_bp_schema::Fallback) -> Self { pavex_bp_schema::Component::FallbackRequestHandler(x) }
}
impl FromSpecImpl<pavex_bp_schema::NestedBlueprint> for pavex_bp_schema::Component {
    open spec fn obeys_from_spec() -> bool { true }
    open spec fn from_spec(x: pavex_bp_schema::NestedBlueprint) -> Self { pavex_bp_schema::Component::NestedBlueprint(x) }
}
impl FromSpecImpl<pavex_bp_schema::ErrorObserver> for pavex_bp_schema::Component {
    open spec fn obeys_from_spec() -> bool { true }
    open spec fn from_spec(x: pavex_bp_schema::ErrorObserver) -> Self { pavex_bp_schema::Component::ErrorObserver(x) }
}
impl FromSpecImpl<pavex_bp_schema::ErrorHandler> for pavex_bp_schema::Component {
    open spec fn obeys_from_spec() -> bool { true }
    open spec fn from_spec(x: pavex_bp_schema::ErrorHandler) -> Self { pavex_bp_schema::Component::ErrorHandler(x) }
}
impl FromSpecImpl<pavex_bp_schema::Import> for pavex_bp_schema::Component {
    open spec fn obeys_from_spec() -> bool { true }
    open spec fn from_spec(x: pavex_bp_schema::Import) -> Self { pavex_bp_schema::Component::Import(x) }
}
impl FromSpecImpl<pavex_bp_schema::RoutesImport> for pavex_bp_schema::Component {
    open spec fn obeys_from_spec() -> bool { true }
    open spec fn from_spec(x: pavex_bp_schema::RoutesImport) -> Self { pavex_bp_schema::Component::RoutesImport(x) }
}

// ---- name-preserving conversions (exhaustive equations: a swapped arm fails) -----------------------------
pub open spec fn lifecycle_of(l: Lifecycle) -> pavex_bp_schema::Lifecycle {
    match l {
        Lifecycle::Singleton => pavex_bp_schema::Lifecycle::Singleton,
        Lifecycle::RequestScoped => pavex_bp_schema::Lifecycle::RequestScoped,
        Lifecycle::Transient => pavex_bp_schema::Lifecycle::Transient,
    }
}
pub open spec fn cloning_of(c: CloningPolicy) -> pavex_bp_schema::CloningPolicy {
    match c {
        CloningPolicy::NeverClone => pavex_bp_schema::CloningPolicy::NeverClone,
        CloningPolicy::CloneIfNecessary => pavex_bp_schema::CloningPolicy::CloneIfNecessary,
    }
}
pub open spec fn lint_of(l: Lint) -> pavex_bp_schema::Lint {
    match l { Lint::Unused => pavex_bp_schema::Lint::Unused, Lint::ErrorFallback => pavex_bp_schema::Lint::ErrorFallback }
}
pub open spec fn same_created_at(c: CreatedAt, s: pavex_bp_schema::CreatedAt) -> bool {
    s.package_name@ == c.package_name@ && s.package_version@ == c.package_version@
}
pub open spec fn same_coords(c: AnnotationCoordinates, s: pavex_bp_schema::AnnotationCoordinates) -> bool {
    s.id@ == c.id@ && same_created_at(c.created_at, s.created_at) && s.macro_name@ == c.macro_name@
}

/// reflection::Sources -> schema Sources: the same modules, in the same order, with repetitions (`sources2sources` is
/// extracted and proved against this — vstd specifies `into_iter().map(..).collect()`)
pub open spec fn same_sources(s: Sources, r: pavex_bp_schema::Sources) -> bool {
    match (s, r) {
        (Sources::All, pavex_bp_schema::Sources::All) => true,
        (Sources::Some(v), pavex_bp_schema::Sources::Some(w)) => w@.len() == v@.len() && forall |i: int| 0 <= i < v@.len() ==> (#[trigger] w@[i])@ == v@[i]@,
        _ => false,
    }
}

/// C19, first sentence, last step: what the compiler parses from the text `persist` wrote is the schema that was built.
/// (`utf8` is injective; reading the file back gives the text that was written: file-system facts, see C10.)
pub proof fn what_is_persisted_parses_back_to_the_same_schema(s: &BlueprintSchema)
    ensures ron_parse(ron_text(s)) == Some(*s),
{
    broadcast use ron_round_trip;
}
