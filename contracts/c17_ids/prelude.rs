// C17 (a sliver) prelude: ahash::HashMap<&str, usize> as a map keyed by string content
use core::marker::PhantomData;
#[verifier::external_body] #[verifier::reject_recursive_types(K)] #[verifier::accept_recursive_types(V)]
pub struct HashMap<K, V> { _k: PhantomData<(K, V)> }
impl<'a> View for HashMap<&'a str, usize> { type V = Map<Seq<char>, usize>; uninterp spec fn view(&self) -> Map<Seq<char>, usize>; }
impl<'a> HashMap<&'a str, usize> {
    #[verifier::external_body] pub fn new() -> (r: Self) ensures r@ == Map::<Seq<char>, usize>::empty() { unimplemented!() }
    #[verifier::external_body] pub fn get(&self, k: &&'a str) -> (r: Option<&usize>)
        ensures match r { Some(v) => self@.contains_key((**k)@) && *v == self@[(**k)@], None => !self@.contains_key((**k)@) } { unimplemented!() }
    #[verifier::external_body] pub fn insert(&mut self, k: &'a str, v: usize) -> (r: Option<usize>)
        ensures final(self)@ == old(self)@.insert(k@, v) { unimplemented!() }
}
