// ======================================================================================
// C17 (a sliver): the renaming of unassigned generic parameters to ordinals is stable and injective
// ======================================================================================
/// every name seen so far has an ordinal below `next_id`, and no two names share one
pub open spec fn wf_gen(g: &UnassignedIdGenerator<'_>) -> bool {
    &&& forall |n: Seq<char>| #[trigger] g.known_ids@.contains_key(n) ==> g.known_ids@[n] < g.next_id
    &&& forall |a: Seq<char>, b: Seq<char>| #[trigger] g.known_ids@.contains_key(a) && #[trigger] g.known_ids@.contains_key(b) && g.known_ids@[a] == g.known_ids@[b] ==> a == b
}
/// the sentence used by equivalence-up-to-renaming: two names get the same ordinal exactly when they are the same name
pub proof fn same_ordinal_iff_same_name(g: &UnassignedIdGenerator<'_>, a: Seq<char>, b: Seq<char>)
    requires wf_gen(g), g.known_ids@.contains_key(a), g.known_ids@.contains_key(b)
    ensures (g.known_ids@[a] == g.known_ids@[b]) == (a == b)
{
}
