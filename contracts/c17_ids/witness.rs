// Native witness for the C17 renaming sliver (appended to rustdoc/rustdoc_ir/src/generics_equivalence.rs of the scratch copy).
#[cfg(test)]
mod verif_witness_c17_ids {
    use super::*;
    struct Rng(u64);
    impl Rng { fn next(&mut self) -> u64 { self.0 ^= self.0 << 13; self.0 ^= self.0 >> 7; self.0 ^= self.0 << 17; self.0 } fn below(&mut self, n: usize) -> usize { (self.next() % n as u64) as usize } }

    #[test]
    fn names_get_stable_and_pairwise_different_ordinals_in_first_seen_order() {
        let names = ["T", "U", "V", "W", "Item", "E"];
        let thorough = std::env::var("VERIF_TIER").map(|t| t == "thorough").unwrap_or(false);
        let runs = if thorough { 200_000 } else { 20_000 };
        let mut rng = Rng(0x2545_F491_4F6C_DD1D);
        let mut n = 0;
        for _ in 0..runs {
            let mut g = UnassignedIdGenerator::new();
            let mut model: Vec<&str> = Vec::new(); // first-seen order: the ordinal of a name is its position here
            for _ in 0..(1 + rng.below(10)) {
                let name = names[rng.below(names.len())];
                let got = g.id(name);
                let expected = match model.iter().position(|m| *m == name) { Some(p) => p, None => { model.push(name); model.len() - 1 } };
                assert_eq!(got, expected, "VERIF: `{name}` after first-seen order {model:?}");
                n += 1;
            }
        }
        println!("VERIF-BOUNDED test=names_get_stable_and_pairwise_different_ordinals_in_first_seen_order evaluations={n} bound={runs} pseudo-random sequences of up to 10 lookups over 6 names, against the first-seen-order model");
    }
}
