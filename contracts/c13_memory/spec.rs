// ======================================================================================
// C13 spec: the store is observationally a map id -> (state, deadline) of the LIVE records.
// ======================================================================================
pub type Raw = Map<SessionId, StoreRecord>;
pub open spec fn live(r: StoreRecord) -> bool { r.deadline.ns > clock() }
pub open spec fn live_at(m: Raw, id: SessionId) -> bool { m.contains_key(id) && live(m[id]) }
/// two raw maps are observationally equal: they agree on every live record (expired ones are invisible)
pub open spec fn obs_eq(a: Raw, b: Raw) -> bool {
    forall |id: SessionId| #![auto] live_at(a, id) == live_at(b, id) && (live_at(a, id) ==> a[id] == b[id])
}
/// the raw map behind the lock
pub open spec fn raw(s: &InMemorySessionStore) -> Raw { s.0.inner@ }
/// every record other than `id` is physically untouched
pub open spec fn others_untouched(m0: Raw, m1: Raw, id: SessionId) -> bool { m1.remove(id) =~= m0.remove(id) }
/// the record written by create/update
pub open spec fn written(m1: Raw, id: SessionId, state: Map<Seq<char>, int>, ttl: Duration) -> bool {
    m1.contains_key(id) && m1[id].state@ == state && m1[id].deadline == ts_add(Timestamp { ns: clock() }, ttl)
}
/// the ttl `load` reports: time left until the deadline (0 if that does not fit a std Duration)
pub open spec fn remaining(deadline: Timestamp) -> Duration {
    let d = SignedDuration { ns: (deadline.ns - clock()) as i128 };
    if 0 <= d.ns <= u64::MAX { Duration { ns: d.ns as u64 } } else { Duration { ns: 0 } }
}
