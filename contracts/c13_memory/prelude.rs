// ======================================================================================
// C13 prelude — stand-ins / ASSUMED contracts for what `pavex_session_memory_store` uses.
// ======================================================================================
use vstd::std_specs::convert::FromSpecImpl;
use vstd::std_specs::cmp::{PartialEqSpecImpl, PartialOrdSpecImpl};
use vstd::std_specs::ops::{AddSpecImpl, SubSpecImpl};
use std::collections::HashMap;
use core::cmp::Ordering;

/// std: reflexive From (rule N15 writes `?` out)
pub assume_specification<T>[<T as From<T>>::from](t: T) -> (r: T) ensures r == t;

// ---- session state payload: HashMap<Cow<'static, str>, serde_json::Value>, opaque here ------------
#[verifier::external_body] pub struct StateMap { _p: u8 }
pub uninterp spec fn state_view(s: &StateMap) -> Map<Seq<char>, int>;
impl View for StateMap { type V = Map<Seq<char>, int>; open spec fn view(&self) -> Map<Seq<char>, int> { state_view(self) } }
impl Clone for StateMap {
    #[verifier::external_body] fn clone(&self) -> (r: Self) ensures r@ == self@ { unimplemented!() }
}
pub enum Cow<'a, T> { Borrowed(&'a T), Owned(T) }
pub open spec fn cow_val<T>(c: Cow<'_, T>) -> T { match c { Cow::Borrowed(t) => *t, Cow::Owned(t) => t } }
impl<'a> Cow<'a, StateMap> {
    /// std: clones if borrowed
    #[verifier::external_body]
    pub fn into_owned(self) -> (r: StateMap) ensures r@ == cow_val(self)@ { unimplemented!() }
}
#[verifier::external_body] pub struct SerdeJsonError { _p: u8 }
#[verifier::external_body] pub struct AnyhowError { _p: u8 }
pub struct NonZeroUsize { pub n: usize }
impl NonZeroUsize { pub fn get(self) -> (r: usize) ensures r == self.n { self.n } }
impl Clone for NonZeroUsize { fn clone(&self) -> (r: Self) ensures r == *self { NonZeroUsize { n: self.n } } }
impl Copy for NonZeroUsize {}

// ---- time: jiff Timestamp / std Duration as integers (nanoseconds) ---------------------------------
// ASSUMED: the clock does not advance within one store operation (each operation runs under the lock and is
// treated as one instant): every `Timestamp::now()` returns `clock()`.
#[derive(Clone, Copy)] pub struct Timestamp { pub ns: i128 }
#[derive(Clone, Copy)] pub struct Duration { pub ns: u64 }
#[derive(Clone, Copy)] pub struct SignedDuration { pub ns: i128 }
pub uninterp spec fn clock() -> i128;
impl Timestamp {
    #[verifier::external_body] pub fn now() -> (r: Timestamp) ensures r.ns == clock() { unimplemented!() }
}
/// `Ord::max` / `Ord::min` on Timestamp (API neighbourhood, not called by the unchanged code), as inherent methods
impl Timestamp {
    pub fn max(self, o: Timestamp) -> (r: Timestamp) ensures r == (if self.ns >= o.ns { self } else { o }) { if self.ns >= o.ns { self } else { o } }
    pub fn min(self, o: Timestamp) -> (r: Timestamp) ensures r == (if self.ns <= o.ns { self } else { o }) { if self.ns <= o.ns { self } else { o } }
}
impl PartialEq for Timestamp { #[verifier::external_body] fn eq(&self, o: &Timestamp) -> (r: bool) { unimplemented!() } }
impl PartialEqSpecImpl for Timestamp {
    open spec fn obeys_eq_spec() -> bool { true }
    open spec fn eq_spec(&self, o: &Timestamp) -> bool { self.ns == o.ns }
}
impl PartialOrd for Timestamp { #[verifier::external_body] fn partial_cmp(&self, o: &Timestamp) -> (r: Option<Ordering>) { unimplemented!() } }
impl PartialOrdSpecImpl for Timestamp {
    open spec fn obeys_partial_cmp_spec() -> bool { true }
    open spec fn partial_cmp_spec(&self, o: &Timestamp) -> Option<Ordering> {
        Some(if self.ns < o.ns { Ordering::Less } else if self.ns == o.ns { Ordering::Equal } else { Ordering::Greater })
    }
}
/// jiff: `Timestamp + std Duration` (saturating/panicking behaviour at the range ends is NOT modelled: mathematical sum)
pub open spec fn ts_add(t: Timestamp, d: Duration) -> Timestamp { Timestamp { ns: (t.ns + d.ns) as i128 } }
impl core::ops::Add<Duration> for Timestamp {
    type Output = Timestamp;
    #[verifier::external_body] fn add(self, d: Duration) -> (r: Timestamp) { unimplemented!() }
}
impl AddSpecImpl<Duration> for Timestamp {
    open spec fn obeys_add_spec() -> bool { true }
    open spec fn add_req(self, d: Duration) -> bool { true }
    open spec fn add_spec(self, d: Duration) -> Timestamp { ts_add(self, d) }
}
impl core::ops::Sub<Timestamp> for Timestamp {
    type Output = SignedDuration;
    #[verifier::external_body] fn sub(self, o: Timestamp) -> (r: SignedDuration) { unimplemented!() }
}
impl SubSpecImpl<Timestamp> for Timestamp {
    open spec fn obeys_sub_spec() -> bool { true }
    open spec fn sub_req(self, o: Timestamp) -> bool { true }
    open spec fn sub_spec(self, o: Timestamp) -> SignedDuration { SignedDuration { ns: (self.ns - o.ns) as i128 } }
}
pub struct TryFromSignedError;
impl vstd::std_specs::convert::TryFromSpecImpl<SignedDuration> for Duration {
    open spec fn obeys_try_from_spec() -> bool { true }
    open spec fn try_from_spec(d: SignedDuration) -> Result<Self, TryFromSignedError> {
        if 0 <= d.ns <= u64::MAX { Ok(Duration { ns: d.ns as u64 }) } else { Err(TryFromSignedError) }
    }
}
impl TryFrom<SignedDuration> for Duration {
    type Error = TryFromSignedError;
    #[verifier::external_body] fn try_from(d: SignedDuration) -> (r: Result<Self, TryFromSignedError>) { unimplemented!() }
}
impl Duration {
    /// `const fn`, as in std (it may initialise a constant); beyond the stand-in's 64-bit nanoseconds nothing is promised
    pub const fn from_millis(ms: u64) -> (r: Duration) ensures ms * 1_000_000 <= u64::MAX ==> r.ns == ms * 1_000_000
    { Duration { ns: if ms <= u64::MAX / 1_000_000 { ms * 1_000_000 } else { u64::MAX } } }
}
#[verifier::allow(undeclared_external_trait)]
pub assume_specification<T, E>[Result::<T, E>::unwrap_or](res: Result<T, E>, default: T) -> (r: T)
    where E: core::marker::Destruct, T: core::marker::Destruct
    ensures r == (match res { Ok(t) => t, Err(_) => default });

// ---- the lock: Arc<tokio::sync::Mutex<T>> under the lock-scope side condition (rule N6) --------------
pub struct ArcMutex<T> { pub inner: T }
impl<T> ArcMutex<T> {
    pub fn lock(&mut self) -> (g: &mut T)
        ensures *g == old(self).inner, final(self).inner == *final(g)
    { &mut self.inner }
}

// ---- std HashMap<SessionId, StoreRecord>: vstd's specs + key model --------------------------------
pub mod axioms {
    use super::*;
    /// derive(Hash, Eq) on a struct of one u128: hashing and equality agree (vstd key model)
    pub broadcast axiom fn session_id_key_model()
        ensures #[trigger] vstd::std_specs::hash::obeys_key_model::<SessionId>();
    pub broadcast axiom fn key_of_borrow_id<K>(k: &K) ensures #[trigger] key_of_borrow::<K, K>(k) == *k;
}
/// the key a borrowed form stands for (std: `K: Borrow<Q>` with Eq/Hash agreeing); identity when Q == K
pub uninterp spec fn key_of_borrow<K, Q: ?Sized>(q: &Q) -> K;
/// std HashMap::get_mut (no vstd spec): a mutable borrow of the value stored under the key
pub assume_specification<'a, K, V, S, A, Q>[HashMap::<K, V, S, A>::get_mut](m: &'a mut HashMap<K, V, S, A>, k: &Q) -> (r: Option<&'a mut V>)
    where A: std::alloc::Allocator, K: Eq + std::hash::Hash + std::borrow::Borrow<Q>,
          Q: std::marker::MetaSized + std::hash::Hash + Eq + ?Sized, S: std::hash::BuildHasher
    ensures
        vstd::std_specs::hash::obeys_key_model::<K>() && vstd::std_specs::hash::builds_valid_hashers::<S>() ==> ({
            let key = key_of_borrow::<K, Q>(k);
            match r {
                Some(v) => old(m)@.contains_key(key) && *v == old(m)@[key] && final(m)@ == old(m)@.insert(key, *final(v)),
                None => !old(m)@.contains_key(key) && final(m)@ == old(m)@,
            }
        });
/// std: `impl<T: Clone> ToOwned for T { fn to_owned(&self) -> T { self.clone() } }`; SessionId is Copy
pub assume_specification<T: Clone>[<T as std::borrow::ToOwned>::to_owned](t: &T) -> (r: T)
    ensures call_ensures(T::clone, (t,), r);
