// Native witness/replay for the C13 obligations: drives the real InMemorySessionStore through the public
// SessionStorageBackend trait and asserts the property statement (a map with expiry).
use pavex_session::store::errors::*;
use pavex_session::store::{SessionRecordRef, SessionStorageBackend};
use pavex_session::SessionId;
use pavex_session_memory_store::InMemorySessionStore;
use std::borrow::Cow;
use std::collections::HashMap;
use std::time::Duration;

type State = HashMap<Cow<'static, str>, serde_json::Value>;
fn st(k: &str, v: i64) -> State { let mut m = State::new(); m.insert(k.to_string().into(), v.into()); m }
fn rec(s: &State, ttl: Duration) -> SessionRecordRef<'_> { SessionRecordRef { state: Cow::Borrowed(s), ttl } }
const LONG: Duration = Duration::from_secs(3600);
const SHORT: Duration = Duration::from_millis(20);
async fn expire() { std::thread::sleep(Duration::from_millis(60)); }

#[tokio::test]
async fn create_then_load_returns_exactly_what_was_written() {
    let s = InMemorySessionStore::new(); let id = SessionId::random(); let a = st("a", 1);
    s.create(&id, rec(&a, LONG)).await.unwrap();
    let r = s.load(&id).await.unwrap().expect("live record");
    assert_eq!(r.state, a); assert!(r.ttl <= LONG && r.ttl > Duration::from_secs(3500));
    assert!(s.load(&SessionId::random()).await.unwrap().is_none());
}
#[tokio::test]
async fn create_never_overwrites_a_live_record() {
    let s = InMemorySessionStore::new(); let id = SessionId::random(); let (a, b) = (st("a", 1), st("b", 2));
    s.create(&id, rec(&a, LONG)).await.unwrap();
    assert!(matches!(s.create(&id, rec(&b, LONG)).await, Err(CreateError::DuplicateId(_))));
    assert_eq!(s.load(&id).await.unwrap().unwrap().state, a);
}
#[tokio::test]
async fn expired_records_are_invisible_and_replaceable() {
    let s = InMemorySessionStore::new(); let id = SessionId::random(); let (a, b) = (st("a", 1), st("b", 2));
    s.create(&id, rec(&a, SHORT)).await.unwrap(); expire().await;
    assert!(s.load(&id).await.unwrap().is_none(), "load returned an expired record");
    assert!(matches!(s.update(&id, rec(&b, LONG)).await, Err(UpdateError::UnknownIdError(_))));
    assert!(matches!(s.update_ttl(&id, LONG).await, Err(UpdateTtlError::UnknownId(_))));
    assert!(matches!(s.delete(&id).await, Err(DeleteError::UnknownId(_))));
    s.create(&id, rec(&a, SHORT)).await.unwrap(); expire().await;
    assert!(matches!(s.change_id(&id, &SessionId::random()).await, Err(ChangeIdError::UnknownId(_))));
    s.create(&id, rec(&b, LONG)).await.expect("an expired record does not block create");
    assert_eq!(s.load(&id).await.unwrap().unwrap().state, b);
}
#[tokio::test]
async fn update_and_update_ttl_take_effect_on_live_records_only() {
    let s = InMemorySessionStore::new(); let (id, other) = (SessionId::random(), SessionId::random()); let (a, b) = (st("a", 1), st("b", 2));
    assert!(matches!(s.update(&id, rec(&a, LONG)).await, Err(UpdateError::UnknownIdError(_))));
    assert!(s.load(&id).await.unwrap().is_none(), "a failed update must not create a record");
    s.create(&id, rec(&a, LONG)).await.unwrap(); s.create(&other, rec(&a, LONG)).await.unwrap();
    s.update(&id, rec(&b, LONG)).await.unwrap();
    assert_eq!(s.load(&id).await.unwrap().unwrap().state, b);
    assert_eq!(s.load(&other).await.unwrap().unwrap().state, a, "update touched another record");
    s.update_ttl(&id, SHORT).await.unwrap();
    assert_eq!(s.load(&id).await.unwrap().unwrap().state, b, "update_ttl changed the state");
    expire().await; assert!(s.load(&id).await.unwrap().is_none(), "update_ttl did not move the deadline");
    assert!(s.load(&other).await.unwrap().is_some());
}
#[tokio::test]
async fn delete_removes_exactly_the_record() {
    let s = InMemorySessionStore::new(); let (id, other) = (SessionId::random(), SessionId::random()); let a = st("a", 1);
    s.create(&id, rec(&a, LONG)).await.unwrap(); s.create(&other, rec(&a, LONG)).await.unwrap();
    s.delete(&id).await.unwrap();
    assert!(s.load(&id).await.unwrap().is_none()); assert!(s.load(&other).await.unwrap().is_some());
    assert!(matches!(s.delete(&id).await, Err(DeleteError::UnknownId(_))));
}
#[tokio::test]
async fn change_id_moves_the_record_atomically() {
    let s = InMemorySessionStore::new(); let (o, n, live) = (SessionId::random(), SessionId::random(), SessionId::random()); let (a, b) = (st("a", 1), st("b", 2));
    s.create(&o, rec(&a, LONG)).await.unwrap(); s.create(&live, rec(&b, LONG)).await.unwrap();
    assert!(matches!(s.change_id(&o, &live).await, Err(ChangeIdError::DuplicateId(_))));
    assert_eq!(s.load(&o).await.unwrap().unwrap().state, a, "a refused change_id must leave the old record");
    assert_eq!(s.load(&live).await.unwrap().unwrap().state, b, "a refused change_id must leave the new id's record");
    assert!(matches!(s.change_id(&SessionId::random(), &n).await, Err(ChangeIdError::UnknownId(_))));
    s.change_id(&o, &n).await.unwrap();
    assert!(s.load(&o).await.unwrap().is_none()); assert_eq!(s.load(&n).await.unwrap().unwrap().state, a);
    assert_eq!(s.load(&live).await.unwrap().unwrap().state, b);
}
#[tokio::test]
async fn delete_expired_removes_only_expired_records() {
    let s = InMemorySessionStore::new(); let a = st("a", 1);
    let live: Vec<SessionId> = (0..5).map(|_| SessionId::random()).collect();
    let dead: Vec<SessionId> = (0..5).map(|_| SessionId::random()).collect();
    for id in &live { s.create(id, rec(&a, LONG)).await.unwrap(); }
    for id in &dead { s.create(id, rec(&a, SHORT)).await.unwrap(); }
    expire().await;
    let n = s.delete_expired(std::num::NonZeroUsize::new(2)).await.unwrap(); assert!(n <= 2, "batch size ignored");
    let m = s.delete_expired(None).await.unwrap(); assert_eq!(n + m, 5);
    for id in &live { assert!(s.load(id).await.unwrap().is_some(), "delete_expired removed a live record"); }
    assert_eq!(s.delete_expired(None).await.unwrap(), 0);
}

/// Bounded concurrency stress (labelled bounded): a sweeper thread runs delete_expired while a writer thread re-creates
/// expired-but-unpurged ids with a long TTL. Linearizability demands that every record the writer created successfully,
/// and that nobody deleted afterwards, is still there: a live record must never be swept.
#[test]
fn concurrent_delete_expired_never_sweeps_a_live_record() {
    use std::sync::Arc;
    let rt = || tokio::runtime::Builder::new_current_thread().build().unwrap();
    for round in 0..4 {
        let s = InMemorySessionStore::new();
        let a = st("a", 1);
        let ids: Arc<Vec<SessionId>> = Arc::new((0..60_000).map(|_| SessionId::random()).collect());
        rt().block_on(async { for id in ids.iter() { s.create(id, rec(&a, Duration::from_millis(1))).await.unwrap(); } });
        std::thread::sleep(Duration::from_millis(20));
        let (s1, s2, ids2) = (s.clone(), s.clone(), ids.clone());
        let sweeper = std::thread::spawn(move || rt().block_on(async move { s1.delete_expired(None).await.unwrap() }));
        let writer = std::thread::spawn(move || rt().block_on(async move {
            let a = st("a", 2);
            let mut created = Vec::new();
            for id in ids2.iter().take(4000) { if s2.create(id, rec(&a, LONG)).await.is_ok() { created.push(*id); } }
            created
        }));
        let _ = sweeper.join().unwrap();
        let created = writer.join().unwrap();
        println!("VERIF-BOUNDED test=concurrent_delete_expired_never_sweeps_a_live_record evaluations={} bound=round {round} of 4: one sweeper thread against one writer re-creating up to 4000 of 60000 expired ids (schedules chosen by the OS)", created.len());
        rt().block_on(async {
            for id in &created {
                assert!(s.load(id).await.unwrap().is_some(), "round {round}: a record created with a 1h TTL while delete_expired was running has been swept");
            }
        });
    }
}

/// Bounded search (labelled bounded): random histories of store operations over three ids, with TTLs that need no
/// waiting — a zero TTL is a record that has already expired (`deadline <= now` on every later access), 5 s and 1 h
/// ones outlive the test — compared after every operation with the map-with-expiry of the property statement.
#[tokio::test]
async fn bounded_search_over_store_histories() {
    use std::num::NonZeroUsize;
    #[derive(Clone)] struct Rec { state: State, ttl: Duration }
    let thorough = std::env::var("VERIF_TIER").map(|t| t == "thorough").unwrap_or(false);
    let n_histories: u64 = if thorough { 300_000 } else { 6_000 };
    let ttls = [Duration::ZERO, Duration::from_secs(5), LONG];
    let mut seed: u64 = 0x9E3779B97F4A7C15;
    let mut rnd = |n: u64| -> u64 { seed ^= seed << 13; seed ^= seed >> 7; seed ^= seed << 17; seed % n };
    for h in 0..n_histories {
        let s = InMemorySessionStore::new();
        let ids = [SessionId::random(), SessionId::random(), SessionId::random()];
        let mut live: HashMap<usize, Rec> = HashMap::new();   // the reference model: live records only
        let mut maybe_dead: usize = 0;                        // upper bound on expired records still held
        let mut log: Vec<String> = Vec::new();
        for step in 0..14 {
            let (i, j) = (rnd(3) as usize, rnd(3) as usize);
            let ttl = ttls[rnd(3) as usize];
            // sometimes the very state the record already holds (an unchanged state with another TTL must still take effect)
            let state = match live.get(&i) { Some(m) if rnd(4) == 0 => m.state.clone(), _ => st(["a", "b"][rnd(2) as usize], (h * 100 + step) as i64) };
            let ctx = |log: &Vec<String>| format!("history {h}: {}", log.join("; "));
            match rnd(8) {
                0 | 1 => {
                    log.push(format!("create({i}, ttl={ttl:?})"));
                    let r = s.create(&ids[i], rec(&state, ttl)).await;
                    if live.contains_key(&i) {
                        assert!(matches!(r, Err(CreateError::DuplicateId(_))), "create over a live record must fail with DuplicateId — {}", ctx(&log));
                    } else {
                        assert!(r.is_ok(), "create on an absent/expired id must succeed — {}", ctx(&log));
                        if ttl.is_zero() { maybe_dead += 1 } else { live.insert(i, Rec { state, ttl }); }
                    }
                }
                2 => {
                    log.push(format!("update({i}, ttl={ttl:?})"));
                    let r = s.update(&ids[i], rec(&state, ttl)).await;
                    if live.contains_key(&i) {
                        assert!(r.is_ok(), "update of a live record must succeed — {}", ctx(&log));
                        if ttl.is_zero() { live.remove(&i); maybe_dead += 1 } else { live.insert(i, Rec { state, ttl }); }
                    } else {
                        assert!(matches!(r, Err(UpdateError::UnknownIdError(_))), "update of an absent/expired record must fail with UnknownId — {}", ctx(&log));
                    }
                }
                3 => {
                    log.push(format!("update_ttl({i}, ttl={ttl:?})"));
                    let r = s.update_ttl(&ids[i], ttl).await;
                    if live.contains_key(&i) {
                        assert!(r.is_ok(), "update_ttl of a live record must succeed — {}", ctx(&log));
                        if ttl.is_zero() { live.remove(&i); maybe_dead += 1 } else { live.get_mut(&i).unwrap().ttl = ttl; }
                    } else {
                        assert!(matches!(r, Err(UpdateTtlError::UnknownId(_))), "update_ttl of an absent/expired record must fail with UnknownId — {}", ctx(&log));
                    }
                }
                4 => {
                    log.push(format!("delete({i})"));
                    let r = s.delete(&ids[i]).await;
                    if live.remove(&i).is_some() { assert!(r.is_ok(), "delete of a live record must succeed — {}", ctx(&log)); }
                    else { assert!(matches!(r, Err(DeleteError::UnknownId(_))), "delete of an absent/expired record must fail with UnknownId — {}", ctx(&log)); }
                }
                5 | 6 => {
                    log.push(format!("change_id({i} -> {j})"));
                    let r = s.change_id(&ids[i], &ids[j]).await;
                    if i == j {
                        // renaming a record to its own id is not specified by the statement: Ok or DuplicateId when it is live
                        // (either way the observation below demands that nothing changed), UnknownId when it is not
                        if live.contains_key(&i) { assert!(matches!(r, Ok(()) | Err(ChangeIdError::DuplicateId(_))), "change_id({i} -> {i}) on a live record — {}", ctx(&log)); }
                        else { assert!(matches!(r, Err(ChangeIdError::UnknownId(_))), "change_id of an absent/expired record must fail with UnknownId — {}", ctx(&log)); }
                    } else { match (live.contains_key(&i), live.contains_key(&j)) {
                        (true, false) => { assert!(r.is_ok(), "change_id of a live record onto a free id must succeed — {}", ctx(&log)); let m = live.remove(&i).unwrap(); live.insert(j, m); }
                        (false, false) => assert!(matches!(r, Err(ChangeIdError::UnknownId(_))), "change_id of an absent/expired record must fail with UnknownId — {}", ctx(&log)),
                        (true, true) => assert!(matches!(r, Err(ChangeIdError::DuplicateId(_))), "change_id onto a live id must fail with DuplicateId — {}", ctx(&log)),
                        (false, true) => assert!(matches!(r, Err(ChangeIdError::DuplicateId(_)) | Err(ChangeIdError::UnknownId(_))), "change_id must fail — {}", ctx(&log)),
                    } }
                }
                _ => {
                    let batch = [None, NonZeroUsize::new(1), NonZeroUsize::new(2), NonZeroUsize::new(5)][rnd(4) as usize];
                    log.push(format!("delete_expired({batch:?})"));
                    let n = s.delete_expired(batch).await.expect("delete_expired never fails");
                    assert!(n <= maybe_dead, "delete_expired reports {n} removals but at most {maybe_dead} records can have expired — {}", ctx(&log));
                    if let Some(b) = batch { assert!(n <= b.get(), "batch size ignored — {}", ctx(&log)); }
                    if batch.is_none() {
                        maybe_dead = 0;
                        assert_eq!(s.delete_expired(None).await.unwrap(), 0, "an unbatched purge left expired records behind — {}", ctx(&log));
                    }
                }
            }
            // observe every id after every operation
            for k in 0..3 {
                let got = s.load(&ids[k]).await.expect("load never fails");
                match (live.get(&k), got) {
                    (None, None) => {}
                    (Some(m), Some(g)) => {
                        assert_eq!(g.state, m.state, "load({k}) returned a different state than the last successful write — {}", ctx(&log));
                        assert!(g.ttl <= m.ttl && g.ttl + Duration::from_secs(3) > m.ttl,
                            "load({k}) reports {:?} left of a TTL of {:?} written an instant ago — {}", g.ttl, m.ttl, ctx(&log));
                    }
                    (None, Some(_)) => panic!("load({k}) returned an expired, deleted or never created record — {}", ctx(&log)),
                    (Some(_), None) => panic!("load({k}) lost a live record — {}", ctx(&log)),
                }
            }
        }
    }
    println!("VERIF-BOUNDED test=bounded_search_over_store_histories evaluations={n_histories} bound=pseudo-random histories (fixed seed) of 14 store operations over 3 ids, TTL in {{0, 5 s, 1 h}}, batch sizes {{none, 1, 2, 5}}, every id observed after every operation");
}
