// Native witness/replay for the C13 obligations: drives the real InMemorySessionStore through the public
// SessionStorageBackend trait and asserts the property statement (a map with expiry).
use pavex_session::store::errors::*;
use pavex_session::store::{SessionRecordRef, SessionStorageBackend};
use pavex_session::SessionId;
use pavex_session_memory_store::InMemorySessionStore;
use std::borrow::Cow;
use std::collections::HashMap;
use std::time::Duration;

type State = HashMap<Cow<'static, str>, serde_json::Value>;
fn st(k: &str, v: i64) -> State { let mut m = State::new(); m.insert(k.to_string().into(), v.into()); m }
fn rec(s: &State, ttl: Duration) -> SessionRecordRef<'_> { SessionRecordRef { state: Cow::Borrowed(s), ttl } }
const LONG: Duration = Duration::from_secs(3600);
const SHORT: Duration = Duration::from_millis(20);
async fn expire() { std::thread::sleep(Duration::from_millis(60)); }

#[tokio::test]
async fn create_then_load_returns_exactly_what_was_written() {
    let s = InMemorySessionStore::new(); let id = SessionId::random(); let a = st("a", 1);
    s.create(&id, rec(&a, LONG)).await.unwrap();
    let r = s.load(&id).await.unwrap().expect("live record");
    assert_eq!(r.state, a); assert!(r.ttl <= LONG && r.ttl > Duration::from_secs(3500));
    assert!(s.load(&SessionId::random()).await.unwrap().is_none());
}
#[tokio::test]
async fn create_never_overwrites_a_live_record() {
    let s = InMemorySessionStore::new(); let id = SessionId::random(); let (a, b) = (st("a", 1), st("b", 2));
    s.create(&id, rec(&a, LONG)).await.unwrap();
    assert!(matches!(s.create(&id, rec(&b, LONG)).await, Err(CreateError::DuplicateId(_))));
    assert_eq!(s.load(&id).await.unwrap().unwrap().state, a);
}
#[tokio::test]
async fn expired_records_are_invisible_and_replaceable() {
    let s = InMemorySessionStore::new(); let id = SessionId::random(); let (a, b) = (st("a", 1), st("b", 2));
    s.create(&id, rec(&a, SHORT)).await.unwrap(); expire().await;
    assert!(s.load(&id).await.unwrap().is_none(), "load returned an expired record");
    assert!(matches!(s.update(&id, rec(&b, LONG)).await, Err(UpdateError::UnknownIdError(_))));
    assert!(matches!(s.update_ttl(&id, LONG).await, Err(UpdateTtlError::UnknownId(_))));
    assert!(matches!(s.delete(&id).await, Err(DeleteError::UnknownId(_))));
    s.create(&id, rec(&a, SHORT)).await.unwrap(); expire().await;
    assert!(matches!(s.change_id(&id, &SessionId::random()).await, Err(ChangeIdError::UnknownId(_))));
    s.create(&id, rec(&b, LONG)).await.expect("an expired record does not block create");
    assert_eq!(s.load(&id).await.unwrap().unwrap().state, b);
}
#[tokio::test]
async fn update_and_update_ttl_take_effect_on_live_records_only() {
    let s = InMemorySessionStore::new(); let (id, other) = (SessionId::random(), SessionId::random()); let (a, b) = (st("a", 1), st("b", 2));
    assert!(matches!(s.update(&id, rec(&a, LONG)).await, Err(UpdateError::UnknownIdError(_))));
    assert!(s.load(&id).await.unwrap().is_none(), "a failed update must not create a record");
    s.create(&id, rec(&a, LONG)).await.unwrap(); s.create(&other, rec(&a, LONG)).await.unwrap();
    s.update(&id, rec(&b, LONG)).await.unwrap();
    assert_eq!(s.load(&id).await.unwrap().unwrap().state, b);
    assert_eq!(s.load(&other).await.unwrap().unwrap().state, a, "update touched another record");
    s.update_ttl(&id, SHORT).await.unwrap();
    assert_eq!(s.load(&id).await.unwrap().unwrap().state, b, "update_ttl changed the state");
    expire().await; assert!(s.load(&id).await.unwrap().is_none(), "update_ttl did not move the deadline");
    assert!(s.load(&other).await.unwrap().is_some());
}
#[tokio::test]
async fn delete_removes_exactly_the_record() {
    let s = InMemorySessionStore::new(); let (id, other) = (SessionId::random(), SessionId::random()); let a = st("a", 1);
    s.create(&id, rec(&a, LONG)).await.unwrap(); s.create(&other, rec(&a, LONG)).await.unwrap();
    s.delete(&id).await.unwrap();
    assert!(s.load(&id).await.unwrap().is_none()); assert!(s.load(&other).await.unwrap().is_some());
    assert!(matches!(s.delete(&id).await, Err(DeleteError::UnknownId(_))));
}
#[tokio::test]
async fn change_id_moves_the_record_atomically() {
    let s = InMemorySessionStore::new(); let (o, n, live) = (SessionId::random(), SessionId::random(), SessionId::random()); let (a, b) = (st("a", 1), st("b", 2));
    s.create(&o, rec(&a, LONG)).await.unwrap(); s.create(&live, rec(&b, LONG)).await.unwrap();
    assert!(matches!(s.change_id(&o, &live).await, Err(ChangeIdError::DuplicateId(_))));
    assert_eq!(s.load(&o).await.unwrap().unwrap().state, a, "a refused change_id must leave the old record");
    assert_eq!(s.load(&live).await.unwrap().unwrap().state, b, "a refused change_id must leave the new id's record");
    assert!(matches!(s.change_id(&SessionId::random(), &n).await, Err(ChangeIdError::UnknownId(_))));
    s.change_id(&o, &n).await.unwrap();
    assert!(s.load(&o).await.unwrap().is_none()); assert_eq!(s.load(&n).await.unwrap().unwrap().state, a);
    assert_eq!(s.load(&live).await.unwrap().unwrap().state, b);
}
#[tokio::test]
async fn delete_expired_removes_only_expired_records() {
    let s = InMemorySessionStore::new(); let a = st("a", 1);
    let live: Vec<SessionId> = (0..5).map(|_| SessionId::random()).collect();
    let dead: Vec<SessionId> = (0..5).map(|_| SessionId::random()).collect();
    for id in &live { s.create(id, rec(&a, LONG)).await.unwrap(); }
    for id in &dead { s.create(id, rec(&a, SHORT)).await.unwrap(); }
    expire().await;
    let n = s.delete_expired(std::num::NonZeroUsize::new(2)).await.unwrap(); assert!(n <= 2, "batch size ignored");
    let m = s.delete_expired(None).await.unwrap(); assert_eq!(n + m, 5);
    for id in &live { assert!(s.load(id).await.unwrap().is_some(), "delete_expired removed a live record"); }
    assert_eq!(s.delete_expired(None).await.unwrap(), 0);
}

/// Bounded concurrency stress (labelled bounded): a sweeper thread runs delete_expired while a writer thread re-creates
/// expired-but-unpurged ids with a long TTL. Linearizability demands that every record the writer created successfully,
/// and that nobody deleted afterwards, is still there: a live record must never be swept.
#[test]
fn concurrent_delete_expired_never_sweeps_a_live_record() {
    use std::sync::Arc;
    let rt = || tokio::runtime::Builder::new_current_thread().build().unwrap();
    for round in 0..4 {
        let s = InMemorySessionStore::new();
        let a = st("a", 1);
        let ids: Arc<Vec<SessionId>> = Arc::new((0..60_000).map(|_| SessionId::random()).collect());
        rt().block_on(async { for id in ids.iter() { s.create(id, rec(&a, Duration::from_millis(1))).await.unwrap(); } });
        std::thread::sleep(Duration::from_millis(20));
        let (s1, s2, ids2) = (s.clone(), s.clone(), ids.clone());
        let sweeper = std::thread::spawn(move || rt().block_on(async move { s1.delete_expired(None).await.unwrap() }));
        let writer = std::thread::spawn(move || rt().block_on(async move {
            let a = st("a", 2);
            let mut created = Vec::new();
            for id in ids2.iter().take(4000) { if s2.create(id, rec(&a, LONG)).await.is_ok() { created.push(*id); } }
            created
        }));
        let _ = sweeper.join().unwrap();
        let created = writer.join().unwrap();
        rt().block_on(async {
            for id in &created {
                assert!(s.load(id).await.unwrap().is_some(), "round {round}: a record created with a 1h TTL while delete_expired was running has been swept");
            }
        });
    }
}
