// ======================================================================================
// Refinement: what C13 proves about InMemorySessionStore implies what C11 ASSUMES about the store handle.
// C11's `sv` is the map id -> state of the LIVE records.  `abs(m, v)` says v is that map for the raw map m.
// Each lemma takes, as hypothesis, the postcondition discharged on the real method (same spec functions as in
// clauses.vspec) and concludes the postcondition of the C11 stand-in (contracts/c11_session/prelude.rs), case by case.
// Hypotheses beyond the postconditions are named: a positive TTL (a record written with ttl 0 is born expired) and
// no overflow of the deadline.
// ======================================================================================
pub type Sv = Map<SessionId, Map<Seq<char>, int>>;
pub open spec fn agrees(m: Raw, v: Sv, id: SessionId) -> bool {
    v.contains_key(id) == live_at(m, id) && (live_at(m, id) ==> v[id] == m[id].state@)
}
pub open spec fn abs(m: Raw, v: Sv) -> bool { forall |id: SessionId| #[trigger] agrees(m, v, id) }
/// proof helper: `others_untouched`, pointwise
pub proof fn untouched_pointwise(m0: Raw, m1: Raw, id: SessionId, k: SessionId)
    requires others_untouched(m0, m1, id), k != id,
    ensures m1.contains_key(k) == m0.contains_key(k), m0.contains_key(k) ==> m1[k] == m0[k],
{
    assert(m1.remove(id).contains_key(k) == m0.remove(id).contains_key(k));
    if m0.contains_key(k) { assert(m1.remove(id)[k] == m0.remove(id)[k]); }
}
pub open spec fn stays_live(ttl: Duration) -> bool { ttl.ns > 0 && clock() + ttl.ns <= i128::MAX }

/// create: Ok ⇒ the id was not live and sv' == sv.insert(id, state);  DuplicateId ⇒ the id is live and sv' == sv
pub proof fn create_refines(m0: Raw, m1: Raw, v0: Sv, id: SessionId, state: Map<Seq<char>, int>, ttl: Duration, ok: bool)
    requires
        abs(m0, v0), stays_live(ttl),
        // create.writes_exactly_the_record / create.never_overwrites_a_live_record
        ok ==> !live_at(m0, id) && written(m1, id, state, ttl) && others_untouched(m0, m1, id),
        !ok ==> live_at(m0, id) && m1 == m0,
    ensures
        ok ==> !v0.contains_key(id) && abs(m1, v0.insert(id, state)),
        !ok ==> v0.contains_key(id) && abs(m1, v0),
{
    if ok {
        let v1 = v0.insert(id, state);
        assert forall |k: SessionId| #[trigger] agrees(m1, v1, k) by {
            assert(agrees(m0, v0, k));
            if k != id { untouched_pointwise(m0, m1, id, k); }
        }
        assert(agrees(m0, v0, id));
    } else {
        assert(agrees(m0, v0, id));
    }
}
/// update: Ok ⇒ the id was live and sv' == sv.insert(id, state);  UnknownId ⇒ not live and sv' == sv
pub proof fn update_refines(m0: Raw, m1: Raw, v0: Sv, id: SessionId, state: Map<Seq<char>, int>, ttl: Duration, ok: bool)
    requires
        abs(m0, v0), stays_live(ttl),
        ok ==> live_at(m0, id) && written(m1, id, state, ttl) && others_untouched(m0, m1, id),
        !ok ==> !live_at(m0, id) && m1 == m0,
    ensures
        ok ==> v0.contains_key(id) && abs(m1, v0.insert(id, state)),
        !ok ==> !v0.contains_key(id) && abs(m1, v0),
{
    if ok {
        let v1 = v0.insert(id, state);
        assert forall |k: SessionId| #[trigger] agrees(m1, v1, k) by {
            assert(agrees(m0, v0, k));
            if k != id { untouched_pointwise(m0, m1, id, k); }
        }
        assert(agrees(m0, v0, id));
    } else {
        assert(agrees(m0, v0, id));
    }
}
/// update_ttl: Ok ⇒ live and sv' == sv;  UnknownId ⇒ not live and sv' == sv
pub proof fn update_ttl_refines(m0: Raw, m1: Raw, v0: Sv, id: SessionId, ttl: Duration, ok: bool)
    requires
        abs(m0, v0), stays_live(ttl),
        ok ==> live_at(m0, id) && written(m1, id, m0[id].state@, ttl) && others_untouched(m0, m1, id),
        !ok ==> !live_at(m0, id) && m1 == m0,
    ensures
        ok ==> v0.contains_key(id), !ok ==> !v0.contains_key(id),
        abs(m1, v0),
{
    assert(agrees(m0, v0, id));
    if ok {
        assert forall |k: SessionId| #[trigger] agrees(m1, v0, k) by {
            assert(agrees(m0, v0, k));
            if k != id { untouched_pointwise(m0, m1, id, k); }
        }
    }
}
/// load: the store is unchanged; Some(state) ⇔ live, with exactly the stored state
pub proof fn load_refines(m0: Raw, m1: Raw, v0: Sv, id: SessionId, found: Option<Map<Seq<char>, int>>)
    requires
        abs(m0, v0), m1 == m0,
        match found { Some(s) => live_at(m0, id) && s == m0[id].state@, None => !live_at(m0, id) },
    ensures
        abs(m1, v0),
        match found { Some(s) => v0.contains_key(id) && v0[id] == s, None => !v0.contains_key(id) },
{
    assert(agrees(m0, v0, id));
}
/// delete: Ok ⇒ live and sv' == sv.remove(id);  UnknownId ⇒ not live and sv' == sv (a stale record may vanish: invisible)
pub proof fn delete_refines(m0: Raw, m1: Raw, v0: Sv, id: SessionId, ok: bool)
    requires
        abs(m0, v0), m1 == m0.remove(id), ok == live_at(m0, id),
    ensures
        ok ==> v0.contains_key(id) && abs(m1, v0.remove(id)),
        !ok ==> !v0.contains_key(id) && abs(m1, v0),
{
    assert(agrees(m0, v0, id));
    if ok {
        let v1 = v0.remove(id);
        assert forall |k: SessionId| #[trigger] agrees(m1, v1, k) by { assert(agrees(m0, v0, k)); }
    } else {
        assert forall |k: SessionId| #[trigger] agrees(m1, v0, k) by { assert(agrees(m0, v0, k)); }
    }
}
/// change_id: Ok ⇒ old live, new not live, sv' == sv.remove(old).insert(new, sv[old]);  DuplicateId ⇒ new live, unchanged;
/// UnknownId ⇒ old not live, sv' == sv
pub proof fn change_id_refines(m0: Raw, m1: Raw, v0: Sv, old_id: SessionId, new_id: SessionId, outcome: int)
    requires
        abs(m0, v0),
        // change_id.moves_the_record_atomically / duplicate_id_when_new_is_live / unknown_id_on_absent_or_expired_old
        outcome == 0 ==> live_at(m0, old_id) && !live_at(m0, new_id) && m1 == m0.remove(old_id).insert(new_id, m0[old_id]),
        outcome == 1 ==> live_at(m0, new_id) && m1 == m0,
        outcome == 2 ==> !live_at(m0, new_id) && !live_at(m0, old_id) && m1 == m0.remove(old_id),
        0 <= outcome <= 2,
    ensures
        outcome == 0 ==> v0.contains_key(old_id) && !v0.contains_key(new_id) && abs(m1, v0.remove(old_id).insert(new_id, v0[old_id])),
        outcome == 1 ==> v0.contains_key(new_id) && abs(m1, v0),
        outcome == 2 ==> !v0.contains_key(old_id) && abs(m1, v0),
{
    assert(agrees(m0, v0, old_id)); assert(agrees(m0, v0, new_id));
    if outcome == 0 {
        let v1 = v0.remove(old_id).insert(new_id, v0[old_id]);
        assert forall |k: SessionId| #[trigger] agrees(m1, v1, k) by { assert(agrees(m0, v0, k)); }
    } else if outcome == 2 {
        assert forall |k: SessionId| #[trigger] agrees(m1, v0, k) by { assert(agrees(m0, v0, k)); }
    }
}
/// delete_expired: only non-live records disappear ⇒ sv' == sv
pub proof fn delete_expired_refines(m0: Raw, m1: Raw, v0: Sv)
    requires
        abs(m0, v0),
        forall |k: SessionId| #[trigger] m1.contains_key(k) ==> m0.contains_key(k) && m1[k] == m0[k],
        forall |k: SessionId| (#[trigger] m0.contains_key(k) && !m1.contains_key(k)) ==> !live(m0[k]),
    ensures
        abs(m1, v0),
{
    assert forall |k: SessionId| #[trigger] agrees(m1, v0, k) by { assert(agrees(m0, v0, k)); }
}
